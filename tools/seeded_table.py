#!/usr/bin/env python3
"""Regenerates the seeded-change table in DESIGN.md (between the SEEDED-TABLE markers) and
seeded/INDEX.md from seeded/*/meta.json."""
import json, os, glob, re
ROOT = os.path.dirname(os.path.dirname(os.path.abspath(__file__)))
rows = []
for meta in sorted(glob.glob(os.path.join(ROOT, "seeded", "*", "meta.json"))):
    m = json.load(open(meta))
    name = m["name"]
    needs = ""
    mj = os.path.join(os.path.dirname(meta), "meta_extra.json")
    if os.path.exists(mj):
        needs = json.load(open(mj)).get("needs", "")
    caught = []
    for p, v in m.get("checks", {}).items():
        keys = []
        for l in v["lines"]:
            mm = re.search(r"key=(\S+)", l)
            if mm and l.startswith("DETAIL"):
                keys.append(mm.group(1))
        if v["caught"]:
            caught.append(f"{p}: " + ", ".join(f"`{k}`" for k in keys[:2]))
        else:
            caught.append(f"{p}: **missed** (exit {v['exit']})")
    ok = "yes" if m.get("confirmed") else "NO"
    rows.append(f"| {name} | {m['property']} | {m.get('suite_with_change','?')}; demo {m.get('demo_with_change')}/{m.get('demo_without_change')} | {ok} | {'; '.join(caught)} |")
table = "| seeded change | property | suite with change; demo with/without | confirmed | quick check verdict (violation keys) |\n|---|---|---|---|---|\n" + "\n".join(rows)
open(os.path.join(ROOT, "seeded", "INDEX.md"), "w").write("# Seeded property-breaking changes\n\n" + table + "\n")
p = os.path.join(ROOT, "DESIGN.md")
s = open(p).read()
a, b = "<!-- SEEDED-TABLE-BEGIN -->", "<!-- SEEDED-TABLE-END -->"
if a in s:
    s = s[: s.index(a) + len(a)] + "\n" + table + "\n" + s[s.index(b):]
    open(p, "w").write(s)
print(table)
