#!/usr/bin/env python3
"""Confirm a seeded property-breaking change and record it under /verif/seeded/<name>/.

  tools/seed.py <PROPERTY> <name> <dir with patch.diff, demo/, notes.md> [--demo-cmd "cargo test -p X --test Y --offline"]

Steps (all in a scratch worktree of /repo outside /repo and /verif, removed afterwards):
  1. apply patch.diff to a fresh worktree of /repo HEAD; the repository's own suite must still pass;
  2. the demonstration fails with the change and passes without it;
  3. run `./check <PROPERTY>` (quick) against the worktree in scratch mode and record the verdict.
Writes /verif/seeded/<name>/{patch.diff, demo/, notes.md, meta.json}.
"""
import json, os, re, shutil, subprocess, sys, time

ROOT = os.path.dirname(os.path.dirname(os.path.abspath(__file__)))

def run(cmd, cwd=None, env=None, timeout=3600):
    p = subprocess.run(cmd, shell=True, cwd=cwd, env=env, stdout=subprocess.PIPE, stderr=subprocess.STDOUT, text=True, timeout=timeout)
    return p.returncode, p.stdout

def main():
    prop, name, src = sys.argv[1], sys.argv[2], sys.argv[3]
    demo_cmd = None
    needs = None
    extra_props = []
    args = sys.argv[4:]
    while args:
        a = args.pop(0)
        if a == "--demo-cmd":
            demo_cmd = args.pop(0)
        elif a == "--also":
            extra_props.append(args.pop(0))
        elif a == "--needs":
            needs = args.pop(0)
    dest = os.path.join(ROOT, "seeded", name)
    os.makedirs(dest, exist_ok=True)
    shutil.copyfile(os.path.join(src, "patch.diff"), os.path.join(dest, "patch.diff"))
    if os.path.exists(os.path.join(src, "notes.md")):
        shutil.copyfile(os.path.join(src, "notes.md"), os.path.join(dest, "notes.md"))
    if os.path.isdir(os.path.join(dest, "demo")):
        shutil.rmtree(os.path.join(dest, "demo"))
    shutil.copytree(os.path.join(src, "demo"), os.path.join(dest, "demo"))
    wt = f"/tmp/sv-{name}"
    run(f"git -C /repo worktree remove --force {wt}")
    shutil.rmtree(wt, ignore_errors=True)
    rc, out = run(f"git -C /repo worktree add {wt} HEAD")
    assert rc == 0, out
    meta = {"property": prop, "name": name, "needs_to_manifest": needs, "repo_head": run("git -C /repo rev-parse --short HEAD")[1].strip(), "ran": []}
    try:
        rc, out = run(f"git apply --check {dest}/patch.diff && git apply {dest}/patch.diff", cwd=wt)
        if rc != 0:
            # written against an older /repo HEAD: a verification hook added since then may have
            # shifted the context of a hunk
            rc, out = run(f"patch -p1 --fuzz=3 --no-backup-if-mismatch < {dest}/patch.diff", cwd=wt)
            meta["patch_applied_with_fuzz"] = True
        assert rc == 0, "patch does not apply: " + out
        meta["patch_files"] = run("git diff --stat", cwd=wt)[1].strip().splitlines()
        # 1. repository suite with the change
        t0 = time.time()
        rc, out = run("cargo nextest run --workspace --no-fail-fast --offline 2>&1 | tail -5", cwd=wt)
        m = re.search(r"(\d+) tests run: (\d+) passed", out)
        meta["suite_with_change"] = m.group(0) if m else out[-300:]
        meta["ran"].append(f"cargo nextest run --workspace --no-fail-fast --offline (with change): {meta['suite_with_change']} [{time.time()-t0:.0f}s]")
        suite_ok = bool(m) and m.group(1) == m.group(2)
        # 2. demo with / without
        demo_files = []
        for base, _, files in os.walk(os.path.join(dest, "demo")):
            for f in files:
                if f.endswith(".diff"):
                    continue
                rel = os.path.relpath(os.path.join(base, f), os.path.join(dest, "demo"))
                os.makedirs(os.path.dirname(os.path.join(wt, rel)), exist_ok=True)
                shutil.copyfile(os.path.join(base, f), os.path.join(wt, rel))
                demo_files.append(rel)
        meta["demo_files"] = demo_files
        if demo_cmd is None:
            # tests/<x>.rs under a crate dir
            for rel in demo_files:
                mm = re.match(r"([^/]+)/tests/([^/]+)\.rs$", rel)
                if mm:
                    demo_cmd = f"cargo test -p {mm.group(1)} --test {mm.group(2)} --offline"
        meta["demo_cmd"] = demo_cmd
        rc_with, out_with = run(demo_cmd + " 2>&1 | tail -15", cwd=wt)
        failed_with = "FAILED" in out_with or "panicked" in out_with or "error" in out_with.lower() and "test result: ok" not in out_with
        run(f"git apply -R {dest}/patch.diff" if not meta.get("patch_applied_with_fuzz") else f"patch -R -p1 --fuzz=3 --no-backup-if-mismatch < {dest}/patch.diff", cwd=wt)
        rc_wo, out_wo = run(demo_cmd + " 2>&1 | tail -8", cwd=wt)
        passed_without = "test result: ok" in out_wo and "FAILED" not in out_wo
        run(f"git apply {dest}/patch.diff" if not meta.get("patch_applied_with_fuzz") else f"patch -p1 --fuzz=3 --no-backup-if-mismatch < {dest}/patch.diff", cwd=wt)
        meta["demo_with_change"] = "FAIL" if failed_with else "PASS(unexpected)"
        meta["demo_without_change"] = "PASS" if passed_without else "FAIL(unexpected)"
        meta["ran"].append(f"{demo_cmd}: with change {meta['demo_with_change']}, without {meta['demo_without_change']}")
        # remove demo files again so the check sees only the source change
        for rel in demo_files:
            os.remove(os.path.join(wt, rel))
        # 3. our checks
        verdicts = {}
        for p in [prop] + extra_props:
            env = dict(os.environ, VERIF_REPO=wt, VERIF_SCRATCH=f"/tmp/vh-scratch-sv-{name}")
            t0 = time.time()
            rc, out = run(f"./check {p} --tier quick", cwd=ROOT, env=env)
            keys = [l for l in out.splitlines() if l.startswith(("VIOLATION", "DETAIL", "KNOWN-FINDING", "MACHINERY"))]
            verdicts[p] = {"exit": rc, "caught": rc == 1, "wall_s": round(time.time() - t0, 1), "lines": [k[:400] for k in keys[:12]]}
            meta["ran"].append(f"VERIF_REPO={wt} ./check {p} --tier quick: exit {rc}")
        meta["checks"] = verdicts
        meta["confirmed"] = suite_ok and failed_with and passed_without
    finally:
        run(f"git -C /repo worktree remove --force {wt}")
        shutil.rmtree(wt, ignore_errors=True)
        shutil.rmtree(f"/tmp/vh-scratch-sv-{name}", ignore_errors=True)
    json.dump(meta, open(os.path.join(dest, "meta.json"), "w"), indent=1)
    print(json.dumps({k: meta[k] for k in ("property", "name", "suite_with_change", "demo_with_change", "demo_without_change", "confirmed")}, indent=1))
    for p, v in meta["checks"].items():
        print(p, "CAUGHT" if v["caught"] else f"MISSED (exit {v['exit']})", v["lines"][:3])

if __name__ == "__main__":
    main()
