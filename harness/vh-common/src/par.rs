//! Parallel exhaustive loops: `for_each_index(n, f)` calls `f(i)` for every `i < n` exactly once,
//! spread over all cores in chunks. No sampling, no early exit.

use std::sync::atomic::{AtomicU64, Ordering};

pub fn threads() -> usize {
    std::env::var("VERIF_THREADS")
        .ok()
        .and_then(|s| s.parse().ok())
        .unwrap_or_else(|| {
            std::thread::available_parallelism()
                .map(|n| n.get())
                .unwrap_or(4)
        })
}

/// Calls `f(worker_state, i)` for every i in 0..n. `init` builds one state per worker thread,
/// `fini` receives every worker state at the end (to merge counters).
pub fn for_each_index<S: Send>(
    n: u64,
    chunk: u64,
    init: impl Fn() -> S + Sync,
    f: impl Fn(&mut S, u64) + Sync,
) -> Vec<S> {
    let next = AtomicU64::new(0);
    let nthreads = threads().max(1);
    let chunk = chunk.max(1);
    std::thread::scope(|scope| {
        let handles: Vec<_> = (0..nthreads)
            .map(|_| {
                scope.spawn(|| {
                    let mut st = init();
                    loop {
                        let start = next.fetch_add(chunk, Ordering::Relaxed);
                        if start >= n {
                            break;
                        }
                        let end = (start + chunk).min(n);
                        for i in start..end {
                            f(&mut st, i);
                        }
                    }
                    st
                })
            })
            .collect();
        handles
            .into_iter()
            .map(|h| match h.join() {
                Ok(s) => s,
                Err(e) => std::panic::resume_unwind(e),
            })
            .collect()
    })
}

/// Mixed-radix decoding helper: splits `i` into digits for the given radices (first radix is the
/// fastest-moving digit). Used so that an exhaustive cross product can be addressed by one index.
pub fn decode(mut i: u64, radices: &[u64], out: &mut [u64]) {
    for (k, r) in radices.iter().enumerate() {
        out[k] = i % r;
        i /= r;
    }
    debug_assert_eq!(i, 0);
}

pub fn product(radices: &[u64]) -> u64 {
    radices.iter().product()
}
