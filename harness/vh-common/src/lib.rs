//! Shared plumbing of the /verif harness: evidence files, known findings, violation
//! reporting, a strict JSON parser (the EMF oracle) and a small parallel-for.

pub mod json;
pub mod par;
pub mod report;

pub use report::{Report, Tier};
