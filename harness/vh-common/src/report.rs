//! Evidence files, known findings and the VIOLATION / KNOWN-FINDING protocol.
//!
//! Every check binary builds one `Report`, feeds it counters, samples and violations and calls
//! `finish`, which writes `/verif/evidence/<id>.json` and turns the violations into exit codes:
//! 0 = held (known findings allowed), 1 = at least one violation not listed in
//! `known_findings.txt`, 2 = machinery failure (never a verdict).

use serde_json::{Map, Value, json};
use std::collections::BTreeMap;
use std::path::PathBuf;
use std::time::Instant;

#[derive(Clone, Copy, PartialEq, Eq, Debug)]
pub enum Tier {
    Quick,
    Thorough,
}

impl Tier {
    pub fn name(self) -> &'static str {
        match self {
            Tier::Quick => "quick",
            Tier::Thorough => "thorough",
        }
    }
    pub fn pick<T>(self, quick: T, thorough: T) -> T {
        match self {
            Tier::Quick => quick,
            Tier::Thorough => thorough,
        }
    }
}

pub fn verif_root() -> PathBuf {
    std::env::var_os("VERIF_ROOT")
        .map(PathBuf::from)
        .unwrap_or_else(|| std::env::current_dir().expect("cwd"))
}

/// One violation class: `key` identifies the *specific* failing shape (so that a different
/// violation of the same property is still reported); `what` is a one-line description;
/// `replay` is the minimal case as JSON.
#[derive(Clone, Debug)]
pub struct Violation {
    pub key: String,
    pub what: String,
    pub replay: Value,
    pub count: u64,
}

/// Per-worker collector; keeps the first case per key and counts the rest.
#[derive(Default, Clone, Debug)]
pub struct Violations {
    pub by_key: BTreeMap<String, Violation>,
}

impl Violations {
    pub fn add(&mut self, key: impl Into<String>, what: impl Into<String>, replay: Value) {
        let key = key.into();
        match self.by_key.get_mut(&key) {
            Some(v) => {
                v.count += 1;
                // keep the smallest case per key as the replay artefact
                if replay.to_string().len() < v.replay.to_string().len() {
                    v.replay = replay;
                    v.what = what.into();
                }
            }
            None => {
                self.by_key.insert(
                    key.clone(),
                    Violation {
                        key,
                        what: what.into(),
                        replay,
                        count: 1,
                    },
                );
            }
        }
    }
    pub fn has(&self, key: &str) -> bool {
        self.by_key.contains_key(key)
    }
    pub fn merge(&mut self, other: Violations) {
        for (k, v) in other.by_key {
            match self.by_key.get_mut(&k) {
                Some(mine) => {
                    mine.count += v.count;
                    if v.replay.to_string().len() < mine.replay.to_string().len() {
                        mine.replay = v.replay;
                        mine.what = v.what;
                    }
                }
                None => {
                    self.by_key.insert(k, v);
                }
            }
        }
    }
    pub fn is_empty(&self) -> bool {
        self.by_key.is_empty()
    }
}

pub struct Report {
    pub id: String,
    pub level: &'static str,
    pub tier: Tier,
    pub seed: i64,
    pub replay: Option<PathBuf>,
    pub start: Instant,
    pub violations: Violations,
    pub coverage: Map<String, Value>,
    pub assumptions: Vec<String>,
    pub samples: Vec<Value>,
    pub notes: Vec<String>,
}

impl Report {
    /// Parses `--tier quick|thorough`, `--replay FILE` from argv and VERIF_TIER / VERIF_SEED.
    pub fn from_args(id: &str, level: &'static str) -> Report {
        let mut tier = match std::env::var("VERIF_TIER").ok().as_deref() {
            Some("thorough") => Tier::Thorough,
            _ => Tier::Quick,
        };
        let mut replay = None;
        let args: Vec<String> = std::env::args().collect();
        let mut i = 1;
        while i < args.len() {
            match args[i].as_str() {
                "--tier" => {
                    i += 1;
                    tier = match args.get(i).map(|s| s.as_str()) {
                        Some("thorough") => Tier::Thorough,
                        Some("quick") => Tier::Quick,
                        other => {
                            eprintln!("bad --tier {other:?}");
                            std::process::exit(2)
                        }
                    };
                }
                "--replay" => {
                    i += 1;
                    replay = args.get(i).map(PathBuf::from);
                }
                _ => {}
            }
            i += 1;
        }
        let seed = std::env::var("VERIF_SEED")
            .ok()
            .and_then(|s| s.parse().ok())
            .unwrap_or(0);
        Report {
            id: id.to_string(),
            level,
            tier,
            seed,
            replay,
            start: Instant::now(),
            violations: Violations::default(),
            coverage: Map::new(),
            assumptions: Vec::new(),
            samples: Vec::new(),
            notes: Vec::new(),
        }
    }

    pub fn set(&mut self, key: &str, v: impl Into<Value>) {
        self.coverage.insert(key.to_string(), v.into());
    }
    pub fn add_count(&mut self, key: &str, n: u64) {
        let cur = self.coverage.get(key).and_then(|v| v.as_u64()).unwrap_or(0);
        self.coverage.insert(key.to_string(), json!(cur + n));
    }
    pub fn sample(&mut self, v: Value) {
        if self.samples.len() < 12 {
            self.samples.push(v);
        }
    }
    pub fn assume(&mut self, s: &str) {
        self.assumptions.push(s.to_string());
    }
    pub fn violation(&mut self, key: impl Into<String>, what: impl Into<String>, replay: Value) {
        self.violations.add(key, what, replay);
    }

    fn known_findings(&self) -> Vec<(String, String)> {
        // lines: "finding: property=<id> key=<key> <free text>"
        let path = verif_root().join("known_findings.txt");
        let mut out = Vec::new();
        if let Ok(text) = std::fs::read_to_string(path) {
            for line in text.lines() {
                let line = line.trim();
                let Some(rest) = line.strip_prefix("finding:") else {
                    continue;
                };
                let mut prop = None;
                let mut key = None;
                for tok in rest.split_whitespace() {
                    if let Some(p) = tok.strip_prefix("property=") {
                        prop = Some(p.to_string());
                    } else if let Some(k) = tok.strip_prefix("key=") {
                        key = Some(k.to_string());
                    }
                }
                if let (Some(p), Some(k)) = (prop, key) {
                    out.push((p, k));
                }
            }
        }
        out
    }

    /// Writes the evidence file, prints verdict lines, and exits.
    pub fn finish(mut self) -> ! {
        let wall = self.start.elapsed().as_secs_f64();
        let known = self.known_findings();
        let mut unknown = 0;
        let mut known_hits = Vec::new();
        let root = verif_root();
        for v in self.violations.by_key.values() {
            let is_known = known.iter().any(|(p, k)| *p == self.id && *k == v.key);
            if is_known {
                println!(
                    "KNOWN-FINDING: property={} key={} {} ({} cases)",
                    self.id, v.key, v.what, v.count
                );
                known_hits.push(v.key.clone());
            } else {
                unknown += 1;
                let dir = root.join("replays").join(&self.id);
                let _ = std::fs::create_dir_all(&dir);
                let fname: String = v
                    .key
                    .chars()
                    .map(|c| {
                        if c.is_ascii_alphanumeric() || c == '-' || c == '_' || c == '.' {
                            c
                        } else {
                            '_'
                        }
                    })
                    .take(120)
                    .collect();
                let path = dir.join(format!("{fname}.json"));
                let body = json!({
                    "property": self.id,
                    "key": v.key,
                    "what": v.what,
                    "cases_with_this_key": v.count,
                    "replay": v.replay,
                });
                if let Err(e) = std::fs::write(&path, serde_json::to_vec_pretty(&body).unwrap()) {
                    eprintln!("cannot write replay file {path:?}: {e}");
                }
                println!("DETAIL property={} key={} {}", self.id, v.key, v.what);
                println!(
                    "VIOLATION property={} replay={}",
                    self.id,
                    path.to_string_lossy()
                );
            }
        }
        if !self.samples.is_empty() {
            self.coverage
                .insert("samples".into(), Value::Array(self.samples.clone()));
        }
        if !self.notes.is_empty() {
            self.coverage.insert("notes".into(), json!(self.notes));
        }
        self.coverage
            .insert("known_findings_hit".into(), json!(known_hits));
        let ev = json!({
            "property_id": self.id,
            "tier": self.tier.name(),
            "seed": self.seed,
            "level": self.level,
            "coverage": Value::Object(self.coverage.clone()),
            "assumptions": self.assumptions,
            "wall_s": (wall * 1000.0).round() / 1000.0,
            "violations": unknown,
        });
        // a replay run must not overwrite the evidence of a full run
        if self.replay.is_none() {
            // multi-profile checks write one part per profile; the driver merges them
            let (dir, path) = match std::env::var("VERIF_PART") {
                Ok(part) => {
                    let d = root.join("evidence").join("parts");
                    let p = d.join(format!("{}.{}.json", self.id, part));
                    (d, p)
                }
                Err(_) => {
                    let d = root.join("evidence");
                    let p = d.join(format!("{}.json", self.id));
                    (d, p)
                }
            };
            let _ = std::fs::create_dir_all(&dir);
            if let Err(e) = std::fs::write(&path, serde_json::to_vec_pretty(&ev).unwrap()) {
                eprintln!("cannot write evidence {path:?}: {e}");
                std::process::exit(2);
            }
        }
        println!(
            "RESULT property={} tier={} violations={} known_findings={} wall_s={:.1}",
            self.id,
            self.tier.name(),
            unknown,
            known_hits.len(),
            wall
        );
        std::process::exit(if unknown > 0 { 1 } else { 0 })
    }
}
