//! A strict RFC 8259 parser written for the oracle (deliberately independent of serde_json,
//! which the code under test uses). Objects keep member order and duplicates, numbers keep
//! their lexeme.

#[derive(Debug, Clone, PartialEq)]
pub enum Json {
    Null,
    Bool(bool),
    /// the number exactly as written
    Num(String),
    Str(String),
    Arr(Vec<Json>),
    Obj(Vec<(String, Json)>),
}

impl Json {
    pub fn get(&self, key: &str) -> Option<&Json> {
        match self {
            Json::Obj(m) => m.iter().find(|(k, _)| k == key).map(|(_, v)| v),
            _ => None,
        }
    }
    pub fn as_str(&self) -> Option<&str> {
        match self {
            Json::Str(s) => Some(s),
            _ => None,
        }
    }
    pub fn as_arr(&self) -> Option<&[Json]> {
        match self {
            Json::Arr(a) => Some(a),
            _ => None,
        }
    }
    pub fn as_obj(&self) -> Option<&[(String, Json)]> {
        match self {
            Json::Obj(a) => Some(a),
            _ => None,
        }
    }
    pub fn as_num(&self) -> Option<&str> {
        match self {
            Json::Num(a) => Some(a),
            _ => None,
        }
    }
    /// Name of the first member that occurs twice in any object of the tree.
    pub fn first_duplicate(&self) -> Option<String> {
        match self {
            Json::Obj(m) => {
                for (i, (k, v)) in m.iter().enumerate() {
                    if m[..i].iter().any(|(k2, _)| k2 == k) {
                        return Some(k.clone());
                    }
                    if let Some(d) = v.first_duplicate() {
                        return Some(d);
                    }
                }
                None
            }
            Json::Arr(a) => a.iter().find_map(|v| v.first_duplicate()),
            _ => None,
        }
    }
}

pub fn is_integer_lexeme(s: &str) -> bool {
    let t = s.strip_prefix('-').unwrap_or(s);
    !t.is_empty() && t.bytes().all(|b| b.is_ascii_digit())
}

#[derive(Debug, Clone, PartialEq)]
pub struct ParseError {
    pub pos: usize,
    pub msg: &'static str,
}

struct P<'a> {
    b: &'a [u8],
    i: usize,
    depth: usize,
}

/// Parses exactly one JSON value spanning the whole input (no leading/trailing whitespace
/// tolerated beyond what RFC 8259 allows: ws is allowed around the value).
pub fn parse(input: &[u8]) -> Result<Json, ParseError> {
    if std::str::from_utf8(input).is_err() {
        return Err(ParseError {
            pos: 0,
            msg: "not utf-8",
        });
    }
    let mut p = P {
        b: input,
        i: 0,
        depth: 0,
    };
    p.ws();
    let v = p.value()?;
    p.ws();
    if p.i != p.b.len() {
        return Err(p.err("trailing characters"));
    }
    Ok(v)
}

impl<'a> P<'a> {
    fn err(&self, msg: &'static str) -> ParseError {
        ParseError { pos: self.i, msg }
    }
    fn ws(&mut self) {
        while self.i < self.b.len() && matches!(self.b[self.i], b' ' | b'\t' | b'\n' | b'\r') {
            self.i += 1;
        }
    }
    fn peek(&self) -> Option<u8> {
        self.b.get(self.i).copied()
    }
    fn expect(&mut self, c: u8, msg: &'static str) -> Result<(), ParseError> {
        if self.peek() == Some(c) {
            self.i += 1;
            Ok(())
        } else {
            Err(self.err(msg))
        }
    }
    fn lit(&mut self, s: &[u8], v: Json) -> Result<Json, ParseError> {
        if self.b[self.i..].starts_with(s) {
            self.i += s.len();
            Ok(v)
        } else {
            Err(self.err("bad literal"))
        }
    }
    fn value(&mut self) -> Result<Json, ParseError> {
        self.depth += 1;
        if self.depth > 64 {
            return Err(self.err("too deep"));
        }
        let r = match self.peek() {
            None => Err(self.err("unexpected end")),
            Some(b'{') => self.object(),
            Some(b'[') => self.array(),
            Some(b'"') => self.string().map(Json::Str),
            Some(b't') => self.lit(b"true", Json::Bool(true)),
            Some(b'f') => self.lit(b"false", Json::Bool(false)),
            Some(b'n') => self.lit(b"null", Json::Null),
            Some(b'-') | Some(b'0'..=b'9') => self.number(),
            Some(_) => Err(self.err("unexpected character")),
        };
        self.depth -= 1;
        r
    }
    fn object(&mut self) -> Result<Json, ParseError> {
        self.i += 1;
        let mut m = Vec::new();
        self.ws();
        if self.peek() == Some(b'}') {
            self.i += 1;
            return Ok(Json::Obj(m));
        }
        loop {
            self.ws();
            if self.peek() != Some(b'"') {
                return Err(self.err("expected member name"));
            }
            let k = self.string()?;
            self.ws();
            self.expect(b':', "expected ':'")?;
            self.ws();
            let v = self.value()?;
            m.push((k, v));
            self.ws();
            match self.peek() {
                Some(b',') => self.i += 1,
                Some(b'}') => {
                    self.i += 1;
                    return Ok(Json::Obj(m));
                }
                _ => return Err(self.err("expected ',' or '}'")),
            }
        }
    }
    fn array(&mut self) -> Result<Json, ParseError> {
        self.i += 1;
        let mut a = Vec::new();
        self.ws();
        if self.peek() == Some(b']') {
            self.i += 1;
            return Ok(Json::Arr(a));
        }
        loop {
            self.ws();
            let v = self.value()?;
            a.push(v);
            self.ws();
            match self.peek() {
                Some(b',') => self.i += 1,
                Some(b']') => {
                    self.i += 1;
                    return Ok(Json::Arr(a));
                }
                _ => return Err(self.err("expected ',' or ']'")),
            }
        }
    }
    fn hex4(&mut self) -> Result<u32, ParseError> {
        if self.i + 4 > self.b.len() {
            return Err(self.err("short \\u escape"));
        }
        let mut v = 0u32;
        for k in 0..4 {
            let c = self.b[self.i + k];
            let d = match c {
                b'0'..=b'9' => c - b'0',
                b'a'..=b'f' => c - b'a' + 10,
                b'A'..=b'F' => c - b'A' + 10,
                _ => return Err(self.err("bad hex digit")),
            };
            v = v * 16 + d as u32;
        }
        self.i += 4;
        Ok(v)
    }
    fn string(&mut self) -> Result<String, ParseError> {
        self.i += 1; // opening quote
        let mut out: Vec<u8> = Vec::new();
        loop {
            let Some(c) = self.peek() else {
                return Err(self.err("unterminated string"));
            };
            match c {
                b'"' => {
                    self.i += 1;
                    // input was validated as UTF-8 and escapes only add valid scalars
                    return String::from_utf8(out).map_err(|_| self.err("invalid utf-8 in string"));
                }
                0x00..=0x1f => return Err(self.err("unescaped control character")),
                b'\\' => {
                    self.i += 1;
                    let Some(e) = self.peek() else {
                        return Err(self.err("unterminated escape"));
                    };
                    self.i += 1;
                    match e {
                        b'"' => out.push(b'"'),
                        b'\\' => out.push(b'\\'),
                        b'/' => out.push(b'/'),
                        b'b' => out.push(0x08),
                        b'f' => out.push(0x0c),
                        b'n' => out.push(b'\n'),
                        b'r' => out.push(b'\r'),
                        b't' => out.push(b'\t'),
                        b'u' => {
                            let hi = self.hex4()?;
                            let cp = if (0xD800..0xDC00).contains(&hi) {
                                if self.b[self.i..].starts_with(b"\\u") {
                                    self.i += 2;
                                    let lo = self.hex4()?;
                                    if !(0xDC00..0xE000).contains(&lo) {
                                        return Err(self.err("bad low surrogate"));
                                    }
                                    0x10000 + ((hi - 0xD800) << 10) + (lo - 0xDC00)
                                } else {
                                    return Err(self.err("lone high surrogate"));
                                }
                            } else if (0xDC00..0xE000).contains(&hi) {
                                return Err(self.err("lone low surrogate"));
                            } else {
                                hi
                            };
                            let ch = char::from_u32(cp).ok_or_else(|| self.err("bad scalar"))?;
                            let mut buf = [0u8; 4];
                            out.extend_from_slice(ch.encode_utf8(&mut buf).as_bytes());
                        }
                        _ => return Err(self.err("bad escape")),
                    }
                }
                _ => {
                    out.push(c);
                    self.i += 1;
                }
            }
        }
    }
    fn number(&mut self) -> Result<Json, ParseError> {
        let start = self.i;
        if self.peek() == Some(b'-') {
            self.i += 1;
        }
        match self.peek() {
            Some(b'0') => self.i += 1,
            Some(b'1'..=b'9') => {
                while matches!(self.peek(), Some(b'0'..=b'9')) {
                    self.i += 1;
                }
            }
            _ => return Err(self.err("bad number")),
        }
        if self.peek() == Some(b'.') {
            self.i += 1;
            if !matches!(self.peek(), Some(b'0'..=b'9')) {
                return Err(self.err("bad fraction"));
            }
            while matches!(self.peek(), Some(b'0'..=b'9')) {
                self.i += 1;
            }
        }
        if matches!(self.peek(), Some(b'e') | Some(b'E')) {
            self.i += 1;
            if matches!(self.peek(), Some(b'+') | Some(b'-')) {
                self.i += 1;
            }
            if !matches!(self.peek(), Some(b'0'..=b'9')) {
                return Err(self.err("bad exponent"));
            }
            while matches!(self.peek(), Some(b'0'..=b'9')) {
                self.i += 1;
            }
        }
        Ok(Json::Num(
            std::str::from_utf8(&self.b[start..self.i])
                .unwrap()
                .to_owned(),
        ))
    }
}

#[cfg(test)]
mod tests {
    use super::*;
    #[test]
    fn accepts_and_rejects() {
        assert!(parse(r#"{"a":[1,2.5e-3,"xé😀"],"a":null}"#.as_bytes()).is_ok());
        assert_eq!(
            parse(br#"{"a":1,"b":{"c":1,"c":2}}"#)
                .unwrap()
                .first_duplicate(),
            Some("c".into())
        );
        for bad in [
            &br#"{"a":[1,]}"#[..],
            br#"{"a":01}"#,
            br#"{"a":1.}"#,
            br#"{"a":"\x"}"#,
            b"{\"a\":\"\x01\"}",
            br#"{"a":1}x"#,
            br#"{"a":"\ud800"}"#,
            br#"{"a":NaN}"#,
            br#"{,}"#,
            br#"[1 2]"#,
        ] {
            assert!(parse(bad).is_err(), "{:?}", std::str::from_utf8(bad));
        }
    }
}
