//! E1: loom exploration of the real metrique crates (built with
//! `--cfg metrique_verif --cfg metrique_verif_loom`).
//!
//!   vh-sched <PROPERTY> [--tier quick|thorough] [--replay FILE]   orchestrator
//!   vh-sched run <harness> <json-config>                          one model, in this process

#![allow(dead_code)]
mod harness;
mod mc;
mod orch;
mod props;
mod rec;

use serde_json::Value;

pub fn model_cfg(cfg: &Value) -> mc::ModelCfg {
    mc::ModelCfg {
        preemption_bound: cfg["pb"].as_u64().map(|x| x as usize),
        max_branches: cfg["max_branches"].as_u64().unwrap_or(20_000) as usize,
        max_secs: cfg["max_secs"].as_u64().unwrap_or(600),
    }
}

fn run_child(harness: &str, cfg: Value) {
    let stop_at = cfg["stop_at"].as_u64();
    let mcfg = model_cfg(&cfg);
    let ctx = serde_json::json!({"harness": harness, "config": cfg});
    let body: Box<dyn Fn() + Send + Sync> = match harness {
        "c01" => Box::new(move || harness::queue::c01(&cfg)),
        "c01_spawn_failure" => Box::new(move || harness::queue::c01_spawn_failure(&cfg)),
        "c01_multi" => Box::new(move || harness::queue::c01_multi(&cfg)),
        "c01_writer_thread_append" => Box::new(move || harness::queue::c01_writer_thread_append(&cfg)),
        "c04_request_during_flush" => Box::new(move || harness::queue::c04_request_during_flush(&cfg)),
        "c04" => Box::new(move || harness::queue::c04(&cfg)),
        "c05_drop" => Box::new(move || harness::queue::c05_drop(&cfg)),
        "c05_busy_producer" => Box::new(move || harness::queue::c05_busy_producer(&cfg)),
        "c05_forget" => Box::new(move || harness::queue::c05_forget(&cfg)),
        "c09_last_handle_in_flush" => Box::new(move || harness::queue::c09_last_handle_in_flush(&cfg)),
        "c09" => Box::new(move || harness::queue::c09(&cfg)),
        "c06" => Box::new(move || harness::uow::c06(&cfg)),
        "c10" => Box::new(move || harness::agg::c10(&cfg)),
        "c10_last_handle_on_worker" => Box::new(move || harness::agg::c10_last_handle_on_worker(&cfg)),
        "c10_mutex" => Box::new(move || harness::agg::c10_mutex(&cfg)),
        "c11_shared" => Box::new(move || harness::agg::c11_shared(&cfg)),
        "c17" => Box::new(move || harness::global::c17(&cfg)),
        "c20" => Box::new(move || harness::bridge::c20(&cfg)),
        "c20_describe_vs_readout" => Box::new(move || harness::bridge::c20_describe_vs_readout(&cfg)),
        "c20_describe" => Box::new(move || harness::bridge::c20_describe(&cfg)),
        "c17_attach" => Box::new(move || harness::global::c17_attach(&cfg)),
        "c13" => Box::new(move || harness::uow::c13(&cfg)),
        "c18_owned" => Box::new(move || harness::timers::c18_owned(&cfg)),
        other => {
            eprintln!("unknown harness {other}");
            std::process::exit(2)
        }
    };
    mc::run_model(&mcfg, ctx, stop_at, body);
}

fn main() {
    let args: Vec<String> = std::env::args().collect();
    match args.get(1).map(|s| s.as_str()) {
        Some("run") => {
            let harness = args.get(2).expect("harness");
            let cfg: Value = serde_json::from_str(args.get(3).expect("config")).expect("json config");
            run_child(harness, cfg);
        }
        Some(p) if p.starts_with('C') => props::run_property(p),
        _ => {
            eprintln!("usage: vh-sched <PROPERTY> [--tier ..] | run <harness> <json>");
            std::process::exit(2)
        }
    }
}
