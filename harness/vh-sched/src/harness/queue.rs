//! Background queue harnesses (C01 ...): real `BackgroundQueueBuilder::build` / `build_boxed`,
//! real `Receiver::run` on a loom thread, facade primitives.

use crate::mc;
use crate::rec::*;
use metrique_writer::sink::{BackgroundQueueBuilder, BackgroundQueueJoinHandle};
use metrique_writer::{BoxEntrySink, EntrySink};
use metrique_writer_core::__verif::{thread, time as vtime};
use serde_json::Value;
use std::collections::BTreeMap;
use std::time::Duration;

pub enum Q {
    Typed(metrique_writer::sink::BackgroundQueue<TaggedEntry>),
    Boxed(BoxEntrySink),
}

impl Clone for Q {
    fn clone(&self) -> Self {
        match self {
            Q::Typed(q) => Q::Typed(q.clone()),
            Q::Boxed(q) => Q::Boxed(q.clone()),
        }
    }
}

impl Q {
    pub fn append(&self, t: Tag) {
        match self {
            Q::Typed(q) => q.append(TaggedEntry(t)),
            Q::Boxed(q) => q.append(TaggedEntry(t)),
        }
    }
    /// `append_on_drop` guard on this handle, then consumed as `how` says
    pub fn guard_then(&self, t: Tag, how: &str) {
        fn consume<Q2: EntrySink<TaggedEntry>>(g: metrique_writer_core::sink::AppendOnDrop<TaggedEntry, Q2>, how: &str) {
            match how {
                "drop" => drop(g),
                "into_entry" => drop(g.into_entry()),
                "forget" => g.forget(),
                other => panic!("HARNESS: unknown guard end {other}"),
            }
        }
        match self {
            Q::Typed(q) => consume(q.append_on_drop(TaggedEntry(t)), how),
            Q::Boxed(q) => consume(q.append_on_drop(TaggedEntry(t)), how),
        }
    }
    pub fn flush_async(&self) -> metrique_writer_core::sink::FlushWait {
        match self {
            Q::Typed(q) => q.flush_async(),
            Q::Boxed(q) => EntrySink::<TaggedEntry>::flush_async(q),
        }
    }
}

/// set per model (one model per process): queues are built with a metrics recorder
pub static WITH_RECORDER: std::sync::atomic::AtomicBool = std::sync::atomic::AtomicBool::new(false);

pub fn build(boxed: bool, capacity: usize, stream: RecStream) -> (Q, BackgroundQueueJoinHandle) {
    let mut b = BackgroundQueueBuilder::new().capacity(capacity);
    if WITH_RECORDER.load(std::sync::atomic::Ordering::Relaxed) {
        let (rec, _counts) = CountingRecorder::new();
        b = b.metrics_recorder_local::<dyn metrics_024::Recorder, _>(rec);
    }
    if boxed {
        let (q, h) = b.build_boxed(stream);
        (Q::Boxed(q), h)
    } else {
        let (q, h) = b.build::<TaggedEntry>(stream);
        (Q::Typed(q), h)
    }
}

pub fn parse_script(s: &str, p: usize, n: usize) -> BTreeMap<Tag, Res> {
    let mut m = BTreeMap::new();
    let chars: Vec<char> = s.chars().collect();
    for pi in 0..p {
        for si in 0..n {
            let c = chars.get(pi * n + si).copied().unwrap_or('o');
            let r = match c {
                'v' => Res::Validation,
                'i' => Res::Io,
                _ => Res::Ok,
            };
            if r != Res::Ok {
                m.insert(Tag { p: pi as u8, seq: si as u8 }, r);
            }
        }
    }
    m
}

/// C01: P producers x n entries, optional flush request in between, scripted stream results,
/// optional clock jump at the k-th clock read; then shut down and inspect the stream log.
pub fn c01(cfg: &Value) {
    let p = cfg["p"].as_u64().unwrap() as usize;
    let n = cfg["n"].as_u64().unwrap() as usize;
    let boxed = cfg["boxed"].as_bool().unwrap_or(false);
    let flush = cfg["flush"].as_bool().unwrap_or(false);
    let script = parse_script(cfg["script"].as_str().unwrap_or(""), p, n);
    let jump = cfg["jump_k"].as_u64();
    let (stream, log) = RecStream::new(script.clone());
    if let Some(k) = jump {
        vtime::jump_at_read(k, Duration::from_secs(2));
    }
    let (q, handle) = build(boxed, 8, stream);
    let producers: Vec<_> = (0..p)
        .map(|pi| {
            let q = q.clone();
            thread::spawn(move || {
                for si in 0..n {
                    q.append(Tag { p: pi as u8, seq: si as u8 });
                    if flush && si == 0 && pi == 0 {
                        drop(q.flush_async());
                    }
                }
            })
        })
        .collect();
    for h in producers {
        h.join().unwrap();
    }
    drop(q);
    drop(handle);
    let log = log.lock().unwrap_or_else(|e| e.into_inner()).clone();
    mc::outcome(log_string(&log));
    // ---- oracle
    let mut seen: BTreeMap<Tag, usize> = BTreeMap::new();
    let mut last_seq: BTreeMap<u8, i32> = BTreeMap::new();
    let mut validation_results = 0;
    let mut reports = 0;
    for ev in &log {
        match ev {
            Ev::Next(Seen::Tagged(t), r) => {
                *seen.entry(*t).or_default() += 1;
                let last = last_seq.entry(t.p).or_insert(-1);
                if (t.seq as i32) == *last {
                    mc::violation("entry-duplicated", format!("entry {t} reached the stream twice: {}", log_string(&log)));
                }
                if (t.seq as i32) < *last {
                    mc::violation("per-producer-order", format!("entry {t} reached the stream after a later entry of the same producer: {}", log_string(&log)));
                }
                *last = t.seq as i32;
                if *r == Res::Validation {
                    validation_results += 1;
                }
            }
            Ev::Next(Seen::Report, _) => {
                reports += 1;
                if validation_results == 0 {
                    mc::violation("report-without-validation-error", format!("in-band error report without a preceding validation error: {}", log_string(&log)));
                }
            }
            Ev::Next(Seen::Other(o), _) => {
                mc::violation("foreign-entry", format!("something else reached the stream: {o}: {}", log_string(&log)));
            }
            _ => {}
        }
    }
    let allowed_reports = if jump.is_some() { 2 } else { 1 };
    if reports > allowed_reports.min(validation_results.max(0)) {
        mc::violation("report-not-rate-limited", format!("{reports} in-band reports for {validation_results} validation errors within {allowed_reports} fake second(s): {}", log_string(&log)));
    }
    for pi in 0..p {
        for si in 0..n {
            let t = Tag { p: pi as u8, seq: si as u8 };
            match seen.get(&t).copied().unwrap_or(0) {
                1 => {}
                0 => mc::violation("entry-lost", format!("entry {t} never reached the stream: {}", log_string(&log))),
                k => mc::violation("entry-duplicated", format!("entry {t} reached the stream {k} times: {}", log_string(&log))),
            }
        }
    }
}

fn tags_in(log: &[Ev]) -> Vec<Tag> {
    log.iter()
        .filter_map(|e| match e {
            Ev::Next(Seen::Tagged(t), _) => Some(*t),
            _ => None,
        })
        .collect()
}

/// Oracle for "a completed flush means everything appended before it is written and flushed":
/// `before` = entries whose append had returned when the flush was requested, `snap` = stream
/// log at the instant completion was signalled, `displaced_ok(tag)` = may this entry have been
/// displaced by overflow.
fn check_flush_snapshot(who: &str, before: &[Tag], snap: &[Ev], displaced_ok: impl Fn(Tag) -> bool) {
    let mut last_pos = None;
    for t in before {
        match snap.iter().position(|e| matches!(e, Ev::Next(Seen::Tagged(x), _) if x == t)) {
            Some(p) => last_pos = Some(last_pos.map_or(p, |l: usize| l.max(p))),
            None => {
                if !displaced_ok(*t) {
                    mc::violation(
                        "flush-completed-before-write",
                        format!("{who}: flush completed but entry {t} (appended before the request) had not reached the stream: log at completion = {}", log_string(snap)),
                    );
                }
            }
        }
    }
    if let Some(p) = last_pos {
        if !snap[p + 1..].iter().any(|e| *e == Ev::Flush) {
            mc::violation(
                "flush-completed-before-stream-flush",
                format!("{who}: flush completed but the stream was not flushed after the last entry appended before the request: log at completion = {}", log_string(snap)),
            );
        }
    }
}

/// C04: producers and flushers on separate threads (or one thread doing both).
///   cfg: cap, producers: [n entries each], flushers: k (each requests one flush after `after`
///   of its own appends if it is also a producer), mode: "separate" | "self" | "after-shutdown"
pub fn c04(cfg: &Value) {
    let cap = cfg["cap"].as_u64().unwrap_or(8) as usize;
    let n = cfg["n"].as_u64().unwrap_or(2) as usize;
    let mode = cfg["mode"].as_str().unwrap_or("separate").to_string();
    let boxed = cfg["boxed"].as_bool().unwrap_or(false);
    let flushers = cfg["flushers"].as_u64().unwrap_or(1) as usize;
    PROBE_FIRST.store(cfg["probe_first"].as_bool().unwrap_or(false), std::sync::atomic::Ordering::Relaxed);
    WITH_RECORDER.store(cfg["recorder"].as_bool().unwrap_or(false), std::sync::atomic::Ordering::Relaxed);
    if let Some(k) = cfg["jump_k"].as_u64() {
        vtime::jump_at_read(k, Duration::from_secs(2));
    }
    let (stream, log) = RecStream::new(BTreeMap::new());
    let (q, handle) = build(boxed, cap, stream);
    let returned = Returned::default();
    // every harness-level operation (append, flush request) first touches one shared
    // scheduler-visible marker, so that all their orders are explored even where a change under
    // test synchronises through state the scheduler cannot see (see agg.rs)
    let ops = metrique_writer_core::__verif::sync::Arc::new(metrique_writer_core::__verif::shadow::Shadow::new());
    let total = n;
    // with a single producer the append order is the tag order: an entry may be displaced iff
    // at least `cap` newer entries exist
    let displaced_ok = move |t: Tag| (total - 1 - t.seq as usize) >= cap;
    let mut threads = Vec::new();
    match mode.as_str() {
        "self" => {
            // one thread: append n entries, request a flush after `after` of them, wait for it
            let after = cfg["after"].as_u64().unwrap_or(n as u64) as usize;
            let (q, log, returned, ops) = (q.clone(), log.clone(), returned.clone(), ops.clone());
            threads.push(thread::spawn(move || {
                let mut pending = None;
                for si in 0..n {
                    if si == after {
                        pending = Some((returned.get(), { ops.touch(); q.flush_async() }));
                    }
                    let t = Tag { p: 0, seq: si as u8 };
                    ops.touch();
                    q.append(t);
                    returned.push(t);
                }
                let (before, fut) = pending.unwrap_or_else(|| (returned.get(), { ops.touch(); q.flush_async() }));
                let ((), snap) = wait_with_snapshot(fut, &log);
                mc::outcome(format!("before={} snap={}", before.len(), log_string(&snap)));
                check_flush_snapshot("self", &before, &snap, displaced_ok);
            }));
        }
        "separate" => {
            {
                let (q, returned, ops) = (q.clone(), returned.clone(), ops.clone());
                threads.push(thread::spawn(move || {
                    for si in 0..n {
                        let t = Tag { p: 0, seq: si as u8 };
                        ops.touch();
                    q.append(t);
                        returned.push(t);
                    }
                }));
            }
            for f in 0..flushers {
                let (q, log, returned, ops) = (q.clone(), log.clone(), returned.clone(), ops.clone());
                threads.push(thread::spawn(move || {
                    let before = returned.get();
                    let fut = { ops.touch(); q.flush_async() };
                    let ((), snap) = wait_with_snapshot(fut, &log);
                    mc::outcome(format!("f{f} before={} snap={}", before.len(), log_string(&snap)));
                    check_flush_snapshot("separate", &before, &snap, displaced_ok);
                }));
            }
        }
        "after-shutdown" => {
            for si in 0..n {
                let t = Tag { p: 0, seq: si as u8 };
                ops.touch();
                    q.append(t);
                returned.push(t);
            }
            drop(handle);
            // the queue has shut down: a flush request completes immediately (nothing can block)
            let before = returned.get();
            let ((), snap) = wait_with_snapshot({ ops.touch(); q.flush_async() }, &log);
            mc::outcome(format!("after-shutdown snap={}", log_string(&snap)));
            check_flush_snapshot("after-shutdown", &before, &snap, displaced_ok);
            return;
        }
        "during-shutdown" => {
            // the request is made on a live queue (before the handle's drop begins, in program
            // order); the writer's shutdown races the completion of the future
            for si in 0..n {
                let t = Tag { p: 0, seq: si as u8 };
                ops.touch();
                    q.append(t);
                returned.push(t);
            }
            let before = returned.get();
            let fut = { ops.touch(); q.flush_async() };
            {
                let log = log.clone();
                threads.push(thread::spawn(move || {
                    let ((), snap) = wait_with_snapshot(fut, &log);
                    mc::outcome(format!("during-shutdown snap={}", log_string(&snap)));
                    check_flush_snapshot("during-shutdown", &before, &snap, displaced_ok);
                }));
            }
            drop(handle);
            for t in threads {
                t.join().unwrap();
            }
            return;
        }
        "request-by-another-thread-during-shutdown" => {
            // entries are appended, then main drops the join handle while another thread requests
            // a flush: whether the request lands before the shutdown began, while the writer is
            // still draining, or after it has exited, its completion means the entries appended
            // before it are written and flushed
            for si in 0..n {
                let t = Tag { p: 0, seq: si as u8 };
                ops.touch();
                q.append(t);
                returned.push(t);
            }
            {
                let (q, log, returned, ops) = (q.clone(), log.clone(), returned.clone(), ops.clone());
                threads.push(thread::spawn(move || {
                    let before = returned.get();
                    ops.touch();
                    let fut = q.flush_async();
                    let ((), snap) = wait_with_snapshot(fut, &log);
                    mc::outcome(format!("request-during-shutdown snap={}", log_string(&snap)));
                    check_flush_snapshot("request-by-another-thread-during-shutdown", &before, &snap, displaced_ok);
                }));
            }
            ops.touch();
            drop(handle);
            for t in threads {
                t.join().unwrap();
            }
            return;
        }
        "last-handle-dropped" => {
            // the requester owns the only queue handle and drops it right after the request:
            // append(s); flush_async(); drop(queue). The request was made on a live queue.
            for si in 0..n {
                let t = Tag { p: 0, seq: si as u8 };
                ops.touch();
                    q.append(t);
                returned.push(t);
            }
            let before = returned.get();
            let fut = { ops.touch(); q.flush_async() };
            drop(q);
            let ((), snap) = wait_with_snapshot(fut, &log);
            mc::outcome(format!("last-handle-dropped snap={}", log_string(&snap)));
            check_flush_snapshot("last-handle-dropped", &before, &snap, displaced_ok);
            drop(handle);
            return;
        }
        other => panic!("HARNESS: unknown mode {other}"),
    }
    for t in threads {
        t.join().unwrap();
    }
    drop(q);
    drop(handle);
}

/// C01, environment answer "the OS refuses to create the writer thread": `build` may refuse
/// loudly (panic), but a queue it does hand out delivers what is appended to it.
pub fn c01_spawn_failure(cfg: &Value) {
    assert_eq!(cfg["pb"].as_u64(), Some(0), "HARNESS: panicking models need preemption bound 0");
    let boxed = cfg["boxed"].as_bool().unwrap_or(false);
    let (stream, log) = RecStream::new(BTreeMap::new());
    thread::fail_next_spawn();
    let built = mc::catching(move || build(boxed, 8, stream));
    match built {
        Err(_) => mc::outcome("build refused loudly (panic)".into()),
        Ok((q, handle)) => {
            let tags = [Tag { p: 0, seq: 0 }, Tag { p: 0, seq: 1 }];
            for t in tags {
                q.append(t);
            }
            drop(handle);
            let end = log.lock().unwrap_or_else(|e| e.into_inner()).clone();
            mc::outcome(format!("build handed out a queue: {}", log_string(&end)));
            let seen = tags_in(&end);
            for t in tags {
                if !seen.contains(&t) {
                    mc::violation("queue-handed-out-without-a-writer", format!("thread creation failed inside build(), which still returned a queue; entry {t} appended to it never reached the stream although the join handle was dropped: {}", log_string(&end)));
                }
            }
            drop(q);
        }
    }
}

/// C01: an entry appended from the writer thread itself (the stream's `next` appends a follow-up
/// entry through a handle of the same queue, as an entry's Drop or an auditing stream would).
pub fn c01_writer_thread_append(cfg: &Value) {
    let boxed = cfg["boxed"].as_bool().unwrap_or(false);
    let n = cfg["n"].as_u64().unwrap_or(2) as usize;
    let (mut stream, log) = RecStream::new(BTreeMap::new());
    // the handle the stream uses is put into the slot before the first append
    let slot: std::sync::Arc<std::sync::Mutex<Option<Q>>> = Default::default();
    {
        let slot = slot.clone();
        stream.on_next = Some(Box::new(move |seen| {
            if let Seen::Tagged(t) = seen {
                if t.p == 0 {
                    // (never a scheduler-visible step - a clone or drop of the handle - while the
                    // std mutex is held: all model threads share one OS thread)
                    let q = slot.lock().unwrap_or_else(|e| e.into_inner()).take();
                    if let Some(q) = q {
                        q.append(Tag { p: 9, seq: t.seq });
                        *slot.lock().unwrap_or_else(|e| e.into_inner()) = Some(q);
                    }
                }
            }
        }));
    }
    let (q, handle) = build(boxed, 8, stream);
    let for_stream = q.clone();
    *slot.lock().unwrap_or_else(|e| e.into_inner()) = Some(for_stream);
    for si in 0..n {
        q.append(Tag { p: 0, seq: si as u8 });
    }
    // a flush request orders the follow-up entries before the shutdown begins
    let ((), _snap) = wait_with_snapshot(q.flush_async(), &log);
    let ((), _snap) = wait_with_snapshot(q.flush_async(), &log);
    let from_stream = slot.lock().unwrap_or_else(|e| e.into_inner()).take();
    drop(from_stream);
    drop(q);
    drop(handle);
    let end = log.lock().unwrap_or_else(|e| e.into_inner()).clone();
    mc::outcome(log_string(&end));
    let seen = tags_in(&end);
    for si in 0..n {
        for p in [0u8, 9] {
            let t = Tag { p, seq: si as u8 };
            let count = seen.iter().filter(|x| **x == t).count();
            if count != 1 {
                mc::violation(
                    "entry-appended-on-the-writer-thread-not-written-exactly-once",
                    format!("entry {t} ({}) reached the stream {count} times: {}", if p == 9 { "appended from inside the stream's next, on the writer thread" } else { "appended by main" }, log_string(&end)),
                );
            }
        }
    }
}

/// C04: while the writer flushes the stream for request r1, 40 entries and request r2 arrive (from
/// inside the stream's flush, i.e. deterministically in that window); the next drain pass is cut
/// short by the flush deadline (clock jump at the k-th clock read). r2 may complete only when all
/// 41 entries were written and flushed.
pub fn c04_request_during_flush(cfg: &Value) {
    let burst = cfg["burst"].as_u64().unwrap_or(40) as usize;
    // (capacity below the burst: the burst overflows the queue, displacing its own oldest entries)
    let cap = cfg["cap"].as_u64().unwrap_or(128) as usize;
    if let Some(k) = cfg["jump_k"].as_u64() {
        vtime::jump_at_read(k, Duration::from_secs(2));
    }
    let (mut stream, log) = RecStream::new(BTreeMap::new());
    let slot: std::sync::Arc<std::sync::Mutex<Option<Q>>> = Default::default();
    let second: std::sync::Arc<std::sync::Mutex<Option<metrique_writer_core::sink::FlushWait>>> = Default::default();
    {
        let (slot, second) = (slot.clone(), second.clone());
        let mut fired = false;
        stream.on_flush = Some(Box::new(move |_idx| {
            // (the handle is moved out of and back into the slot: no scheduler-visible step
            // while a std mutex is held)
            let q = if fired { None } else { slot.lock().unwrap_or_else(|e| e.into_inner()).take() };
            if let Some(q) = q {
                fired = true;
                for si in 0..burst {
                    q.append(Tag { p: 1, seq: si as u8 });
                }
                let r2 = q.flush_async();
                *second.lock().unwrap_or_else(|e| e.into_inner()) = Some(r2);
                *slot.lock().unwrap_or_else(|e| e.into_inner()) = Some(q);
            }
        }));
    }
    let (q, handle) = build(false, cap, stream);
    q.append(Tag { p: 0, seq: 0 });
    // only from now on may the flush callback fire (the periodic flush before would be too early)
    let for_stream = q.clone();
    *slot.lock().unwrap_or_else(|e| e.into_inner()) = Some(for_stream);
    let ((), _snap1) = wait_with_snapshot(q.flush_async(), &log);
    let r2 = second.lock().unwrap_or_else(|e| e.into_inner()).take();
    if let Some(r2) = r2 {
        let mut before = vec![Tag { p: 0, seq: 0 }];
        before.extend((0..burst).map(|si| Tag { p: 1, seq: si as u8 }));
        let ((), snap) = wait_with_snapshot(r2, &log);
        mc::outcome(format!("r2 completed with {} entries written", tags_in(&snap).len()));
        // an entry of the burst was displaced iff at least `cap` newer ones followed it
        // (main's own first entry too, if the burst found it still queued: at least `cap` newer)
        check_flush_snapshot("request-during-flush", &before, &snap, |t| (t.p == 1 && burst - 1 - (t.seq as usize) >= cap) || (t.p == 0 && burst >= cap));
    } else {
        mc::outcome("the stream was not flushed for r1 while the slot was set".into());
    }
    let from_stream = slot.lock().unwrap_or_else(|e| e.into_inner()).take();
    drop(from_stream);
    drop(q);
    drop(handle);
}

/// C05 drop path: a producer thread appends concurrently with main dropping the join handle.
pub fn c05_drop(cfg: &Value) {
    let boxed = cfg["boxed"].as_bool().unwrap_or(false);
    let main_n = cfg["main_n"].as_u64().unwrap_or(1) as usize;
    let prod_n = cfg["prod_n"].as_u64().unwrap_or(2) as usize;
    let use_shut_down = cfg["shut_down"].as_bool().unwrap_or(false);
    let flush_first = cfg["flush_first"].as_bool().unwrap_or(false);
    let clone_drop = cfg["clone_drop"].as_bool().unwrap_or(false);
    if let Some(k) = cfg["jump_k"].as_u64() {
        vtime::jump_at_read(k, Duration::from_secs(cfg["jump_secs"].as_u64().unwrap_or(2)));
    }
    let (stream, log) = RecStream::new(BTreeMap::new());
    let (q, handle) = build(boxed, cfg["cap"].as_u64().unwrap_or(8) as usize, stream);
    let returned: Visible<Vec<Tag>> = Visible::new();
    let producer = {
        let (q, returned) = (q.clone(), returned.clone());
        thread::spawn(move || {
            for si in 0..prod_n {
                let t = Tag { p: 1, seq: si as u8 };
                q.append(t);
                returned.update(|r| r.push(t));
            }
        })
    };
    for si in 0..main_n {
        let t = Tag { p: 0, seq: si as u8 };
        q.append(t);
        returned.update(|r| r.push(t));
        if clone_drop && si == 0 {
            let c = q.clone();
            drop(c);
        }
    }
    if flush_first {
        drop(q.flush_async());
    }
    let unwinding = cfg["unwinding"].as_bool().unwrap_or(false);
    if unwinding {
        // All loom threads share one OS thread, so while main unwinds `std::thread::panicking()`
        // is true for every model thread and a std guard taken before the panic and released
        // during it would poison its mutex (loom unwraps that internally). Such models run
        // without preemptions and start the panic from a quiescent state: the writer parked.
        assert_eq!(cfg["pb"].as_u64(), Some(0), "HARNESS: unwinding models need preemption bound 0");
        vtime::advance_when_idle(Duration::ZERO, || false);
        for si in 0..cfg["late_n"].as_u64().unwrap_or(1) as usize {
            let t = Tag { p: 0, seq: 50 + si as u8 };
            q.append(t);
            returned.update(|r| r.push(t));
        }
    }
    let before = returned.read();
    if use_shut_down {
        handle.shut_down();
    } else if unwinding {
        // the handle's owner panics: the drop runs while the thread unwinds
        let r = mc::catching(move || {
            let _owned = handle;
            panic!("expected: the owner of the join handle panics");
        });
        assert!(r.is_err());
    } else {
        drop(handle);
    }
    let at_return = log.lock().unwrap_or_else(|e| e.into_inner()).clone();
    // ---- oracle at the return of drop(handle)
    let logged = tags_in(&at_return);
    for t in &before {
        if !logged.contains(t) {
            mc::violation("shutdown-lost-entry", format!("drop(handle) returned but entry {t}, appended before the drop began, never reached the stream: {}", log_string(&at_return)));
        }
    }
    let last_next = at_return.iter().rposition(|e| matches!(e, Ev::Next(..)));
    let last_flush = at_return.iter().rposition(|e| *e == Ev::Flush);
    match (last_next, last_flush) {
        (Some(n), Some(f)) if f > n => {}
        (None, Some(_)) => {}
        _ => mc::violation("shutdown-without-flush", format!("drop(handle) returned but the stream was not flushed after the last entry: {}", log_string(&at_return))),
    }
    if at_return.last() != Some(&Ev::Dropped) {
        mc::violation("shutdown-without-close", format!("drop(handle) returned but the stream has not been dropped (or something followed its drop): {}", log_string(&at_return)));
    }
    // appends after the shutdown are discarded silently
    q.append(Tag { p: 0, seq: 90 });
    producer.join().unwrap();
    drop(q);
    let end = log.lock().unwrap_or_else(|e| e.into_inner()).clone();
    mc::outcome(log_string(&end));
    if end != at_return {
        mc::violation("write-after-shutdown", format!("the stream was used after drop(handle) returned: at return {} / at end {}", log_string(&at_return), log_string(&end)));
    }
}

/// C05, a producer that does not stop: for every entry the stream writes, another one is appended
/// (from inside the stream's `next`, so the queue never runs empty) until a budget of `refills`
/// is used up, and every written entry takes 8 s of (fake) time, so every drain pass ends at the
/// flush deadline. The join handle's drop must return while the producer is still going: a
/// shutdown that completes only once the producer has stopped does not terminate against one
/// that never does. Horizon: `refills` entries (>= 5 drain passes after the drop began).
///
/// The harness cannot see the instant at which the drop stores the shutdown flag, and a
/// preemption between "the drop began" and that store lets the writer make any amount of
/// progress in between (a first version run at preemption bound 1 raised exactly that false
/// alarm). So these models run without preemptions, and the arrival point is enumerated instead:
/// main drops the handle while the stream is inside `next` of the `k`-th entry (the stream opens
/// a gate and yields there; main then runs up to the join).
pub fn c05_busy_producer(cfg: &Value) {
    assert_eq!(cfg["pb"].as_u64(), Some(0), "HARNESS: the busy-producer models need preemption bound 0");
    let k = cfg["k"].as_u64().unwrap_or(0) as usize;
    let gate = Gate::new(0);
    let prefill = cfg["prefill"].as_u64().unwrap_or(40) as usize;
    let refills = cfg["refills"].as_u64().unwrap_or(200) as usize;
    let horizon = cfg["horizon"].as_u64().unwrap_or(160) as usize;
    let (mut stream, log) = RecStream::new(BTreeMap::new());
    let slot: std::sync::Arc<std::sync::Mutex<Option<Q>>> = Default::default();
    let left = std::sync::Arc::new(std::sync::atomic::AtomicUsize::new(refills));
    {
        let (slot, left, gate) = (slot.clone(), left.clone(), gate.clone());
        let mut seen_n = 0usize;
        stream.on_next = Some(Box::new(move |_seen| {
            seen_n += 1;
            if seen_n == k {
                gate.grant(1);
                thread::yield_now();
            }
            vtime::advance(Duration::from_secs(8));
            let l = left.load(std::sync::atomic::Ordering::SeqCst);
            if l == 0 {
                return;
            }
            // (the handle is moved out of and back into the slot: no scheduler-visible step while
            // a std mutex is held)
            let q = slot.lock().unwrap_or_else(|e| e.into_inner()).take();
            if let Some(q) = q {
                left.store(l - 1, std::sync::atomic::Ordering::SeqCst);
                q.append(Tag { p: 7, seq: (l % 200) as u8 });
                *slot.lock().unwrap_or_else(|e| e.into_inner()) = Some(q);
            }
        }));
    }
    let (q, handle) = build(false, 128, stream);
    for si in 0..prefill {
        q.append(Tag { p: 0, seq: si as u8 });
    }
    let for_stream = q.clone();
    *slot.lock().unwrap_or_else(|e| e.into_inner()) = Some(for_stream);
    if k > 0 {
        gate.pass();
    }
    let at_begin = left.load(std::sync::atomic::Ordering::SeqCst);
    let written_at_begin = tags_in(&log.lock().unwrap_or_else(|e| e.into_inner())).len();
    drop(handle);
    let at_return = left.load(std::sync::atomic::Ordering::SeqCst);
    let end = log.lock().unwrap_or_else(|e| e.into_inner()).clone();
    let written_after = tags_in(&end).len() - written_at_begin;
    mc::outcome(format!("drop began with {written_at_begin} entries written, producer budget {at_begin}; at return {written_after} more written, budget {at_return}; closed={}", end.last() == Some(&Ev::Dropped)));
    if end.last() != Some(&Ev::Dropped) {
        mc::violation("shutdown-without-close", format!("drop(handle) returned but the stream has not been dropped; {} entries written", tags_in(&end).len()));
    }
    if at_begin >= horizon && at_return == 0 {
        mc::violation(
            "shutdown-waits-for-the-producer-to-stop",
            format!("drop(handle) returned only after the producer had used up its whole budget: {written_after} entries ({} s of writer time at 8 s each, {} drain passes) were written after the drop began, and the stream was closed only once the queue ran empty - against a producer that does not stop the drop never returns", written_after * 8, written_after / 32),
        );
    }
    let from_stream = slot.lock().unwrap_or_else(|e| e.into_inner()).take();
    drop(from_stream);
    drop(q);
}

/// C05 forget path: the join handle is forgotten; once the last queue handle is gone the writer
/// must drain, flush, close the stream and exit within a bounded number of flush intervals.
pub fn c05_forget(cfg: &Value) {
    let boxed = cfg["boxed"].as_bool().unwrap_or(false);
    let main_n = cfg["main_n"].as_u64().unwrap_or(1) as usize;
    let prod_n = cfg["prod_n"].as_u64().unwrap_or(1) as usize;
    let horizon = cfg["horizon"].as_u64().unwrap_or(3);
    let (stream, log) = RecStream::new(BTreeMap::new());
    let (q, handle) = build(boxed, 8, stream);
    handle.forget();
    let returned = Returned::default();
    let producer = {
        let (q, returned) = (q.clone(), returned.clone());
        thread::spawn(move || {
            for si in 0..prod_n {
                let t = Tag { p: 1, seq: si as u8 };
                q.append(t);
                returned.push(t);
            }
        })
    };
    for si in 0..main_n {
        let t = Tag { p: 0, seq: si as u8 };
        q.append(t);
        returned.push(t);
    }
    if let Some(how) = cfg["guard"].as_str() {
        // an `append_on_drop` guard on this handle: dropped (appends) or consumed without
        // appending; either way it must not keep the queue alive afterwards
        let t = Tag { p: 0, seq: 60 };
        q.guard_then(t, how);
        if how == "drop" {
            returned.push(t);
        }
    }
    if cfg["concurrent_drop"].as_bool().unwrap_or(false) {
        // the producer's clone and main's handle go away concurrently: whichever drop is last,
        // the writer must notice that no appender is left
        drop(q);
        producer.join().unwrap();
    } else {
        producer.join().unwrap();
        drop(q); // last handle
    }
    let closed = |log: &Log| log.lock().unwrap_or_else(|e| e.into_inner()).last() == Some(&Ev::Dropped);
    let mut rounds = 0;
    while !closed(&log) && rounds < horizon {
        // let one flush interval (1 s) pass while the writer sleeps
        let l = log.clone();
        vtime::advance_when_idle(Duration::from_millis(1100), move || l.lock().unwrap_or_else(|e| e.into_inner()).last() == Some(&Ev::Dropped));
        rounds += 1;
        // let the writer act on the expired timer: wait until it sleeps again (having seen the
        // new time) or has closed the stream
        let l = log.clone();
        vtime::advance_when_idle(Duration::ZERO, move || l.lock().unwrap_or_else(|e| e.into_inner()).last() == Some(&Ev::Dropped));
    }
    let end = log.lock().unwrap_or_else(|e| e.into_inner()).clone();
    mc::outcome(format!("rounds={rounds} {}", log_string(&end)));
    if closed(&log) {
        // the detached writer is about to exit: wait for it (loom tears its statics down when
        // this closure returns); a writer that keeps running after closing is a deadlock here
        thread::wait_all_spawned();
    }
    if !closed(&log) {
        mc::violation("forgotten-queue-never-shuts-down", format!("the join handle was forgotten and the last queue handle dropped, but after {horizon} flush intervals the writer has not closed the stream: {}", log_string(&end)));
    }
    let logged = tags_in(&end);
    for t in returned.get() {
        if !logged.contains(&t) {
            mc::violation("forget-lost-entry", format!("entry {t} never reached the stream before the forgotten queue closed: {}", log_string(&end)));
        }
    }
    let last_next = end.iter().rposition(|e| matches!(e, Ev::Next(..)));
    let last_flush = end.iter().rposition(|e| *e == Ev::Flush);
    if let (Some(n), Some(f)) = (last_next, last_flush) {
        if f < n {
            mc::violation("forget-without-flush", format!("closed without a flush after the last entry: {}", log_string(&end)));
        }
    }
}

/// C09: bounded queue, gated (possibly completely stalled) writer.
pub fn c09(cfg: &Value) {
    let cap = cfg["cap"].as_u64().unwrap_or(1) as usize;
    let producers = cfg["p"].as_u64().unwrap_or(1) as usize;
    let n = cfg["n"].as_u64().unwrap_or(2) as usize;
    let early = cfg["early_permits"].as_u64().unwrap_or(0) as usize;
    let (mut stream, log) = RecStream::new(BTreeMap::new());
    let gate = Gate::new(early);
    stream.gate = Some(gate.clone());
    let (rec, counts) = CountingRecorder::new();
    let (q, handle) = BackgroundQueueBuilder::new()
        .capacity(cap)
        .metrics_recorder_local::<dyn metrics_024::Recorder, _>(rec)
        .build::<TaggedEntry>(stream);
    let threads: Vec<_> = (0..producers)
        .map(|pi| {
            let q = q.clone();
            thread::spawn(move || {
                for si in 0..n {
                    q.append(TaggedEntry(Tag { p: pi as u8, seq: si as u8 }));
                }
            })
        })
        .collect();
    // "free" variant: the writer is never stalled, so overflows race with its drain/flush/report
    if cfg["free"].as_bool().unwrap_or(false) {
        gate.grant(producers * n + 2);
    }
    // non-blocking: every append returns although the writer has at most `early` permits - a
    // blocking append would be reported by loom as a deadlock right here
    for t in threads {
        t.join().unwrap();
    }
    gate.grant(producers * n + 2);
    drop(q);
    drop(handle);
    let end = log.lock().unwrap_or_else(|e| e.into_inner()).clone();
    let logged = tags_in(&end);
    mc::outcome(log_string(&end));
    let total = producers * n;
    // order + exactly-once among the survivors
    let mut last: BTreeMap<u8, i32> = BTreeMap::new();
    for t in &logged {
        let l = last.entry(t.p).or_insert(-1);
        if (t.seq as i32) <= *l {
            mc::violation("overflow-order", format!("entries of producer {} reached the stream out of order or twice: {}", t.p, log_string(&end)));
        }
        *l = t.seq as i32;
    }
    // oldest-first: an entry may only be lost if at least `cap` newer entries were appended
    for pi in 0..producers {
        for si in 0..n {
            let t = Tag { p: pi as u8, seq: si as u8 };
            if !logged.contains(&t) {
                // entries certainly older than t: its own producer's earlier ones
                let possibly_newer = total - 1 - si;
                if possibly_newer < cap {
                    mc::violation("lost-without-enough-newer-entries", format!("entry {t} was lost although fewer than capacity={cap} newer entries can exist: {}", log_string(&end)));
                }
            }
        }
    }
    if producers == 1 {
        // single producer: with an untouched queue of capacity c the last c entries always survive
        for si in n.saturating_sub(cap)..n {
            let t = Tag { p: 0, seq: si as u8 };
            if !logged.contains(&t) {
                mc::violation("newest-entry-lost", format!("entry {t} is among the newest capacity={cap} entries but was lost: {}", log_string(&end)));
            }
        }
    }
    let overflows = counts.lock().unwrap_or_else(|e| e.into_inner()).get("metrique_queue_overflows").copied().unwrap_or(0);
    if overflows as usize != total - logged.len() {
        mc::violation("overflow-counter", format!("metrique_queue_overflows = {overflows} but {} of {total} entries were discarded: {}", total - logged.len(), log_string(&end)));
    }
}

/// C09 / "the writer notices that no appender is left": the last queue handle appends one more
/// entry and goes away while the writer is inside its periodic stream flush (from the stream's
/// flush callback, so the window is hit deterministically); the join handle stays alive. That
/// entry was displaced by nothing: it must reach the stream, and the overflow counter stays 0.
pub fn c09_last_handle_in_flush(cfg: &Value) {
    let horizon = cfg["horizon"].as_u64().unwrap_or(3);
    let (mut stream, log) = RecStream::new(BTreeMap::new());
    let slot: std::sync::Arc<std::sync::Mutex<Option<Q>>> = Default::default();
    {
        let slot = slot.clone();
        stream.on_flush = Some(Box::new(move |_idx| {
            // (the handle is moved out of the slot: no scheduler-visible step under the std mutex)
            let q = slot.lock().unwrap_or_else(|e| e.into_inner()).take();
            if let Some(q) = q {
                q.append(Tag { p: 1, seq: 0 });
                drop(q);
            }
        }));
    }
    let (rec, counts) = CountingRecorder::new();
    let (q, handle) = BackgroundQueueBuilder::new()
        .capacity(8)
        .metrics_recorder_local::<dyn metrics_024::Recorder, _>(rec)
        .build::<TaggedEntry>(stream);
    let q = Q::Typed(q);
    q.append(Tag { p: 0, seq: 0 });
    *slot.lock().unwrap_or_else(|e| e.into_inner()) = Some(q);
    let closed = |log: &Log| log.lock().unwrap_or_else(|e| e.into_inner()).last() == Some(&Ev::Dropped);
    let mut rounds = 0;
    while !closed(&log) && rounds < horizon {
        let l = log.clone();
        vtime::advance_when_idle(Duration::from_millis(1100), move || l.lock().unwrap_or_else(|e| e.into_inner()).last() == Some(&Ev::Dropped));
        rounds += 1;
        let l = log.clone();
        vtime::advance_when_idle(Duration::ZERO, move || l.lock().unwrap_or_else(|e| e.into_inner()).last() == Some(&Ev::Dropped));
    }
    drop(handle);
    let end = log.lock().unwrap_or_else(|e| e.into_inner()).clone();
    mc::outcome(format!("rounds={rounds} {}", log_string(&end)));
    let logged = tags_in(&end);
    for t in [Tag { p: 0, seq: 0 }, Tag { p: 1, seq: 0 }] {
        if !logged.contains(&t) {
            mc::violation("lost-without-enough-newer-entries", format!("entry {t} never reached the stream although the queue (capacity 8) held at most 2 entries; the last queue handle went away while the writer flushed the stream: {}", log_string(&end)));
        }
    }
    let overflows = counts.lock().unwrap_or_else(|e| e.into_inner()).get("metrique_queue_overflows").copied().unwrap_or(0);
    if overflows != 0 {
        mc::violation("overflow-counter", format!("metrique_queue_overflows = {overflows} but nothing was displaced: {}", log_string(&end)));
    }
}

/// C01, several queues in one process: the queues' writer threads share process-global state
/// (the rate limiters behind the error reports). Each queue gets entries for which its stream
/// returns the scripted result; every entry of every queue must still reach its stream exactly
/// once, in order, and both writers must terminate.
pub fn c01_multi(cfg: &Value) {
    let queues = cfg["queues"].as_u64().unwrap_or(2) as usize;
    let n = cfg["n"].as_u64().unwrap_or(2) as usize;
    let script_s = cfg["script"].as_str().unwrap_or("io").to_string();
    let mut all = Vec::new();
    for qi in 0..queues {
        let script = parse_script(&script_s, 1, n);
        // tags are per queue: producer id = queue index
        let script: BTreeMap<Tag, Res> = script.into_iter().map(|(t, r)| (Tag { p: qi as u8, seq: t.seq }, r)).collect();
        let (stream, log) = RecStream::new(script);
        let (q, handle) = build(false, 8, stream);
        all.push((q, handle, log));
    }
    for (qi, (q, _, _)) in all.iter().enumerate() {
        for si in 0..n {
            q.append(Tag { p: qi as u8, seq: si as u8 });
        }
    }
    let mut logs = Vec::new();
    for (q, handle, log) in all {
        drop(q);
        drop(handle);
        logs.push(log);
    }
    let mut outcome = String::new();
    for (qi, log) in logs.iter().enumerate() {
        let log = log.lock().unwrap_or_else(|e| e.into_inner()).clone();
        outcome.push_str(&format!("q{qi}: {} | ", log_string(&log)));
        let tags = tags_in(&log);
        let want: Vec<Tag> = (0..n).map(|si| Tag { p: qi as u8, seq: si as u8 }).collect();
        if tags != want {
            mc::violation("multi-queue-entry-lost-duplicated-or-reordered", format!("queue {qi}: the stream saw {tags:?}, appended {want:?}: {}", log_string(&log)));
        }
    }
    mc::outcome(outcome);
}
