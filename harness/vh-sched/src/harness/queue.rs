//! Background queue harnesses (C01 ...): real `BackgroundQueueBuilder::build` / `build_boxed`,
//! real `Receiver::run` on a loom thread, facade primitives.

use crate::mc;
use crate::rec::*;
use metrique_writer::sink::{BackgroundQueueBuilder, BackgroundQueueJoinHandle};
use metrique_writer::{BoxEntrySink, EntrySink};
use metrique_writer_core::__verif::{thread, time as vtime};
use serde_json::Value;
use std::collections::BTreeMap;
use std::time::Duration;

pub enum Q {
    Typed(metrique_writer::sink::BackgroundQueue<TaggedEntry>),
    Boxed(BoxEntrySink),
}

impl Clone for Q {
    fn clone(&self) -> Self {
        match self {
            Q::Typed(q) => Q::Typed(q.clone()),
            Q::Boxed(q) => Q::Boxed(q.clone()),
        }
    }
}

impl Q {
    pub fn append(&self, t: Tag) {
        match self {
            Q::Typed(q) => q.append(TaggedEntry(t)),
            Q::Boxed(q) => q.append(TaggedEntry(t)),
        }
    }
    pub fn flush_async(&self) -> metrique_writer_core::sink::FlushWait {
        match self {
            Q::Typed(q) => q.flush_async(),
            Q::Boxed(q) => EntrySink::<TaggedEntry>::flush_async(q),
        }
    }
}

pub fn build(boxed: bool, capacity: usize, stream: RecStream) -> (Q, BackgroundQueueJoinHandle) {
    let b = BackgroundQueueBuilder::new().capacity(capacity);
    if boxed {
        let (q, h) = b.build_boxed(stream);
        (Q::Boxed(q), h)
    } else {
        let (q, h) = b.build::<TaggedEntry>(stream);
        (Q::Typed(q), h)
    }
}

pub fn parse_script(s: &str, p: usize, n: usize) -> BTreeMap<Tag, Res> {
    let mut m = BTreeMap::new();
    let chars: Vec<char> = s.chars().collect();
    for pi in 0..p {
        for si in 0..n {
            let c = chars.get(pi * n + si).copied().unwrap_or('o');
            let r = match c {
                'v' => Res::Validation,
                'i' => Res::Io,
                _ => Res::Ok,
            };
            if r != Res::Ok {
                m.insert(Tag { p: pi as u8, seq: si as u8 }, r);
            }
        }
    }
    m
}

/// C01: P producers x n entries, optional flush request in between, scripted stream results,
/// optional clock jump at the k-th clock read; then shut down and inspect the stream log.
pub fn c01(cfg: &Value) {
    let p = cfg["p"].as_u64().unwrap() as usize;
    let n = cfg["n"].as_u64().unwrap() as usize;
    let boxed = cfg["boxed"].as_bool().unwrap_or(false);
    let flush = cfg["flush"].as_bool().unwrap_or(false);
    let script = parse_script(cfg["script"].as_str().unwrap_or(""), p, n);
    let jump = cfg["jump_k"].as_u64();
    let (stream, log) = RecStream::new(script.clone());
    if let Some(k) = jump {
        vtime::jump_at_read(k, Duration::from_secs(2));
    }
    let (q, handle) = build(boxed, 8, stream);
    let producers: Vec<_> = (0..p)
        .map(|pi| {
            let q = q.clone();
            thread::spawn(move || {
                for si in 0..n {
                    q.append(Tag { p: pi as u8, seq: si as u8 });
                    if flush && si == 0 && pi == 0 {
                        drop(q.flush_async());
                    }
                }
            })
        })
        .collect();
    for h in producers {
        h.join().unwrap();
    }
    drop(q);
    drop(handle);
    let log = log.lock().unwrap().clone();
    mc::outcome(log_string(&log));
    // ---- oracle
    let mut seen: BTreeMap<Tag, usize> = BTreeMap::new();
    let mut last_seq: BTreeMap<u8, i32> = BTreeMap::new();
    let mut validation_results = 0;
    let mut reports = 0;
    for ev in &log {
        match ev {
            Ev::Next(Seen::Tagged(t), r) => {
                *seen.entry(*t).or_default() += 1;
                let last = last_seq.entry(t.p).or_insert(-1);
                if (t.seq as i32) == *last {
                    mc::violation("entry-duplicated", format!("entry {t} reached the stream twice: {}", log_string(&log)));
                }
                if (t.seq as i32) < *last {
                    mc::violation("per-producer-order", format!("entry {t} reached the stream after a later entry of the same producer: {}", log_string(&log)));
                }
                *last = t.seq as i32;
                if *r == Res::Validation {
                    validation_results += 1;
                }
            }
            Ev::Next(Seen::Report, _) => {
                reports += 1;
                if validation_results == 0 {
                    mc::violation("report-without-validation-error", format!("in-band error report without a preceding validation error: {}", log_string(&log)));
                }
            }
            Ev::Next(Seen::Other(o), _) => {
                mc::violation("foreign-entry", format!("something else reached the stream: {o}: {}", log_string(&log)));
            }
            _ => {}
        }
    }
    let allowed_reports = if jump.is_some() { 2 } else { 1 };
    if reports > allowed_reports.min(validation_results.max(0)) {
        mc::violation("report-not-rate-limited", format!("{reports} in-band reports for {validation_results} validation errors within {allowed_reports} fake second(s): {}", log_string(&log)));
    }
    for pi in 0..p {
        for si in 0..n {
            let t = Tag { p: pi as u8, seq: si as u8 };
            match seen.get(&t).copied().unwrap_or(0) {
                1 => {}
                0 => mc::violation("entry-lost", format!("entry {t} never reached the stream: {}", log_string(&log))),
                k => mc::violation("entry-duplicated", format!("entry {t} reached the stream {k} times: {}", log_string(&log))),
            }
        }
    }
}
