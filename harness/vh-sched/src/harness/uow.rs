//! Unit-of-work harnesses (C06 close/append exactly once at the right moment, C13 slots):
//! the real `AppendAndCloseOnDrop`, `keep_alive`, `Slot`/`SlotGuard`, with reference counts, the
//! guard mutex and the slot's oneshot switched to loom-visible facade primitives.

use crate::mc;
use metrique::unit_of_work::metrics;
use metrique::{LazySlot, OnParentDrop, RootMetric, Slot};
use metrique_writer_core::__verif::shadow::Shadow;
use metrique_writer_core::__verif::sync::Arc as LArc;
use metrique_writer_core::__verif::thread;
use metrique_writer_core::sink::FlushWait;
use metrique_writer_core::{
    Entry, EntryConfig, EntrySink, EntryWriter, MetricFlags, Observation, Unit, ValidationError,
    Value, ValueWriter,
};
use serde_json::Value as J;
use std::borrow::Cow;
use std::collections::BTreeMap;
use std::sync::{Arc, Mutex};
use std::time::SystemTime;

#[metrics]
#[derive(Default)]
pub struct Child {
    n: usize,
}

#[metrics]
#[derive(Default)]
pub struct Work {
    a: usize,
    #[metrics(flatten)]
    child: Slot<Child>,
    #[metrics(flatten)]
    lazy: LazySlot<Child2>,
}

#[metrics]
#[derive(Default)]
pub struct Child2 {
    m: usize,
}

// ---- reading an appended entry: name -> number
struct Collect(BTreeMap<String, u64>);
struct CollectValue<'c> {
    name: String,
    out: &'c mut BTreeMap<String, u64>,
}
impl ValueWriter for CollectValue<'_> {
    fn string(self, _value: &str) {}
    fn metric<'a>(
        self,
        distribution: impl IntoIterator<Item = Observation>,
        _unit: Unit,
        _dimensions: impl IntoIterator<Item = (&'a str, &'a str)>,
        _flags: MetricFlags<'_>,
    ) {
        for o in distribution {
            if let Observation::Unsigned(v) = o {
                self.out.insert(self.name.clone(), v);
            }
        }
    }
    fn error(self, _error: ValidationError) {}
}
impl<'a> EntryWriter<'a> for Collect {
    fn timestamp(&mut self, _t: SystemTime) {}
    fn value(&mut self, name: impl Into<Cow<'a, str>>, value: &(impl Value + ?Sized)) {
        let name: Cow<'a, str> = name.into();
        value.write(CollectValue {
            name: name.into_owned(),
            out: &mut self.0,
        });
    }
    fn config(&mut self, _config: &'a dyn EntryConfig) {}
}

/// Flags set by harness threads immediately before / after a drop (plain std state).
pub struct Flags {
    /// setting and reading the flags are scheduler-visible steps on one marker, so that "the drop
    /// had (not) started when the entry was appended" is decided at the real instant
    shadow: LArc<Shadow>,
    started: Mutex<BTreeMap<String, bool>>,
    finished: Mutex<BTreeMap<String, bool>>,
}
impl Default for Flags {
    fn default() -> Self {
        Flags { shadow: LArc::new(Shadow::new()), started: Default::default(), finished: Default::default() }
    }
}
impl Flags {
    fn start(&self, what: &str) {
        self.shadow.touch();
        self.started.lock().unwrap().insert(what.to_string(), true);
    }
    fn finish(&self, what: &str) {
        self.shadow.touch();
        self.finished.lock().unwrap().insert(what.to_string(), true);
    }
    fn started(&self) -> BTreeMap<String, bool> {
        self.started.lock().unwrap().clone()
    }
    fn finished(&self) -> BTreeMap<String, bool> {
        self.finished.lock().unwrap().clone()
    }
}

#[derive(Clone, Debug)]
pub struct Appended {
    pub fields: BTreeMap<String, u64>,
    pub started: BTreeMap<String, bool>,
    pub finished: BTreeMap<String, bool>,
}

/// The sink: records every appended entry together with the drop flags at that instant.
#[derive(Clone)]
pub struct RecSink {
    shadow: LArc<Shadow>,
    pub appended: Arc<Mutex<Vec<Appended>>>,
    flags: Arc<Flags>,
}

impl RecSink {
    fn new(flags: Arc<Flags>) -> RecSink {
        RecSink {
            shadow: LArc::new(Shadow::new()),
            appended: Arc::new(Mutex::new(Vec::new())),
            flags,
        }
    }
}

impl EntrySink<RootMetric<Work>> for RecSink {
    fn append(&self, entry: RootMetric<Work>) {
        self.shadow.touch();
        self.flags.shadow.touch();
        let mut c = Collect(BTreeMap::new());
        entry.write(&mut c);
        self.appended.lock().unwrap().push(Appended {
            fields: c.0,
            started: self.flags.started(),
            finished: self.flags.finished(),
        });
    }
    fn flush_async(&self) -> FlushWait {
        FlushWait::ready()
    }
}

/// The roles of the scenario's objects, for the "due" rule of C06.
#[derive(Clone)]
struct Roles {
    owners: Vec<String>,
    guards: Vec<String>,
    forces: Vec<String>,
}
impl Roles {
    fn of(all: &[String]) -> Roles {
        Roles {
            owners: all.iter().filter(|n| n.as_str() == "owner" || n.starts_with('h')).cloned().collect(),
            guards: all.iter().filter(|n| n.starts_with('g')).cloned().collect(),
            forces: all.iter().filter(|n| n.starts_with('f')).cloned().collect(),
        }
    }
    /// owner and every handle gone, and (all flush guards gone or some force-flush guard gone)
    fn due(&self, gone: &BTreeMap<String, bool>) -> bool {
        let g = |n: &String| gone.get(n).copied().unwrap_or(false);
        self.owners.iter().all(g) && (self.guards.iter().all(g) || self.forces.iter().any(g))
    }
}

/// "At the moment": called by a dropper right after one of its drops returned. If the drops
/// that have *returned* so far already make the entry due and no other drop is in flight (a drop
/// in progress may hold a temporary reference - `Weak::upgrade` in the force guard - and then
/// carries out the append itself before it returns), it must have been appended: each reference
/// to the value is released inside one of those drop calls, the last of them appends.
fn check_timely(flags: &Flags, sink: &RecSink, roles: &Roles) {
    let finished = flags.finished();
    let in_flight = flags.started().len() != finished.len();
    if !in_flight && roles.due(&finished) {
        sink.shadow.touch();
        if sink.appended.lock().unwrap().is_empty() {
            mc::violation(
                "not-appended-when-due",
                format!("the drops of {:?} have returned, which makes the entry due, but it has not been appended", finished.keys().collect::<Vec<_>>()),
            );
        }
    }
}

/// One droppable object of the scenario.
enum Obj {
    Owner(metrique::AppendAndCloseOnDrop<Work, RecSink>),
    Handle(metrique::AppendAndCloseOnDropHandle<Work, RecSink>),
    Guard(metrique::FlushGuard),
    Force(metrique::ForceFlushGuard),
    Slot(metrique::SlotGuard<Child>),
    LazySlot(metrique::SlotGuard<Child2>),
}

// the pinned marker in ForceFlushGuard only matters for futures; moving it into a thread is fine
unsafe impl Send for Obj {}

/// C06. cfg.threads = [[obj, ...], ...]: which objects each thread drops, in order. Object
/// names: "owner" | "h1" | "h2" (handles; the owner is converted) | "g1" | "g2" | "f1" | "f2".
/// cfg.pre = objects main drops before spawning; cfg.late_guard: create "g2" only after the pre
/// drops (a guard created after a force guard was dropped); cfg.hold = objects main keeps alive
/// until every thread has been joined (then drops them in order).
pub fn c06(cfg: &J) {
    let threads: Vec<Vec<String>> = cfg["threads"]
        .as_array()
        .unwrap()
        .iter()
        .map(|t| t.as_array().unwrap().iter().map(|s| s.as_str().unwrap().to_string()).collect())
        .collect();
    let pre: Vec<String> = cfg["pre"].as_array().map(|a| a.iter().map(|s| s.as_str().unwrap().to_string()).collect()).unwrap_or_default();
    let late_guard = cfg["late_guard"].as_bool().unwrap_or(false);
    let hold: Vec<String> = cfg["hold"].as_array().map(|a| a.iter().map(|s| s.as_str().unwrap().to_string()).collect()).unwrap_or_default();
    let all: Vec<String> = threads.iter().flatten().chain(pre.iter()).chain(hold.iter()).cloned().collect();
    let roles = Roles::of(&all);
    let flags = Arc::new(Flags::default());
    let sink = RecSink::new(flags.clone());
    let mut owner = Work::default().append_on_drop(sink.clone());
    let mut objs: BTreeMap<String, Obj> = BTreeMap::new();
    for name in &all {
        match name.as_str() {
            "g1" => {
                objs.insert(name.clone(), Obj::Guard(owner.flush_guard()));
            }
            "g2" if !late_guard => {
                objs.insert(name.clone(), Obj::Guard(owner.flush_guard()));
            }
            "f1" | "f2" => {
                objs.insert(name.clone(), Obj::Force(owner.force_flush_guard()));
            }
            _ => {}
        }
    }
    // mutation through the owner before it is handed to its thread
    owner.a = 7;
    // main drops the `pre` objects first (single-threaded prefix)
    let mut owner = Some(owner);
    let drop_obj = |name: &str, o: Obj, flags: &Flags| {
        flags.start(name);
        drop(o);
        flags.finish(name);
        check_timely(flags, &sink, &roles);
    };
    for name in &pre {
        if name == "owner" {
            let o = owner.take().unwrap();
            drop_obj(name, Obj::Owner(o), &flags);
        } else if let Some(o) = objs.remove(name) {
            drop_obj(name, o, &flags);
        }
    }
    if late_guard {
        if let Some(o) = owner.as_ref() {
            objs.insert("g2".to_string(), Obj::Guard(o.flush_guard()));
        }
    }
    if let Some(o) = owner.take() {
        if all.iter().any(|n| n == "h1") {
            let h1 = o.handle();
            if all.iter().any(|n| n == "h2") {
                objs.insert("h2".into(), Obj::Handle(h1.clone()));
            }
            objs.insert("h1".into(), Obj::Handle(h1));
        } else {
            objs.insert("owner".into(), Obj::Owner(o));
        }
    }
    let handles: Vec<_> = threads
        .iter()
        .map(|names| {
            let mine: Vec<(String, Obj)> = names.iter().map(|n| (n.clone(), objs.remove(n).unwrap_or_else(|| panic!("HARNESS: object {n} missing")))).collect();
            let flags = flags.clone();
            let (sink, roles) = (sink.clone(), roles.clone());
            thread::spawn(move || {
                for (name, o) in mine {
                    flags.start(&name);
                    drop(o);
                    flags.finish(&name);
                    check_timely(&flags, &sink, &roles);
                }
            })
        })
        .collect();
    // cfg.format = name of a HELD flush guard that another thread Debug-formats (`{:?}`) while the
    // drops run (the guard stays with main, which joins the formatter before dropping it)
    let formatter = cfg["format"].as_str().map(|name| {
        let addr = match objs.get(name) {
            Some(Obj::Guard(g)) => g as *const metrique::FlushGuard as usize,
            _ => panic!("HARNESS: format needs a held flush guard, {name} is none"),
        };
        let marker = flags.shadow.clone();
        thread::spawn(move || {
            // SAFETY: the guard lives in `objs` on main's stack until after this thread is joined
            let g: &metrique::FlushGuard = unsafe { &*(addr as *const metrique::FlushGuard) };
            // every piece the formatter writes is a scheduler-visible step (a writer that may be
            // slow: a pipe, a logger): whatever the Debug impl holds while it writes, it holds
            // across a scheduling point
            struct VisibleWriter(LArc<Shadow>, usize);
            impl std::fmt::Write for VisibleWriter {
                fn write_str(&mut self, s: &str) -> std::fmt::Result {
                    self.0.touch();
                    self.1 += s.len();
                    Ok(())
                }
            }
            // (the marker is the one every drop touches when it starts: the writes are dependent
            // steps with the drops, so the drops are also scheduled in between them)
            let mut w = VisibleWriter(marker, 0);
            std::fmt::Write::write_fmt(&mut w, format_args!("{g:?}")).unwrap();
            assert!(w.1 > 0);
        })
    });
    for h in handles {
        h.join().unwrap();
    }
    if let Some(f) = formatter {
        f.join().unwrap();
    }
    check_timely(&flags, &sink, &roles);
    for name in &hold {
        let o = objs.remove(name).unwrap_or_else(|| panic!("HARNESS: held object {name} missing"));
        drop_obj(name, o, &flags);
    }
    drop(objs);
    // ---- oracle
    let appended = sink.appended.lock().unwrap().clone();
    let (owners, guards, forces) = (&roles.owners, &roles.guards, &roles.forces);
    mc::outcome(format!(
        "{} append(s); at append started={:?}",
        appended.len(),
        appended.first().map(|a| a.started.keys().cloned().collect::<Vec<_>>())
    ));
    match appended.len() {
        1 => {}
        0 => mc::violation("never-appended", format!("every owner/guard was dropped but the entry was never appended (objects {all:?})")),
        k => mc::violation("appended-twice", format!("the entry was appended {k} times (objects {all:?})")),
    }
    let a = &appended[0];
    let st = |n: &String| a.started.get(n).copied().unwrap_or(false);
    let owners_gone = owners.iter().all(|n| st(n));
    let guards_gone = guards.iter().all(|n| st(n));
    let force_gone = forces.iter().any(|n| st(n));
    if !(owners_gone && (guards_gone || force_gone)) {
        mc::violation(
            "appended-too-early",
            format!("the entry was appended while drops had only started for {:?} (objects {all:?}): owner/handles gone={owners_gone}, all guards gone={guards_gone}, a force guard gone={force_gone}", a.started.keys().collect::<Vec<_>>()),
        );
    }
    if a.fields.get("a") != Some(&7) {
        mc::violation("mutation-lost", format!("the appended entry does not reflect the owner's last mutation: {:?}", a.fields));
    }
}

/// C13. cfg: mode "wait" | "discard"; lazy: use the LazySlot; force: a force-flush guard is
/// dropped by a third thread; order "concurrent" | "guard-first" | "parent-first".
pub fn c13(cfg: &J) {
    let wait = cfg["mode"].as_str().unwrap_or("wait") == "wait";
    let lazy = cfg["lazy"].as_bool().unwrap_or(false);
    let force = cfg["force"].as_bool().unwrap_or(false);
    let both = cfg["both_slots"].as_bool().unwrap_or(false);
    let order = cfg["order"].as_str().unwrap_or("concurrent").to_string();
    let flags = Arc::new(Flags::default());
    let sink = RecSink::new(flags.clone());
    let mut owner = Work::default().append_on_drop(sink.clone());
    let mode = |o: &metrique::AppendAndCloseOnDrop<Work, RecSink>| if wait { OnParentDrop::Wait(o.flush_guard()) } else { OnParentDrop::Discard };
    let mut guards: Vec<(String, Obj)> = Vec::new();
    if lazy || both {
        let m = mode(&owner);
        let mut g = owner.lazy.open(Child2::default(), m).expect("first open");
        g.m = 1;
        // a slot can be opened at most once
        if owner.lazy.open(Child2::default(), OnParentDrop::Discard).is_some() {
            mc::violation("slot-opened-twice", "LazySlot::open returned a second guard".into());
        }
        guards.push(("lazy".into(), Obj::LazySlot(g)));
    }
    if !lazy || both {
        let m = mode(&owner);
        let mut g = owner.child.open(m).expect("first open");
        g.n = 1;
        if owner.child.open(OnParentDrop::Discard).is_some() {
            mc::violation("slot-opened-twice", "Slot::open returned a second guard".into());
        }
        guards.push(("slot".into(), Obj::Slot(g)));
    }
    let force_guard = if force { Some(owner.force_flush_guard()) } else { None };
    owner.a = 7;
    let guard_thread = |guards: Vec<(String, Obj)>, flags: Arc<Flags>| {
        move || {
            for (name, mut g) in guards {
                // last mutation through the guard, then drop it
                match &mut g {
                    Obj::Slot(s) => s.n = 5,
                    Obj::LazySlot(s) => s.m = 6,
                    _ => {}
                }
                flags.start(&name);
                drop(g);
                flags.finish(&name);
            }
        }
    };
    let parent_drop = |owner: metrique::AppendAndCloseOnDrop<Work, RecSink>, flags: &Flags| {
        flags.start("parent");
        drop(owner);
        flags.finish("parent");
    };
    let mut joins = Vec::new();
    if let Some(f) = force_guard {
        let flags = flags.clone();
        let f = Obj::Force(f);
        joins.push(thread::spawn(move || {
            flags.start("force");
            drop(f);
            flags.finish("force");
        }));
    }
    match order.as_str() {
        "concurrent" => {
            joins.push(thread::spawn(guard_thread(guards, flags.clone())));
            parent_drop(owner, &flags);
        }
        "guard-first" => {
            guard_thread(guards, flags.clone())();
            parent_drop(owner, &flags);
        }
        "parent-first" => {
            parent_drop(owner, &flags);
            guard_thread(guards, flags.clone())();
        }
        other => panic!("HARNESS: unknown order {other}"),
    }
    for j in joins {
        j.join().unwrap();
    }
    // ---- oracle
    let appended = sink.appended.lock().unwrap().clone();
    mc::outcome(format!("{:?}", appended.iter().map(|a| (a.fields.clone(), a.started.keys().cloned().collect::<Vec<_>>())).collect::<Vec<_>>()));
    if appended.len() != 1 {
        mc::violation(if appended.is_empty() { "never-appended" } else { "appended-twice" }, format!("{} appends in slot scenario {cfg}", appended.len()));
    }
    let a = &appended[0];
    if a.fields.get("a") != Some(&7) {
        mc::violation("rest-of-entry-affected", format!("the parent's own field is wrong: {:?}", a.fields));
    }
    let check = |slot: &str, field: &str, last: u64| {
        let present = a.fields.get(field).copied();
        if let Some(v) = present {
            if v != last {
                mc::violation("slot-value-stale", format!("{slot}: the emitted slot value is {v}, last mutated to {last}: {:?}", a.fields));
            }
        }
        let guard_started = a.started.get(slot).copied().unwrap_or(false);
        let guard_finished_before_parent = a.finished.get(slot).copied().unwrap_or(false);
        let force_started = a.started.get("force").copied().unwrap_or(false);
        if wait {
            if !force_started {
                if present.is_none() {
                    mc::violation("wait-mode-value-lost", format!("{slot}: opened in wait mode, no force-flush guard released the entry, but the value is missing: {:?} (drops started at append: {:?})", a.fields, a.started.keys().collect::<Vec<_>>()));
                }
                if !guard_started {
                    mc::violation("wait-mode-appended-before-guard-drop", format!("{slot}: the entry was appended before the slot guard's drop began: started={:?}", a.started.keys().collect::<Vec<_>>()));
                }
            }
        } else {
            // discard mode: present exactly when the guard was dropped before the entry was closed
            if guard_finished_before_parent && !a.started.get("parent").copied().unwrap_or(false) {
                // cannot happen: the append needs the parent drop to have started
            }
            let parent_finished_before_guard = !guard_started;
            if parent_finished_before_guard && present.is_some() {
                mc::violation("discard-mode-value-from-the-future", format!("{slot}: value present although the guard's drop had not begun when the entry was appended"));
            }
        }
        // sequential orders decide presence exactly
        if order == "guard-first" && present.is_none() {
            mc::violation("value-lost-guard-dropped-first", format!("{slot}: the guard was dropped before the parent but the value is missing: {:?}", a.fields));
        }
        // (with a force-flush guard being dropped concurrently the close itself may be carried
        // out by that thread after the parent's drop returned, so the exact rule needs !force)
        if order == "parent-first" && !wait && !force && present.is_some() {
            mc::violation("discard-mode-partial", format!("{slot}: discard mode, parent dropped first, yet a value is present: {:?}", a.fields));
        }
        if order == "parent-first" && wait && !force && present.is_none() {
            mc::violation("wait-mode-value-lost", format!("{slot}: wait mode, parent dropped first, value missing: {:?}", a.fields));
        }
    };
    if !lazy || both {
        check("slot", "n", 5);
    }
    if lazy || both {
        check("lazy", "m", 6);
    }
}
