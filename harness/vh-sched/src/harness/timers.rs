//! C18 under loom: owned guards of one stopwatch ended on other threads while the owner clears
//! or closes it. The stopwatch's shared total (`Arc<Mutex<Option<Duration>>>`) is switched to
//! loom-visible primitives; the manually advanced time source stays std (one step).
//!
//! Oracle: the closed value is the result of some interleaving of the operations' documented
//! steps (stop / drop: add the span; discard: nothing; overwrite: clear, then add the span;
//! clear: clear) - a span that is lost, counted twice or resurrected after a clear is none.
use crate::mc;
use metrique::timers::{OwnedTimerGuard, Stopwatch};
use metrique_core::CloseValue;
use metrique_timesource::{TimeSource, fakes::ManuallyAdvancedTimeSource};
use metrique_writer_core::__verif::thread;
use serde_json::Value;
use std::collections::BTreeSet;
use std::time::{Duration, UNIX_EPOCH};

#[derive(Clone, Copy, Debug)]
enum Step {
    Add(u64),
    Clear,
}

fn steps_of(end: &str, span: u64) -> Vec<Step> {
    match end {
        "stop" | "drop" => vec![Step::Add(span)],
        "discard" => vec![],
        "overwrite" => vec![Step::Clear, Step::Add(span)],
        "clear" => vec![Step::Clear],
        "none" => vec![],
        other => panic!("HARNESS: unknown end {other}"),
    }
}

/// every merge of the per-thread step sequences, folded over the total
fn admissible(start: Option<u64>, seqs: &[Vec<Step>]) -> BTreeSet<Option<u64>> {
    fn go(total: Option<u64>, seqs: &[Vec<Step>], pos: &mut Vec<usize>, out: &mut BTreeSet<Option<u64>>) {
        let mut done = true;
        for i in 0..seqs.len() {
            if pos[i] < seqs[i].len() {
                done = false;
                let next = match seqs[i][pos[i]] {
                    Step::Add(s) => Some(total.unwrap_or(0) + s),
                    Step::Clear => None,
                };
                pos[i] += 1;
                go(next, seqs, pos, out);
                pos[i] -= 1;
            }
        }
        if done {
            out.insert(total);
        }
    }
    let mut out = BTreeSet::new();
    go(start, seqs, &mut vec![0; seqs.len()], &mut out);
    out
}

fn end_guard(g: OwnedTimerGuard, end: &str, span: u64) {
    match end {
        "stop" => {
            let d = g.stop();
            if d != Duration::from_secs(span) {
                mc::violation("owned-guard-stop-returns-wrong-span", format!("stop() returned {d:?}, the guard's span is {span} s"));
            }
        }
        "drop" => drop(g),
        "discard" => g.discard(),
        "overwrite" => g.overwrite(),
        other => panic!("HARNESS: unknown end {other}"),
    }
}

pub fn c18_owned(cfg: &Value) {
    let ends: Vec<String> = cfg["ends"].as_array().expect("ends").iter().map(|e| e.as_str().unwrap().to_string()).collect();
    let main_op = cfg["main"].as_str().unwrap_or("none").to_string();
    let prior = cfg["prior"].as_bool().unwrap_or(false);
    let clock = ManuallyAdvancedTimeSource::at_time(UNIX_EPOCH + Duration::from_secs(1_000_000));
    let mut sw = Stopwatch::new_from_timesource(TimeSource::custom(clock.clone()));
    let mut start = None;
    if prior {
        let g = sw.start();
        clock.update_instant(Duration::from_secs(5));
        g.stop();
        start = Some(5);
    }
    // guard i is started i seconds after guard 0; all are ended after the clock stopped moving
    let n = ends.len() as u64;
    let mut guards = Vec::new();
    for i in 0..n {
        guards.push(sw.start_owned());
        clock.update_instant(Duration::from_secs(if i + 1 == n { 10 } else { 1 }));
    }
    let spans: Vec<u64> = (0..n).map(|i| 10 + (n - 1 - i)).collect();
    let mut seqs: Vec<Vec<Step>> = ends.iter().zip(&spans).map(|(e, s)| steps_of(e, *s)).collect();
    seqs.push(steps_of(&main_op, 0));
    let mut handles = Vec::new();
    for (i, g) in guards.into_iter().enumerate() {
        let (end, span) = (ends[i].clone(), spans[i]);
        handles.push(thread::spawn(move || end_guard(g, &end, span)));
    }
    if main_op == "clear" {
        sw.clear();
    }
    for h in handles {
        h.join().unwrap();
    }
    let closed = (&sw).close().map(|d| d.as_nanos());
    let ok: BTreeSet<Option<u128>> = admissible(start, &seqs).into_iter().map(|t| t.map(|s| s as u128 * 1_000_000_000)).collect();
    mc::outcome(format!("{closed:?}"));
    if !ok.contains(&closed) {
        mc::violation(
            "stopwatch-total-is-no-interleaving-of-the-guards-operations",
            format!("stopwatch (loaded {start:?} s before) with owned guards ended by {ends:?} (spans {spans:?} s) on their own threads and main doing {main_op:?}: closed value {closed:?} ns, admissible {ok:?}"),
        );
    }
}
