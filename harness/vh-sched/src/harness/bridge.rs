//! metrics.rs bridge under loom (C20): updater threads vs `readout()`, counters and gauges on
//! scheduler-visible atomics, histogram record/drain as marked steps.

use crate::mc;
use metrics_024::{Key, Label, Level, Metadata, Recorder};
use metrique_metricsrs::MetricRecorder;
use metrique_writer_core::__verif::thread;
use serde_json::Value as J;
use std::collections::BTreeMap;
use std::sync::{Arc, Mutex};

type Rec = MetricRecorder<dyn metrics_024::Recorder>;

fn md() -> Metadata<'static> {
    Metadata::new("vh", Level::INFO, None)
}

#[derive(Default, Debug, Clone)]
struct Totals {
    counters: BTreeMap<String, u64>,
    hist: BTreeMap<String, Vec<u32>>,
    gauge: BTreeMap<String, f64>,
}

fn fold(t: &mut Totals, e: &metrique_metricsrs::MetricAccumulatorEntry<dyn metrics_024::Recorder>, names: &[&str]) {
    for n in names {
        if let Some(v) = e.counter_value(n) {
            *t.counters.entry(n.to_string()).or_default() += v;
        }
        let h = e.histogram_value(n);
        if !h.is_empty() {
            t.hist.entry(n.to_string()).or_default().extend(h);
        }
        if let Some(g) = e.gauge_value(n) {
            t.gauge.insert(n.to_string(), g);
        }
    }
}

/// cfg: updaters: [[op, ...], ...] with op = ["c", name, k] | ["h", name, v] | ["g", name, v];
/// readouts: how many readouts main performs while the updaters run.
pub fn c20(cfg: &J) {
    let updaters: Vec<Vec<(String, String, u64)>> = cfg["updaters"]
        .as_array()
        .unwrap()
        .iter()
        .map(|u| u.as_array().unwrap().iter().map(|o| (o[0].as_str().unwrap().to_string(), o[1].as_str().unwrap().to_string(), o[2].as_u64().unwrap())).collect())
        .collect();
    let readouts = cfg["readouts"].as_u64().unwrap_or(1);
    let late_register = cfg["late_register"].as_bool().unwrap_or(false);
    let rec: Rec = MetricRecorder::new();
    let names: Vec<String> = {
        let mut v: Vec<String> = updaters.iter().flatten().map(|o| o.1.clone()).collect();
        v.sort();
        v.dedup();
        v
    };
    // register up front (unless the updater registers on first use)
    if !late_register {
        for (kind, name, _) in updaters.iter().flatten() {
            let key = Key::from_parts(name.clone(), vec![Label::new("l", "v")]);
            match kind.as_str() {
                "c" => drop(rec.register_counter(&key, &md())),
                "h" => drop(rec.register_histogram(&key, &md())),
                _ => drop(rec.register_gauge(&key, &md())),
            }
        }
    }
    let last_gauge: Arc<Mutex<BTreeMap<String, Vec<f64>>>> = Arc::new(Mutex::new(BTreeMap::new()));
    let threads: Vec<_> = updaters
        .iter()
        .cloned()
        .map(|ops| {
            let rec = rec.clone();
            let last_gauge = last_gauge.clone();
            thread::spawn(move || {
                for (kind, name, v) in ops {
                    let key = Key::from_parts(name.clone(), vec![Label::new("l", "v")]);
                    match kind.as_str() {
                        "c" => rec.register_counter(&key, &md()).increment(v),
                        "h" => rec.register_histogram(&key, &md()).record(v as f64),
                        _ => {
                            rec.register_gauge(&key, &md()).set(v as f64);
                            last_gauge.lock().unwrap().entry(name).or_default().push(v as f64);
                        }
                    }
                }
            })
        })
        .collect();
    let name_refs: Vec<&str> = names.iter().map(|s| s.as_str()).collect();
    let mut totals = Totals::default();
    let mut per_readout = Vec::new();
    for _ in 0..readouts {
        let e = rec.readout();
        let mut one = Totals::default();
        fold(&mut one, &e, &name_refs);
        per_readout.push(one);
        fold(&mut totals, &e, &name_refs);
    }
    for t in threads {
        t.join().unwrap();
    }
    let e = rec.readout();
    fold(&mut totals, &e, &name_refs);
    mc::outcome(format!("{:?}", per_readout.iter().map(|t| (t.counters.clone(), t.hist.clone())).collect::<Vec<_>>()));
    // ---- oracle
    let mut want_c: BTreeMap<String, u64> = BTreeMap::new();
    let mut want_h: BTreeMap<String, usize> = BTreeMap::new();
    for (kind, name, v) in updaters.iter().flatten() {
        match kind.as_str() {
            "c" => *want_c.entry(name.clone()).or_default() += v,
            "h" => *want_h.entry(name.clone()).or_default() += 1,
            _ => {}
        }
    }
    for (name, want) in &want_c {
        let got = totals.counters.get(name).copied().unwrap_or(0);
        if got != *want {
            mc::violation("counter-increment-not-reported-exactly-once", format!("counter {name}: the readouts report deltas summing to {got}, {want} was incremented (per readout: {per_readout:?})"));
        }
    }
    for (name, want) in &want_h {
        let got = totals.hist.get(name).map(|v| v.len()).unwrap_or(0);
        if got != *want {
            mc::violation("histogram-sample-not-reported-exactly-once", format!("histogram {name}: {got} occurrences reported over all readouts, {want} recorded"));
        }
    }
    for (name, sets) in last_gauge.lock().unwrap().iter() {
        let got = totals.gauge.get(name).copied();
        // with one setter the final value is its last set; with several it is one of the last sets
        let single_setter = updaters.iter().filter(|u| u.iter().any(|o| o.0 == "g" && &o.1 == name)).count() == 1;
        let ok = match got {
            None => false,
            Some(g) => {
                if single_setter {
                    Some(&g) == sets.last()
                } else {
                    sets.contains(&g)
                }
            }
        };
        if !ok {
            mc::violation("gauge-not-last-value", format!("gauge {name}: final readout reports {got:?}, values set {sets:?}"));
        }
    }
}

/// Two threads describe (and use) their own metric at the same moment; a later readout must
/// write each metric with the unit it was described with.
pub fn c20_describe(cfg: &J) {
    let pre = cfg["pre_described"].as_u64().unwrap_or(0);
    let rec: Rec = MetricRecorder::new();
    for i in 0..pre {
        rec.describe_counter(metrics_024::KeyName::from(format!("pre{i}")), Some(metrics_024::Unit::Count), "d".into());
    }
    let units = [metrics_024::Unit::Milliseconds, metrics_024::Unit::Bytes];
    let threads: Vec<_> = (0..2usize)
        .map(|i| {
            let rec = rec.clone();
            let unit = units[i];
            thread::spawn(move || {
                let name = format!("m{i}");
                let key = Key::from_name(name.clone());
                // registered first so that the first touch of the registry is not concurrent
                let c = rec.register_counter(&key, &md());
                rec.describe_counter(metrics_024::KeyName::from(name), Some(unit), "d".into());
                c.increment(1);
            })
        })
        .collect();
    for t in threads {
        t.join().unwrap();
    }
    let e = rec.readout();
    let mut units = UnitsOf(BTreeMap::new());
    metrique_writer_core::Entry::write(&e, &mut units);
    let got: Vec<(String, String)> = (0..2).map(|i| {
        let n = format!("m{i}");
        (n.clone(), units.0.get(&n).cloned().unwrap_or_else(|| "<missing>".into()))
    }).collect();
    mc::outcome(format!("{got:?}"));
    let want = ["Milliseconds", "Bytes"];
    for (i, (n, u)) in got.iter().enumerate() {
        if u != want[i] {
            mc::violation("described-unit-lost", format!("metric {n} was described with unit {} but the readout writes it with {u} (all: {got:?})", want[i]));
        }
    }
}

/// A metric described and then updated by one thread while main reads out: a readout that
/// reports the update (which follows the describe call in program order) must report it with
/// the described unit. Kinds: counter / histogram. The handle is registered up front.
pub fn c20_describe_vs_readout(cfg: &J) {
    let kind = cfg["kind"].as_str().unwrap_or("c").to_string();
    let readouts = cfg["readouts"].as_u64().unwrap_or(1);
    let rec: Rec = MetricRecorder::new();
    let key = Key::from_name("m");
    let (counter, histogram) = (rec.register_counter(&key, &md()), rec.register_histogram(&Key::from_name("h"), &md()));
    let updater = {
        let (rec, kind) = (rec.clone(), kind.clone());
        thread::spawn(move || {
            if kind == "c" {
                rec.describe_counter(metrics_024::KeyName::from("m"), Some(metrics_024::Unit::Bytes), "d".into());
                counter.increment(3);
            } else {
                rec.describe_histogram(metrics_024::KeyName::from("h"), Some(metrics_024::Unit::Bytes), "d".into());
                histogram.record(5.0);
            }
        })
    };
    let name = if kind == "c" { "m" } else { "h" };
    let mut seen = Vec::new();
    let judge = |e: &metrique_metricsrs::MetricAccumulatorEntry<dyn metrics_024::Recorder>, when: &str, seen: &mut Vec<String>| {
        let reported = if kind == "c" { e.counter_value(name).unwrap_or(0) > 0 } else { !e.histogram_value(name).is_empty() };
        let mut units = UnitsOf(BTreeMap::new());
        metrique_writer_core::Entry::write(e, &mut units);
        let unit = units.0.get(name).cloned();
        seen.push(format!("{when}:{reported}:{unit:?}"));
        if reported && unit.as_deref() != Some("Bytes") {
            mc::violation("update-reported-without-its-described-unit", format!("{when}: the readout reports the update of `{name}`, which was described as Bytes before it was updated, with unit {unit:?}"));
        }
    };
    for i in 0..readouts {
        let e = rec.readout();
        judge(&e, &format!("readout {i} (concurrent)"), &mut seen);
    }
    updater.join().unwrap();
    let e = rec.readout();
    judge(&e, "final readout", &mut seen);
    mc::outcome(format!("{seen:?}"));
}

struct UnitsOf(BTreeMap<String, String>);
struct UV<'c>(String, &'c mut BTreeMap<String, String>);
impl metrique_writer_core::ValueWriter for UV<'_> {
    fn string(self, _v: &str) {}
    fn metric<'a>(self, _d: impl IntoIterator<Item = metrique_writer_core::Observation>, unit: metrique_writer_core::Unit, _dims: impl IntoIterator<Item = (&'a str, &'a str)>, _f: metrique_writer_core::MetricFlags<'_>) {
        self.1.insert(self.0, format!("{unit:?}"));
    }
    fn error(self, _e: metrique_writer_core::ValidationError) {}
}
impl<'a> metrique_writer_core::EntryWriter<'a> for UnitsOf {
    fn timestamp(&mut self, _t: std::time::SystemTime) {}
    fn value(&mut self, name: impl Into<std::borrow::Cow<'a, str>>, value: &(impl metrique_writer_core::Value + ?Sized)) {
        let name: std::borrow::Cow<'a, str> = name.into();
        value.write(UV(name.into_owned(), &mut self.0));
    }
    fn config(&mut self, _c: &'a dyn metrique_writer_core::EntryConfig) {}
}
