//! Global sink race (C17) and AttachHandle over a background queue (C05): the real
//! `global_entry_sink!` expansion with its RwLock switched to loom's.

use crate::mc;
use crate::rec::*;
use metrique_writer::sink::BackgroundQueueBuilder;
use metrique_writer::{AttachGlobalEntrySink, BoxEntry, EntrySink};
use metrique_writer_core::__verif::shadow::Shadow;
use metrique_writer_core::__verif::sync::Arc as LArc;
use metrique_writer_core::__verif::thread;
use metrique_writer_core::sink::FlushWait;
use serde_json::Value as J;
use std::collections::BTreeMap;
use std::sync::atomic::{AtomicBool, Ordering};
use std::sync::{Arc, Mutex};

metrique_writer::sink::global_entry_sink! { VGlobal }

#[derive(Clone, Debug, PartialEq, Eq)]
pub enum GEv {
    Accepted { sink: u8, tag: Tag, sink_closed: bool },
    Closed(u8),
}

type GLog = Arc<Mutex<Vec<GEv>>>;

struct GSink {
    id: u8,
    shadow: LArc<Shadow>,
    closed: Arc<AtomicBool>,
    log: GLog,
}

impl EntrySink<BoxEntry> for GSink {
    fn append(&self, entry: BoxEntry) {
        self.shadow.touch();
        let tag = match read_entry(&entry) {
            Seen::Tagged(t) => t,
            other => panic!("HARNESS: unexpected entry {other:?}"),
        };
        self.log.lock().unwrap().push(GEv::Accepted {
            sink: self.id,
            tag,
            sink_closed: self.closed.load(Ordering::SeqCst),
        });
    }
    fn flush_async(&self) -> FlushWait {
        FlushWait::ready()
    }
}

/// the "handle" half of the attached pair: dropping it is the sink's flush-and-close
struct CloseMarker {
    id: u8,
    shadow: LArc<Shadow>,
    closed: Arc<AtomicBool>,
    log: GLog,
}

impl Drop for CloseMarker {
    fn drop(&mut self) {
        self.shadow.touch();
        self.closed.store(true, Ordering::SeqCst);
        self.log.lock().unwrap().push(GEv::Closed(self.id));
    }
}

fn pair(id: u8, log: &GLog) -> (GSink, CloseMarker) {
    let shadow = LArc::new(Shadow::new());
    let closed = Arc::new(AtomicBool::new(false));
    (
        GSink { id, shadow: shadow.clone(), closed: closed.clone(), log: log.clone() },
        CloseMarker { id, shadow, closed, log: log.clone() },
    )
}

/// cfg: appenders: n threads each doing `per` try_appends; reattach: main attaches sink 2 after
/// detaching sink 1; background: the attached sink is a real background queue.
pub fn c17(cfg: &J) {
    let appenders = cfg["appenders"].as_u64().unwrap_or(1) as usize;
    let per = cfg["per"].as_u64().unwrap_or(1) as usize;
    let reattach = cfg["reattach"].as_bool().unwrap_or(false);
    let background = cfg["background"].as_bool().unwrap_or(false);
    let log: GLog = Arc::new(Mutex::new(Vec::new()));
    let results: Arc<Mutex<BTreeMap<Tag, bool>>> = Arc::new(Mutex::new(BTreeMap::new()));
    let (stream, slog) = RecStream::new(BTreeMap::new());
    let handle = if background {
        VGlobal::attach(BackgroundQueueBuilder::new().capacity(8).build_boxed(stream))
    } else {
        drop(stream);
        slog.lock().unwrap().clear();
        VGlobal::attach(pair(1, &log))
    };
    let threads: Vec<_> = (0..appenders)
        .map(|a| {
            let results = results.clone();
            thread::spawn(move || {
                for i in 0..per {
                    let tag = Tag { p: a as u8, seq: i as u8 };
                    let r = VGlobal::try_append(TaggedEntry(tag));
                    match r {
                        Ok(()) => {
                            results.lock().unwrap().insert(tag, true);
                        }
                        Err(back) => {
                            if back.0 != tag {
                                mc::violation("returned-entry-changed", format!("try_append handed back {:?} instead of {tag}", back.0));
                            }
                            results.lock().unwrap().insert(tag, false);
                        }
                    }
                }
            })
        })
        .collect();
    drop(handle); // detach: flush-and-close of what the sink accepted
    let second = if reattach { Some(VGlobal::attach(pair(2, &log))) } else { None };
    for t in threads {
        t.join().unwrap();
    }
    drop(second);
    // the global is back to its initial state
    if VGlobal::try_append(TaggedEntry(Tag { p: 9, seq: 9 })).is_ok() {
        mc::violation("still-attached-after-detach", "try_append succeeded after every attach handle was dropped".into());
    }
    // ---- oracle: each entry is either returned or accepted by exactly one sink before its close
    let log = log.lock().unwrap().clone();
    let results = results.lock().unwrap().clone();
    let stream_log = slog.lock().unwrap().clone();
    mc::outcome(format!("{log:?} {results:?} {}", log_string(&stream_log)));
    for (tag, ok) in &results {
        let accepted: Vec<&GEv> = log.iter().filter(|e| matches!(e, GEv::Accepted { tag: t, .. } if t == tag)).collect();
        let in_stream = stream_log.iter().filter(|e| matches!(e, Ev::Next(Seen::Tagged(t), _) if t == tag)).count();
        let n = accepted.len() + in_stream;
        if *ok {
            if n != 1 {
                mc::violation("accepted-entry-not-delivered-exactly-once", format!("try_append({tag}) returned Ok but {n} destinations saw it: {log:?} / stream {}", log_string(&stream_log)));
            }
            for e in accepted {
                if let GEv::Accepted { sink, sink_closed: true, .. } = e {
                    mc::violation("accepted-after-close", format!("entry {tag} was appended to sink {sink} after that sink had been closed by the detach: {log:?}"));
                }
            }
        } else if n != 0 {
            mc::violation("returned-entry-also-delivered", format!("try_append({tag}) handed the entry back but a destination also saw it: {log:?}"));
        }
    }
    if background {
        // drop(attach handle) is the queue's shutdown: drained, flushed, stream dropped
        if stream_log.last() != Some(&Ev::Dropped) {
            mc::violation("attached-queue-not-closed", format!("the attach handle of a background queue was dropped but its stream was not closed last: {}", log_string(&stream_log)));
        }
        let last_next = stream_log.iter().rposition(|e| matches!(e, Ev::Next(..)));
        let last_flush = stream_log.iter().rposition(|e| *e == Ev::Flush);
        if let (Some(n), Some(f)) = (last_next, last_flush) {
            if f < n {
                mc::violation("attached-queue-not-flushed", format!("no flush after the last entry: {}", log_string(&stream_log)));
            }
        }
    }
}

/// Two threads call `attach` on the unattached global at the same moment: exactly one of them
/// gets a handle, the other one panics; the winner's sink stays attached until ITS handle is
/// dropped.
pub fn c17_attach(_cfg: &J) {
    let log: GLog = Arc::new(Mutex::new(Vec::new()));
    let threads: Vec<_> = (1..=2u8)
        .map(|id| {
            let log = log.clone();
            thread::spawn(move || {
                // (the catch region covers only the attach call; `attach` has no scheduling point
                // after its own panic, so the flag cannot leak into another thread's panic)
                mc::catching(|| VGlobal::attach(pair(id, &log))).ok()
            })
        })
        .collect();
    let handles: Vec<Option<metrique_writer_core::global::AttachHandle>> = threads.into_iter().map(|t| t.join().unwrap()).collect();
    let winners: Vec<u8> = handles.iter().enumerate().filter(|(_, h)| h.is_some()).map(|(i, _)| i as u8 + 1).collect();
    mc::outcome(format!("winners {winners:?} log {:?}", log.lock().unwrap()));
    if winners.len() != 1 {
        mc::violation("concurrent-attach-not-exclusive", format!("{} of 2 concurrent attach calls returned a handle (expected exactly one, the other panics): {:?}", winners.len(), log.lock().unwrap()));
    }
    let w = winners[0];
    // the winner's sink is the attached one and still open
    let tag = Tag { p: 7, seq: 7 };
    if VGlobal::try_append(TaggedEntry(tag)).is_err() {
        mc::violation("winner-not-attached", "after one attach succeeded try_append hands the entry back".into());
    }
    let l = log.lock().unwrap().clone();
    match l.iter().find(|e| matches!(e, GEv::Accepted { tag: t, .. } if *t == tag)) {
        Some(GEv::Accepted { sink, sink_closed, .. }) if *sink == w && !*sink_closed => {}
        other => mc::violation("entry-not-routed-to-the-winner", format!("winner is sink {w} but the entry went to {other:?}: {l:?}")),
    }
    for (i, h) in handles.into_iter().enumerate() {
        if let Some(h) = h {
            drop(h);
            let l = log.lock().unwrap().clone();
            if !l.contains(&GEv::Closed(i as u8 + 1)) {
                mc::violation("detach-did-not-close-own-sink", format!("dropping the handle of sink {} did not close it: {l:?}", i + 1));
            }
        }
    }
    if VGlobal::try_append(TaggedEntry(Tag { p: 9, seq: 9 })).is_ok() {
        mc::violation("still-attached-after-detach", "try_append succeeded after the attach handle was dropped".into());
    }
}
