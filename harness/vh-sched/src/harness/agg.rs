//! Aggregation worker sink under loom (C10): the real `WorkerSink` thread (facade channel,
//! clock and oneshot), the real `KeyedAggregator`, producers on loom threads.

use crate::mc;
use crate::rec::wait_with_snapshot;
use metrique::CloseValue;
use metrique::unit_of_work::metrics;
use metrique_aggregation::aggregate;
use metrique_aggregation::aggregator::{AggregatedEntry, KeyedAggregator};
use metrique_aggregation::sink::WorkerSink;
use metrique_aggregation::value::Sum;
use metrique_writer_core::__verif::shadow::Shadow;
use metrique_writer_core::__verif::sync::Arc as LArc;
use metrique_writer_core::__verif::{thread, time as vtime};
use metrique_writer_core::sink::FlushWait;
use metrique_writer_core::{
    Entry, EntryConfig, EntrySink, EntryWriter, MetricFlags, Observation, Unit, ValidationError,
    Value, ValueWriter,
};
use serde_json::Value as J;
use std::borrow::Cow;
use std::collections::BTreeMap;
use std::sync::{Arc, Mutex};
use std::time::{Duration, SystemTime};

#[aggregate]
#[metrics]
pub struct Call {
    #[aggregate(key)]
    endpoint: String,
    #[aggregate(strategy = Sum)]
    count: u64,
    #[aggregate(strategy = Sum)]
    weight: u64,
}

#[derive(Clone, Debug, Default, PartialEq, Eq)]
pub struct Emitted {
    pub key: String,
    pub count: u64,
    pub weight: u64,
}

struct Collect(Emitted);
struct CV<'c> {
    name: String,
    out: &'c mut Emitted,
}
impl ValueWriter for CV<'_> {
    fn string(self, value: &str) {
        if self.name == "endpoint" {
            self.out.key = value.to_string();
        }
    }
    fn metric<'a>(
        self,
        distribution: impl IntoIterator<Item = Observation>,
        _unit: Unit,
        _dimensions: impl IntoIterator<Item = (&'a str, &'a str)>,
        _flags: MetricFlags<'_>,
    ) {
        let v: u64 = distribution
            .into_iter()
            .map(|o| match o {
                Observation::Unsigned(v) => v,
                Observation::Floating(f) => f as u64,
                Observation::Repeated { total, .. } => total as u64,
                _ => 0,
            })
            .sum();
        match self.name.as_str() {
            "count" => self.out.count = v,
            "weight" => self.out.weight = v,
            _ => {}
        }
    }
    fn error(self, _error: ValidationError) {}
}
impl<'a> EntryWriter<'a> for Collect {
    fn timestamp(&mut self, _t: SystemTime) {}
    fn value(&mut self, name: impl Into<Cow<'a, str>>, value: &(impl Value + ?Sized)) {
        let name: Cow<'a, str> = name.into();
        value.write(CV {
            name: name.into_owned(),
            out: &mut self.0,
        });
    }
    fn config(&mut self, _config: &'a dyn EntryConfig) {}
}

#[derive(Clone, Debug, PartialEq, Eq)]
pub enum AEv {
    Emit(Emitted),
    SinkDropped,
}

/// downstream sink of the aggregator: records emitted aggregates and its own drop (= the drop of
/// the inner aggregator that was moved into the worker thread)
pub struct DownSink {
    shadow: LArc<Shadow>,
    log: Arc<Mutex<Vec<AEv>>>,
}

impl EntrySink<AggregatedEntry<Call>> for DownSink {
    fn append(&self, entry: AggregatedEntry<Call>) {
        self.shadow.touch();
        let mut c = Collect(Emitted::default());
        entry.write(&mut c);
        self.log.lock().unwrap().push(AEv::Emit(c.0));
    }
    fn flush_async(&self) -> FlushWait {
        FlushWait::ready()
    }
}

impl Drop for DownSink {
    fn drop(&mut self) {
        self.shadow.touch();
        self.log.lock().unwrap().push(AEv::SinkDropped);
        vtime::poke();
    }
}

fn call(key: &str, weight: u64) -> <Call as CloseValue>::Closed {
    Call {
        endpoint: key.to_string(),
        count: 1,
        weight,
    }
    .close()
}

/// cfg: producers: [[ [key, weight], ... ], ...]; flusher: bool (main awaits a flush after its
/// own sends); ticks: how many flush intervals pass while the worker sleeps after shutdown.
pub fn c10(cfg: &J) {
    let producers: Vec<Vec<(String, u64)>> = cfg["producers"]
        .as_array()
        .unwrap()
        .iter()
        .map(|p| p.as_array().unwrap().iter().map(|e| (e[0].as_str().unwrap().to_string(), e[1].as_u64().unwrap())).collect())
        .collect();
    let main_sends: Vec<(String, u64)> = cfg["main"].as_array().map(|p| p.iter().map(|e| (e[0].as_str().unwrap().to_string(), e[1].as_u64().unwrap())).collect()).unwrap_or_default();
    let flush = cfg["flush"].as_bool().unwrap_or(false);
    if let Some(k) = cfg["jump_k"].as_u64() {
        vtime::jump_at_read(k, Duration::from_secs(2));
    }
    let log = Arc::new(Mutex::new(Vec::new()));
    let down = DownSink {
        shadow: LArc::new(Shadow::new()),
        log: log.clone(),
    };
    let agg: KeyedAggregator<Call, DownSink> = KeyedAggregator::new(down);
    let sink = WorkerSink::new(agg, Duration::from_secs(1));
    // Every harness-level operation (send, flush request) of every thread first touches one
    // shared scheduler-visible marker: the operations become mutually dependent steps, so all
    // their orders are explored even where the code under test synchronises through state the
    // scheduler cannot see (a plain std atomic added by a change under test): what a thread
    // does invisibly is glued to its marker touch.
    let ops = LArc::new(Shadow::new());
    let threads: Vec<_> = producers
        .iter()
        .cloned()
        .map(|items| {
            let (s, ops) = (sink.clone(), ops.clone());
            thread::spawn(move || {
                for (k, w) in items {
                    ops.touch();
                    s.send(call(&k, w));
                }
            })
        })
        .collect();
    // other threads that only request a flush and wait for it (two waiters on one worker)
    let flushers: Vec<_> = (0..cfg["flushers"].as_u64().unwrap_or(0))
        .map(|_| {
            let (s, ops) = (sink.clone(), ops.clone());
            thread::spawn(move || {
                let dummy: crate::rec::Log = Arc::new(Mutex::new(Vec::new()));
                ops.touch();
                let ((), _) = wait_with_snapshot(s.flush(), &dummy);
            })
        })
        .collect();
    let mut sent_before_flush: Vec<(String, u64)> = Vec::new();
    for (k, w) in &main_sends {
        ops.touch();
        sink.send(call(k, *w));
        sent_before_flush.push((k.clone(), *w));
    }
    if cfg["cancelled_flush"].as_bool().unwrap_or(false) {
        // a flush request that is abandoned: polled once, then dropped (a timeout or select! around
        // `flush()`); the sink stays usable - one more entry, and the awaited flush below
        ops.touch();
        {
            let mut fut = std::pin::pin!(sink.flush());
            let mut cx = std::task::Context::from_waker(std::task::Waker::noop());
            let _ = fut.as_mut().poll(&mut cx);
        }
        ops.touch();
        sink.send(call("late", 9));
        sent_before_flush.push(("late".to_string(), 9));
    }
    if flush {
        // a completed flush has seen everything this thread sent before it
        let dummy: crate::rec::Log = Arc::new(Mutex::new(Vec::new()));
        ops.touch();
        let ((), _) = wait_with_snapshot(sink.flush(), &dummy);
        ops.touch();
        let at_flush: Vec<AEv> = log.lock().unwrap().clone();
        let mut by_key: BTreeMap<String, (u64, u64)> = BTreeMap::new();
        for e in &at_flush {
            if let AEv::Emit(e) = e {
                let x = by_key.entry(e.key.clone()).or_default();
                x.0 += e.count;
                x.1 += e.weight;
            }
        }
        let mut need: BTreeMap<String, (u64, u64)> = BTreeMap::new();
        for (k, w) in &sent_before_flush {
            let x = need.entry(k.clone()).or_default();
            x.0 += 1;
            x.1 += w;
        }
        for (k, (c, w)) in need {
            let have = by_key.get(&k).copied().unwrap_or((0, 0));
            if have.0 < c || have.1 < w {
                mc::violation("flush-completed-before-emit", format!("flush().await returned but only {have:?} of key {k} has been emitted, {c} entries (weight {w}) were sent before the flush: {at_flush:?}"));
            }
        }
    }
    for t in threads.into_iter().chain(flushers) {
        t.join().unwrap();
    }
    drop(sink); // last handle
    // the worker must emit what it holds, drop the aggregator and exit. Its receive loop uses a
    // timed wait: let flush intervals pass while it sleeps, give up once the aggregator is gone.
    let gone = |log: &Arc<Mutex<Vec<AEv>>>| log.lock().unwrap().last() == Some(&AEv::SinkDropped);
    let mut rounds = 0;
    while !gone(&log) && rounds < 3 {
        let l = log.clone();
        vtime::advance_when_idle(Duration::from_millis(1100), move || l.lock().unwrap().last() == Some(&AEv::SinkDropped));
        rounds += 1;
        let l = log.clone();
        vtime::advance_when_idle(Duration::ZERO, move || l.lock().unwrap().last() == Some(&AEv::SinkDropped));
    }
    let end: Vec<AEv> = log.lock().unwrap().clone();
    mc::outcome(format!("{end:?}"));
    if !gone(&log) {
        mc::violation("worker-never-terminates", format!("the last WorkerSink handle was dropped but after {rounds} flush intervals the inner aggregator has not been dropped: {end:?}"));
    }
    thread::wait_all_spawned();
    // conservation: every input is in exactly one emitted aggregate
    let mut have: BTreeMap<String, (u64, u64)> = BTreeMap::new();
    for e in &end {
        if let AEv::Emit(e) = e {
            let x = have.entry(e.key.clone()).or_default();
            x.0 += e.count;
            x.1 += e.weight;
        }
    }
    let mut need: BTreeMap<String, (u64, u64)> = BTreeMap::new();
    for (k, w) in producers.iter().flatten().chain(main_sends.iter()) {
        let x = need.entry(k.clone()).or_default();
        x.0 += 1;
        x.1 += w;
    }
    if cfg["cancelled_flush"].as_bool().unwrap_or(false) {
        let x = need.entry("late".to_string()).or_default();
        x.0 += 1;
        x.1 += 9;
    }
    if have != need {
        mc::violation("inputs-not-conserved", format!("emitted per key (count, weight) {have:?} but the inputs were {need:?}: {end:?}"));
    }
}

/// An entry that owns something else (here: a handle of the very sink it is sent to), and the
/// inner sink that unwraps it.
pub struct Carrying {
    entry: <Call as CloseValue>::Closed,
    cargo: Option<Box<dyn std::any::Any + Send>>,
}
struct Unwrapping(KeyedAggregator<Call, DownSink>);
impl metrique_aggregation::traits::AggregateSink<Carrying> for Unwrapping {
    fn merge(&mut self, c: Carrying) {
        metrique_aggregation::traits::AggregateSink::merge(&mut self.0, c.entry);
        // the cargo (possibly the last handle of the sink) is dropped here, on the worker thread
        drop(c.cargo);
    }
}
impl metrique_aggregation::traits::FlushableSink for Unwrapping {
    fn flush(&mut self) {
        metrique_aggregation::traits::FlushableSink::flush(&mut self.0)
    }
}

/// C10, "a worker sink emits what it still holds and its thread terminates once its last handle
/// is dropped" where the last handle is dropped BY THE WORKER THREAD: a queued entry owns a clone
/// of the sink, every other handle goes away before the worker reaches that entry.
pub fn c10_last_handle_on_worker(cfg: &J) {
    let extra = cfg["extra"].as_u64().unwrap_or(1);
    let log = Arc::new(Mutex::new(Vec::new()));
    let down = DownSink { shadow: LArc::new(Shadow::new()), log: log.clone() };
    let sink: WorkerSink<Carrying, Unwrapping> = WorkerSink::new(Unwrapping(KeyedAggregator::new(down)), Duration::from_secs(1));
    for i in 0..extra {
        sink.send(Carrying { entry: call("a", 1 + i), cargo: None });
    }
    let inside = sink.clone();
    sink.send(Carrying { entry: call("b", 7), cargo: Some(Box::new(inside)) });
    drop(sink); // from now on the only handle is the one travelling in the queue
    let gone = |log: &Arc<Mutex<Vec<AEv>>>| log.lock().unwrap().last() == Some(&AEv::SinkDropped);
    let mut rounds = 0;
    while !gone(&log) && rounds < 3 {
        let l = log.clone();
        vtime::advance_when_idle(Duration::from_millis(1100), move || l.lock().unwrap().last() == Some(&AEv::SinkDropped));
        rounds += 1;
        let l = log.clone();
        vtime::advance_when_idle(Duration::ZERO, move || l.lock().unwrap().last() == Some(&AEv::SinkDropped));
    }
    let end: Vec<AEv> = log.lock().unwrap().clone();
    mc::outcome(format!("{end:?}"));
    if !gone(&log) {
        mc::violation("worker-never-terminates", format!("the last WorkerSink handle was dropped (by the worker thread, inside a merge) but after {rounds} flush intervals the inner aggregator has not been dropped: {end:?}"));
    }
    thread::wait_all_spawned();
    let mut have: BTreeMap<String, (u64, u64)> = BTreeMap::new();
    for e in &end {
        if let AEv::Emit(e) = e {
            let x = have.entry(e.key.clone()).or_default();
            x.0 += e.count;
            x.1 += e.weight;
        }
    }
    let mut need: BTreeMap<String, (u64, u64)> = BTreeMap::new();
    if extra > 0 {
        need.insert("a".to_string(), (extra, (1..=extra).sum()));
    }
    need.insert("b".to_string(), (1, 7));
    if have != need {
        mc::violation("inputs-not-conserved", format!("the last handle was dropped by the worker thread itself; emitted per key (count, weight) {have:?} but the inputs were {need:?}: {end:?}"));
    }
}

// ------------------------------------------------------------------------------------------
// MutexSink: merges from several threads racing the close

use metrique_aggregation::aggregator::Aggregate;
use metrique_aggregation::sink::MutexSink;
use metrique_aggregation::traits::RootSink;

metrique_writer_core::__verif::loom::lazy_static! {
    static ref MERGE_STEP: Shadow = Shadow::new();
}

/// `Sum` with a scheduler-visible step inside: loom never switches threads between a mutex
/// acquisition and its release unless the critical section contains a visible operation, so
/// without this a lock *held by a merge* could never be observed by another thread (e.g. by a
/// `try_lock` in `close`). The harness-defined merge step is that operation.
pub struct VSum;
impl metrique_aggregation::traits::AggregateValue<u64> for VSum {
    type Aggregated = u64;
    fn insert(accum: &mut u64, value: u64) {
        MERGE_STEP.touch();
        *accum += value;
    }
}

#[aggregate]
#[metrics]
pub struct Tot {
    #[aggregate(strategy = VSum)]
    n: u64,
}

#[metrics]
pub struct Outer {
    #[metrics(flatten)]
    tot: MutexSink<Aggregate<Tot>>,
}

struct CollectN(u64);
struct CVN<'c>(&'c mut u64);
impl ValueWriter for CVN<'_> {
    fn string(self, _v: &str) {}
    fn metric<'a>(self, distribution: impl IntoIterator<Item = Observation>, _unit: Unit, _d: impl IntoIterator<Item = (&'a str, &'a str)>, _f: MetricFlags<'_>) {
        for o in distribution {
            if let Observation::Unsigned(v) = o {
                *self.0 += v;
            }
        }
    }
    fn error(self, _e: ValidationError) {}
}
impl<'a> EntryWriter<'a> for CollectN {
    fn timestamp(&mut self, _t: SystemTime) {}
    fn value(&mut self, _name: impl Into<Cow<'a, str>>, value: &(impl Value + ?Sized)) {
        value.write(CVN(&mut self.0));
    }
    fn config(&mut self, _config: &'a dyn EntryConfig) {}
}

/// cfg: mergers: [[n, ...], ...] values merged by each thread through a clone of the sink while
/// main closes it. Everything whose merge returned before the close began must be in the closed
/// aggregate; nothing may be counted twice.
pub fn c10_mutex(cfg: &J) {
    let mergers: Vec<Vec<u64>> = cfg["mergers"].as_array().unwrap().iter().map(|m| m.as_array().unwrap().iter().map(|v| v.as_u64().unwrap()).collect()).collect();
    let join_first = cfg["join_first"].as_bool().unwrap_or(false);
    let sink: MutexSink<Aggregate<Tot>> = MutexSink::new(Aggregate::default());
    let done: crate::rec::Visible<Vec<u64>> = crate::rec::Visible::new();
    let mut threads: Vec<_> = mergers
        .iter()
        .cloned()
        .map(|vals| {
            let s = sink.clone();
            let done = done.clone();
            Some(thread::spawn(move || {
                for v in vals {
                    s.merge(Tot { n: v }.close());
                    done.update(|d| d.push(v));
                }
            }))
        })
        .collect();
    if join_first {
        for t in threads.iter_mut() {
            t.take().unwrap().join().unwrap();
        }
    }
    let before: Vec<u64> = done.read();
    let closed = Outer { tot: sink }.close();
    let mut c = CollectN(0);
    metrique::RootEntry::new(closed).write(&mut c);
    for t in threads.iter_mut() {
        if let Some(t) = t.take() {
            t.join().unwrap();
        }
    }
    let all: u64 = mergers.iter().flatten().sum();
    let need: u64 = before.iter().sum();
    mc::outcome(format!("emitted {} of {all} (merged before the close began: {need})", c.0));
    if c.0 < need {
        mc::violation("mutex-sink-close-lost-merged-input", format!("the closed aggregate holds {} but inputs summing to {need} had been merged (their merge() had returned) before close() began", c.0));
    }
    if c.0 > all {
        mc::violation("mutex-sink-counted-twice", format!("the closed aggregate holds {} but all inputs sum to {all}", c.0));
    }
}

// ------------------------------------------------------------------------------------------
// C11 concurrency clause: SharedHistogram under concurrent add_value (first records included)

use metrique_aggregation::histogram::{AtomicExponentialAggregationStrategy, SharedHistogram};

struct CountObs {
    occurrences: u64,
    values: Vec<f64>,
}
struct CO<'c>(&'c mut CountObs);
impl ValueWriter for CO<'_> {
    fn string(self, _v: &str) {}
    fn metric<'a>(self, distribution: impl IntoIterator<Item = Observation>, _unit: Unit, _d: impl IntoIterator<Item = (&'a str, &'a str)>, _f: MetricFlags<'_>) {
        for o in distribution {
            match o {
                Observation::Repeated { total, occurrences } => {
                    self.0.occurrences += occurrences;
                    if occurrences > 0 {
                        self.0.values.push(total / occurrences as f64);
                    }
                }
                Observation::Unsigned(v) => {
                    self.0.occurrences += 1;
                    self.0.values.push(v as f64);
                }
                Observation::Floating(v) => {
                    self.0.occurrences += 1;
                    self.0.values.push(v);
                }
                _ => {}
            }
        }
    }
    fn error(self, _e: ValidationError) {}
}

/// cfg: adders: [[v, ...], ...] values recorded by each thread into ONE fresh SharedHistogram
/// (so the very first records race); drain_midway: main closes a clone-free snapshot? (no: the
/// histogram is closed after the join). Every recorded observation must be counted exactly once
/// and be reported within 6.25%.
pub fn c11_shared(cfg: &J) {
    let adders: Vec<Vec<u64>> = cfg["adders"].as_array().unwrap().iter().map(|m| m.as_array().unwrap().iter().map(|v| v.as_u64().unwrap()).collect()).collect();
    let h: LArc<SharedHistogram<u64, AtomicExponentialAggregationStrategy>> = LArc::new(SharedHistogram::new(AtomicExponentialAggregationStrategy::new()));
    let threads: Vec<_> = adders
        .iter()
        .cloned()
        .map(|vals| {
            let h = h.clone();
            thread::spawn(move || {
                for v in vals {
                    h.add_value(v);
                }
            })
        })
        .collect();
    for t in threads {
        t.join().unwrap();
    }
    let h = match LArc::try_unwrap(h) {
        Ok(h) => h,
        Err(_) => panic!("HARNESS: histogram still shared after join"),
    };
    let closed = h.close();
    let mut c = CountObs { occurrences: 0, values: Vec::new() };
    metrique_writer_core::Value::write(&closed, CO(&mut c));
    let want: Vec<u64> = adders.iter().flatten().copied().collect();
    mc::outcome(format!("{} occurrences {:?}", c.occurrences, c.values));
    if c.occurrences != want.len() as u64 {
        mc::violation("shared-histogram-count-not-conserved", format!("{} observations were recorded concurrently but the closed histogram counts {} (values {:?})", want.len(), c.occurrences, c.values));
    }
    for w in &want {
        if !c.values.iter().any(|r| (r - *w as f64).abs() <= *w as f64 * 0.0625 + 1.0 / 1024.0) {
            mc::violation("shared-histogram-value-lost", format!("recorded {w} but no reported value is within 6.25%: {:?}", c.values));
        }
    }
}
