pub mod queue;
pub mod uow;
