pub mod queue;
pub mod uow;
pub mod agg;
