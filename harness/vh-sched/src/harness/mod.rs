pub mod queue;
pub mod uow;
pub mod agg;
pub mod global;
pub mod bridge;
pub mod timers;
