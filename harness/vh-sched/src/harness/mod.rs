pub mod queue;
