//! Per-property model lists (the outer enumeration: configurations, scripts, clock jumps).

use crate::orch::{Job, fill_report, run_jobs};
use serde_json::{Value, json};
use vh_common::{Report, Tier};

fn replay(rep: &Report) -> Option<(String, Value)> {
    let path = rep.replay.as_ref()?;
    let v: Value = serde_json::from_slice(&std::fs::read(path).expect("replay file")).expect("json");
    let r = &v["replay"];
    let harness = r["harness"].as_str().or(r["model"]["harness"].as_str()).expect("harness").to_string();
    let mut cfg = r["model"]["config"].clone();
    cfg["stop_at"] = r["execution_index"].clone();
    Some((harness, cfg))
}

fn leak(s: String) -> &'static str {
    Box::leak(s.into_boxed_str())
}

pub fn run_property(p: &str) {
    match p {
        "C01" => c01(),
        other => {
            eprintln!("no loom models for {other}");
            std::process::exit(2)
        }
    }
}

fn finish(mut rep: Report, jobs: Vec<Job>, what: &str) -> ! {
    if let Some((harness, cfg)) = replay(&rep) {
        let totals = run_jobs(&mut rep, vec![Job { harness: leak(harness), cfg }]);
        println!("replayed: {} executions", totals.executions);
        rep.finish()
    }
    let totals = run_jobs(&mut rep, jobs);
    fill_report(&mut rep, &totals, what);
    rep.finish()
}

fn scripts(len: usize, full: bool) -> Vec<String> {
    // all result scripts over {o,v,i} when small, single-error scripts above
    let mut out = vec!["o".repeat(len)];
    if full {
        let mut all = vec![String::new()];
        for _ in 0..len {
            all = all.into_iter().flat_map(|s| ['o', 'v', 'i'].into_iter().map(move |c| format!("{s}{c}"))).collect();
        }
        out = all;
    } else {
        for i in 0..len {
            for c in ['v', 'i'] {
                let mut s: Vec<char> = "o".repeat(len).chars().collect();
                s[i] = c;
                out.push(s.into_iter().collect());
            }
        }
    }
    out
}

fn c01() {
    let rep = Report::from_args("C01", "model_checking");
    let tier = rep.tier;
    let pb = tier.pick(2, 3);
    let shapes: Vec<(usize, usize)> = match tier {
        Tier::Quick => vec![(1, 2), (2, 1), (2, 2), (3, 1)],
        Tier::Thorough => vec![(1, 2), (2, 1), (2, 2), (3, 1), (3, 2), (2, 3), (1, 4)],
    };
    let mut jobs = Vec::new();
    for (p, n) in shapes {
        for boxed in [false, true] {
            for flush in [false, true] {
                let full = p * n <= tier.pick(2, 3);
                for script in scripts(p * n, full) {
                    // error scripts only on the typed, no-flush variant unless thorough
                    if script.contains(['v', 'i']) && (boxed || flush) && tier == Tier::Quick {
                        continue;
                    }
                    jobs.push(Job { harness: "c01", cfg: json!({"p": p, "n": n, "boxed": boxed, "flush": flush, "script": script, "pb": pb}) });
                }
            }
        }
    }
    // clock jumps: the k-th clock read lands past the flush deadline
    let jumps: Vec<u64> = (0..tier.pick(8, 16)).collect();
    for k in jumps {
        jobs.push(Job { harness: "c01", cfg: json!({"p": 2, "n": 1, "boxed": false, "flush": k % 2 == 1, "script": "ov", "jump_k": k, "pb": pb}) });
    }
    finish(rep, jobs, "Every schedule (DPOR, preemption bound as configured) of P producer threads x n appends through typed/boxed handles against the real writer thread, for every stream-result script and clock-jump position listed.");
}
