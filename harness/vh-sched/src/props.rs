//! Per-property model lists (the outer enumeration: configurations, scripts, clock jumps).

use crate::orch::{Job, fill_report, run_jobs};
use serde_json::{Value, json};
use vh_common::{Report, Tier};

fn replay(rep: &Report) -> Option<(String, Value)> {
    let path = rep.replay.as_ref()?;
    let v: Value = serde_json::from_slice(&std::fs::read(path).expect("replay file")).expect("json");
    let r = &v["replay"];
    let harness = r["harness"].as_str().or(r["model"]["harness"].as_str()).expect("harness").to_string();
    let mut cfg = r["model"]["config"].clone();
    cfg["stop_at"] = r["execution_index"].clone();
    Some((harness, cfg))
}

fn leak(s: String) -> &'static str {
    Box::leak(s.into_boxed_str())
}

pub fn run_property(p: &str) {
    match p {
        "C01" => c01(),
        "C04" => c04(),
        "C05" => c05(),
        "C09" => c09(),
        "C06" => c06(),
        "C13" => c13(),
        "C10" => c10(),
        "C17" => c17(),
        "C18" => c18(),
        "C20" => c20(),
        "C11" => c11(),
        other => {
            eprintln!("no loom models for {other}");
            std::process::exit(2)
        }
    }
}

fn finish(mut rep: Report, jobs: Vec<Job>, what: &str) -> ! {
    if let Some((harness, cfg)) = replay(&rep) {
        let totals = run_jobs(&mut rep, vec![Job { harness: leak(harness), cfg }]);
        println!("replayed: {} executions", totals.executions);
        rep.finish()
    }
    let totals = run_jobs(&mut rep, jobs);
    fill_report(&mut rep, &totals, what);
    rep.finish()
}

fn scripts(len: usize, full: bool) -> Vec<String> {
    // all result scripts over {o,v,i} when small, single-error scripts above
    let mut out = vec!["o".repeat(len)];
    if full {
        let mut all = vec![String::new()];
        for _ in 0..len {
            all = all.into_iter().flat_map(|s| ['o', 'v', 'i'].into_iter().map(move |c| format!("{s}{c}"))).collect();
        }
        out = all;
    } else {
        for i in 0..len {
            for c in ['v', 'i'] {
                let mut s: Vec<char> = "o".repeat(len).chars().collect();
                s[i] = c;
                out.push(s.into_iter().collect());
            }
        }
    }
    out
}

fn c01() {
    let rep = Report::from_args("C01", "model_checking");
    let tier = rep.tier;
    let pb = tier.pick(2, 3);
    let shapes: Vec<(usize, usize)> = match tier {
        Tier::Quick => vec![(1, 2), (2, 1), (2, 2), (3, 1)],
        Tier::Thorough => vec![(1, 2), (2, 1), (2, 2), (3, 1), (3, 2), (2, 3), (1, 4)],
    };
    let mut jobs = Vec::new();
    for (p, n) in shapes {
        // three producers, or more than four entries, are explored with one preemption less
        // (a single such model at bound 3 does not finish in 10 minutes)
        let big = p >= 3 || p * n > 4;
        let pb = if big && tier == Tier::Thorough { 2 } else { pb };
        for boxed in [false, true] {
            for flush in [false, true] {
                if big && tier == Tier::Thorough && boxed != flush {
                    continue;
                }
                let full = p * n <= tier.pick(2, 3);
                for script in scripts(p * n, full) {
                    // error scripts only on the typed, no-flush variant unless thorough
                    if script.contains(['v', 'i']) && (boxed || flush) && (tier == Tier::Quick || big) {
                        continue;
                    }
                    jobs.push(Job { harness: "c01", cfg: json!({"p": p, "n": n, "boxed": boxed, "flush": flush, "script": script, "pb": pb, "max_secs": 300}) });
                }
            }
        }
    }
    // two queues in one process: their writers share the process-global rate limiters
    for script in ["io", "vo", "ii", "vv", "iv"] {
        jobs.push(Job { harness: "c01_multi", cfg: json!({"queues": 2, "n": 2, "script": script, "pb": pb, "max_branches": 5000}) });
    }
    // clock jumps: the k-th clock read lands past the flush deadline
    let jumps: Vec<u64> = (0..tier.pick(8, 16)).collect();
    for k in jumps {
        jobs.push(Job { harness: "c01", cfg: json!({"p": 2, "n": 1, "boxed": false, "flush": k % 2 == 1, "script": "ov", "jump_k": k, "pb": pb}) });
    }
    // entries appended on the writer thread itself (from inside the stream's next)
    for boxed in [false, true] {
        for n in 1..=2 {
            jobs.push(Job { harness: "c01_writer_thread_append", cfg: json!({"n": n, "boxed": boxed, "pb": pb}) });
        }
    }
    for boxed in [false, true] {
        jobs.push(Job { harness: "c01_spawn_failure", cfg: json!({"boxed": boxed, "pb": 0}) });
    }
    finish(rep, jobs, "Every schedule (DPOR, preemption bound as configured) of P producer threads x n appends through typed/boxed handles against the real writer thread, for every stream-result script and clock-jump position listed.");
}

fn c04() {
    let rep = Report::from_args("C04", "model_checking");
    let tier = rep.tier;
    let pb = tier.pick(2, 3);
    let mut jobs = Vec::new();
    let mut add = |cfg: Value| jobs.push(Job { harness: "c04", cfg });
    for n in 1..=tier.pick(3, 4) {
        for after in 0..=n {
            add(json!({"mode": "self", "n": n, "after": after, "cap": 8, "pb": pb}));
        }
    }
    add(json!({"mode": "self", "n": 2, "after": 1, "cap": 8, "boxed": true, "pb": pb}));
    // overflow: entries appended before the request may be displaced
    for (cap, n) in [(1, 2), (1, 3), (2, 3)] {
        for after in 1..=n {
            add(json!({"mode": "self", "n": n, "after": after, "cap": cap, "pb": pb}));
        }
    }
    for n in 1..=tier.pick(2, 3) {
        add(json!({"mode": "separate", "n": n, "flushers": 1, "cap": 8, "pb": pb}));
    }
    add(json!({"mode": "separate", "n": 2, "flushers": 1, "cap": 8, "boxed": true, "pb": pb}));
    add(json!({"mode": "separate", "n": 2, "flushers": 1, "cap": 1, "pb": pb}));
    // two concurrent flush requests (expensive: bound 1 in quick)
    add(json!({"mode": "separate", "n": 1, "flushers": 2, "cap": 8, "pb": tier.pick(1, 2)}));
    for n in 0..=1 {
        add(json!({"mode": "after-shutdown", "n": n, "pb": pb}));
        add(json!({"mode": "after-shutdown", "n": n, "boxed": true, "pb": pb}));
    }
    // a request made on the live queue, still pending while the writer shuts down
    for n in 1..=2 {
        add(json!({"mode": "during-shutdown", "n": n, "cap": 8, "pb": pb}));
    }
    add(json!({"mode": "during-shutdown", "n": 1, "cap": 8, "boxed": true, "pb": pb}));
    add(json!({"mode": "during-shutdown", "n": 2, "cap": 1, "pb": pb}));
    for k in 0..tier.pick(4, 10) {
        add(json!({"mode": "during-shutdown", "n": 1, "cap": 8, "jump_k": k, "pb": pb}));
    }
    // the flush future is polled once with a throw-away waker before it is waited for
    add(json!({"mode": "self", "n": 1, "after": 1, "cap": 8, "probe_first": true, "pb": pb}));
    add(json!({"mode": "self", "n": 2, "after": 1, "cap": 8, "probe_first": true, "boxed": true, "pb": pb}));
    add(json!({"mode": "separate", "n": 1, "flushers": 1, "cap": 8, "probe_first": true, "pb": pb}));
    add(json!({"mode": "during-shutdown", "n": 1, "cap": 8, "probe_first": true, "pb": pb}));
    // the queue reports its own metrics to a recorder (the writer's idle-time accounting is live)
    add(json!({"mode": "self", "n": 1, "after": 1, "cap": 8, "recorder": true, "pb": pb}));
    add(json!({"mode": "self", "n": 2, "after": 1, "cap": 8, "recorder": true, "pb": pb}));
    add(json!({"mode": "separate", "n": 1, "flushers": 1, "cap": 8, "recorder": true, "pb": pb}));
    add(json!({"mode": "during-shutdown", "n": 1, "cap": 8, "recorder": true, "pb": pb}));
    // a flush requested by another thread while main drops the join handle
    for n in 1..=2 {
        add(json!({"mode": "request-by-another-thread-during-shutdown", "n": n, "cap": 8, "pb": pb}));
    }
    add(json!({"mode": "request-by-another-thread-during-shutdown", "n": 1, "cap": 8, "boxed": true, "pb": pb}));
    // the requester drops the only queue handle right after the request
    for n in 1..=2 {
        for boxed in [false, true] {
            add(json!({"mode": "last-handle-dropped", "n": n, "cap": 8, "boxed": boxed, "pb": pb}));
        }
    }
    for k in 0..tier.pick(10, 20) {
        add(json!({"mode": "self", "n": 2, "after": 1, "cap": 8, "jump_k": k, "pb": pb}));
        add(json!({"mode": "separate", "n": 1, "flushers": 1, "cap": 8, "jump_k": k, "pb": pb}));
    }
    // a burst of 40 entries and a second request arriving while the stream is flushed for the
    // first one, the next drain pass cut short by the deadline (clock jump at the k-th read)
    for k in 0..tier.pick(12, 24) {
        jobs.push(Job { harness: "c04_request_during_flush", cfg: json!({"burst": 40, "jump_k": k, "pb": 1, "max_branches": 20000}) });
    }
    jobs.push(Job { harness: "c04_request_during_flush", cfg: json!({"burst": 40, "pb": 1, "max_branches": 20000}) });
    // the same with a burst that overflows the queue (capacity 64, 96 entries: 32 displaced) while
    // the stream is flushed for the first request
    for k in 0..tier.pick(8, 24) {
        jobs.push(Job { harness: "c04_request_during_flush", cfg: json!({"burst": 96, "cap": 64, "jump_k": k, "pb": 1, "max_branches": 50000}) });
    }
    jobs.push(Job { harness: "c04_request_during_flush", cfg: json!({"burst": 96, "cap": 64, "pb": 1, "max_branches": 50000}) });
    finish(rep, jobs, "Every schedule (DPOR, preemption bound) of appends and flush requests (same thread, separate threads, two requesters, after shutdown, pending across the writer's shutdown, capacities 1/2/8, clock jump at every early clock read) against the real writer thread; the stream log is snapshotted inside the waker at the instant the flush future is completed and must already contain every entry appended before the request (or it was displaced) followed by a stream flush. A flush that never completes is a loom deadlock report.");
}

fn c05() {
    let rep = Report::from_args("C05", "model_checking");
    let tier = rep.tier;
    let pb = tier.pick(2, 3);
    let mut jobs = Vec::new();
    for (main_n, prod_n) in [(0, 1), (1, 1), (1, 2), (2, 1)] {
        for boxed in [false, true] {
            for shut_down in [false, true] {
                if shut_down && boxed && tier == Tier::Quick {
                    continue;
                }
                jobs.push(Job { harness: "c05_drop", cfg: json!({"main_n": main_n, "prod_n": prod_n, "boxed": boxed, "shut_down": shut_down, "pb": pb}) });
            }
        }
    }
    jobs.push(Job { harness: "c05_drop", cfg: json!({"main_n": 2, "prod_n": 1, "boxed": true, "flush_first": true, "clone_drop": true, "pb": pb}) });
    jobs.push(Job { harness: "c05_drop", cfg: json!({"main_n": 1, "prod_n": 1, "flush_first": true, "pb": pb}) });
    // the handle is dropped by the unwinding of its owner's panic
    for boxed in [false, true] {
        for late_n in 0..=2 {
            jobs.push(Job { harness: "c05_drop", cfg: json!({"main_n": 1, "prod_n": 0, "late_n": late_n, "boxed": boxed, "unwinding": true, "pb": 0}) });
        }
    }
    for k in 0..tier.pick(8, 16) {
        // periodic-flush deadline (2 s) or the 30 s shutdown timeout expiring at the k-th clock read
        jobs.push(Job { harness: "c05_drop", cfg: json!({"main_n": 1, "prod_n": 1, "jump_k": k, "jump_secs": 2, "pb": pb}) });
        jobs.push(Job { harness: "c05_drop", cfg: json!({"main_n": 1, "prod_n": 1, "jump_k": k, "jump_secs": 40, "pb": pb}) });
    }
    // a producer that does not stop (horizon: 200 refills, 8 s of writer time per entry)
    let ks: Vec<u64> = if tier == Tier::Quick { vec![0, 1, 31, 32, 33, 64] } else { (0..=70).collect() };
    for k in ks {
        jobs.push(Job { harness: "c05_busy_producer", cfg: json!({"k": k, "prefill": 40, "refills": 200, "horizon": 100, "pb": 0, "max_branches": 200000}) });
    }
    for (main_n, prod_n) in [(1, 0), (1, 1), (0, 2), (2, 1)] {
        for boxed in [false, true] {
            jobs.push(Job { harness: "c05_forget", cfg: json!({"main_n": main_n, "prod_n": prod_n, "boxed": boxed, "pb": pb}) });
        }
    }
    for boxed in [false, true] {
        jobs.push(Job { harness: "c05_forget", cfg: json!({"main_n": 1, "prod_n": 1, "boxed": boxed, "concurrent_drop": true, "pb": pb}) });
        for how in ["drop", "into_entry", "forget"] {
            jobs.push(Job { harness: "c05_forget", cfg: json!({"main_n": 1, "prod_n": 0, "boxed": boxed, "guard": how, "pb": pb}) });
        }
    }
    finish(rep, jobs, "Histories of append / clone / drop-clone / flush / drop-handle (also by a panic's unwinding) / shut_down / forget on typed and boxed queues with a producer thread racing the shutdown, all schedules within the preemption bound: at the return of drop(handle) the stream log holds every entry appended before the drop began, then a flush, then the stream's Drop, and nothing is written afterwards; on the forget path the stream is drained, flushed and dropped and the writer thread exits within 3 fake flush intervals after the last handle is gone.");
}

fn c09() {
    let rep = Report::from_args("C09", "model_checking");
    let tier = rep.tier;
    let pb = tier.pick(2, 3);
    let mut jobs = Vec::new();
    for cap in 1..=3u64 {
        for extra in 1..=tier.pick(2u64, 3) {
            for early in 0..=tier.pick(1u64, 2) {
                jobs.push(Job { harness: "c09", cfg: json!({"cap": cap, "p": 1, "n": cap + extra, "early_permits": early, "pb": pb}) });
            }
        }
    }
    for cap in 1..=2u64 {
        for early in 0..=1u64 {
            jobs.push(Job { harness: "c09", cfg: json!({"cap": cap, "p": 2, "n": 2, "early_permits": early, "pb": pb}) });
        }
    }
    // free-running writer: overflow events interleave with the writer's pops, flushes and reports
    for (cap, n) in [(1u64, 2u64), (1, 3), (2, 3)] {
        jobs.push(Job { harness: "c09", cfg: json!({"cap": cap, "p": 1, "n": n, "free": true, "pb": pb}) });
    }
    jobs.push(Job { harness: "c09", cfg: json!({"cap": 1, "p": 2, "n": 1, "free": true, "pb": pb}) });
    if tier == Tier::Thorough {
        jobs.push(Job { harness: "c09", cfg: json!({"cap": 2, "p": 2, "n": 3, "early_permits": 1, "pb": 1, "max_secs": 300}) });
        jobs.push(Job { harness: "c09", cfg: json!({"cap": 1, "p": 3, "n": 1, "early_permits": 0, "pb": 2, "max_secs": 300}) });
    }
    jobs.push(Job { harness: "c09_last_handle_in_flush", cfg: json!({"pb": pb}) });
    finish(rep, jobs, "Capacities 1..3, one or two producers appending more entries than fit, a writer whose stream blocks on a gate with 0/1/2 early permits (0 = completely stalled): every append returns in every schedule (a blocking append is a loom deadlock), survivors are in append order, an entry is lost only if at least `capacity` newer entries exist, the newest `capacity` entries of a single producer always survive, and the metrique_queue_overflows counter equals the number of discarded entries.");
}

fn c06() {
    let rep = Report::from_args("C06", "model_checking");
    let tier = rep.tier;
    // few synchronisation points per object: the preemption bound can be generous
    let pb = tier.pick(3, 5);
    let mut jobs = Vec::new();
    let mut add = |cfg: Value| jobs.push(Job { harness: "c06", cfg });
    let placements: Vec<Vec<Vec<&str>>> = vec![
        vec![vec!["owner"], vec!["g1"]],
        vec![vec!["owner"], vec!["f1"]],
        vec![vec!["owner"], vec!["g1"], vec!["f1"]],
        vec![vec!["owner"], vec!["g1"], vec!["g2"]],
        vec![vec!["owner"], vec!["f1"], vec!["f2"]],
        vec![vec!["owner", "g1"], vec!["f1"]],
        vec![vec!["g1", "owner"], vec!["f1"]],
        vec![vec!["owner"], vec!["g1", "f1"]],
        vec![vec!["owner"], vec!["f1", "g1"]],
        vec![vec!["h1"], vec!["h2"]],
        vec![vec!["h1"], vec!["h2"], vec!["g1"]],
        vec![vec!["h1"], vec!["h2"], vec!["f1"]],
        vec![vec!["h1", "g1"], vec!["h2", "f1"]],
        vec![vec!["owner"], vec!["g1"], vec!["g2"], vec!["f1"]],
        vec![vec!["h1"], vec!["h2"], vec!["g1"], vec!["f1"]],
    ];
    for p in &placements {
        // four concurrent droppers are expensive: one preemption less there
        let pb = if p.len() >= 4 { tier.pick(pb - 1, 3) } else { pb };
        add(json!({"threads": p, "pb": pb}));
    }
    // prefixes dropped by main first (non-initial states), incl. a guard created after a force drop
    add(json!({"pre": ["owner"], "threads": [["g1"], ["f1"]], "pb": pb}));
    add(json!({"pre": ["owner"], "threads": [["g1"], ["g2"]], "pb": pb}));
    add(json!({"pre": ["f1"], "threads": [["owner"], ["g1"]], "pb": pb}));
    add(json!({"pre": ["f1"], "late_guard": true, "threads": [["owner"], ["g2"]], "pb": pb}));
    add(json!({"pre": ["f1"], "late_guard": true, "threads": [["owner"], ["g2"], ["g1"]], "pb": pb}));
    add(json!({"pre": ["g1"], "threads": [["owner"], ["f1"]], "pb": pb}));
    // objects main keeps alive until the threads are joined: "at the moment" (the entry must be
    // appended although a flush guard is still outstanding), and drops that must change nothing
    add(json!({"hold": ["g1"], "threads": [["owner"], ["f1"]], "pb": pb}));
    // the held flush guard is Debug-formatted by another thread while the drops run
    add(json!({"hold": ["g1"], "format": "g1", "threads": [["owner"], ["f1"]], "pb": pb}));
    add(json!({"hold": ["g1"], "format": "g1", "threads": [["owner", "f1"]], "pb": pb}));
    add(json!({"hold": ["g1"], "threads": [["h1"], ["h2"], ["f1"]], "pb": pb}));
    add(json!({"hold": ["g1", "f2"], "threads": [["owner"], ["f1"]], "pb": pb}));
    add(json!({"hold": ["f1"], "threads": [["owner"], ["g1"]], "pb": pb}));
    add(json!({"hold": ["g1"], "pre": ["f2"], "threads": [["owner"], ["f1"]], "pb": pb}));
    finish(rep, jobs, "Owner / cloned handles / flush guards / force-flush guards of one real AppendAndCloseOnDrop distributed over 2-4 threads (every listed placement, with and without a sequential prefix), all schedules within the preemption bound: the sink records the set of drops that had started at the instant of append; exactly one append, never before owner and handles are gone and (all guards gone or a force guard gone), appended by the time the drops that make it due have returned (also with a flush guard still held by main), carrying the owner's last mutation.");
}

fn c13() {
    let rep = Report::from_args("C13", "model_checking");
    let tier = rep.tier;
    let pb = tier.pick(3, 5);
    let mut jobs = Vec::new();
    for mode in ["wait", "discard"] {
        for lazy in [false, true] {
            for force in [false, true] {
                for order in ["concurrent", "guard-first", "parent-first"] {
                    jobs.push(Job { harness: "c13", cfg: json!({"mode": mode, "lazy": lazy, "force": force, "order": order, "pb": pb}) });
                }
            }
        }
        for force in [false, true] {
            jobs.push(Job { harness: "c13", cfg: json!({"mode": mode, "both_slots": true, "force": force, "order": "concurrent", "pb": pb}) });
        }
    }
    finish(rep, jobs, "Parent drop, slot-guard drop (Slot and LazySlot, one or both per entry, wait and discard mode) and an optional force-flush-guard drop on separate threads, all schedules within the preemption bound: exactly one append; in wait mode without a force guard the value is present, as last mutated, and the append happens after the guard's drop began; in discard mode a present value is never stale and never from a guard whose drop had not begun; the parent's own field is unaffected; a slot opens at most once.");
}

fn c10() {
    let rep = Report::from_args("C10", "model_checking");
    let tier = rep.tier;
    let pb = tier.pick(2, 3);
    let mut jobs = Vec::new();
    let mut add = |cfg: Value| jobs.push(Job { harness: "c10", cfg });
    // producers x sends (same key = forced collision, different keys), main sends + awaited flush
    add(json!({"producers": [[["a", 1]]], "main": [], "pb": pb}));
    add(json!({"producers": [[["a", 1], ["a", 2]]], "main": [], "pb": pb}));
    add(json!({"producers": [[["a", 1]], [["a", 5]]], "main": [], "pb": pb}));
    add(json!({"producers": [[["a", 1]], [["b", 5]]], "main": [], "pb": pb}));
    add(json!({"producers": [[["a", 1], ["b", 3]], [["a", 5]]], "main": [], "pb": pb}));
    add(json!({"producers": [], "main": [["a", 2], ["b", 1]], "flush": true, "pb": pb}));
    add(json!({"producers": [[["a", 1]]], "main": [["a", 2]], "flush": true, "pb": pb}));
    add(json!({"producers": [[["a", 1]]], "main": [["b", 2]], "flush": true, "pb": pb}));
    add(json!({"producers": [[["a", 1], ["a", 3]]], "main": [["a", 2]], "flush": true, "pb": pb}));
    // an abandoned flush request (polled once, dropped), then one more entry and an awaited flush
    add(json!({"producers": [], "main": [["a", 2]], "flush": true, "cancelled_flush": true, "pb": pb}));
    add(json!({"producers": [[["a", 1]]], "main": [["b", 2]], "flush": false, "cancelled_flush": true, "pb": pb}));
    // overlapping flush requests: another thread's flush is in flight when main flushes
    add(json!({"producers": [], "main": [["a", 2]], "flush": true, "flushers": 1, "pb": pb}));
    add(json!({"producers": [[["a", 1]]], "main": [["a", 2]], "flush": true, "flushers": 1, "pb": pb}));
    if tier == Tier::Thorough {
        add(json!({"producers": [], "main": [["a", 2], ["b", 1]], "flush": true, "flushers": 2, "pb": 2}));
        add(json!({"producers": [[["a", 1]], [["b", 5]]], "main": [["a", 2]], "flush": true, "pb": 2}));
        add(json!({"producers": [[["a", 1], ["b", 1]], [["a", 5], ["b", 5]]], "main": [], "pb": 2}));
    }
    // the timed flush: the k-th clock read lands past the flush interval
    for k in 0..tier.pick(8, 16) {
        add(json!({"producers": [[["a", 1], ["a", 2]]], "main": [["a", 4]], "flush": k % 2 == 0, "jump_k": k, "pb": pb}));
    }
    // the last handle travels in the queue and is dropped by the worker thread itself
    for extra in 0..=1 {
        jobs.push(Job { harness: "c10_last_handle_on_worker", cfg: json!({"extra": extra, "pb": pb}) });
    }
    // MutexSink: merges through clones racing the close
    let mut jobs2 = Vec::new();
    for mergers in [json!([[1]]), json!([[1, 2]]), json!([[1], [4]]), json!([[1, 2], [4]])] {
        for join_first in [false, true] {
            jobs2.push(Job { harness: "c10_mutex", cfg: json!({"mergers": mergers, "join_first": join_first, "pb": pb + 1}) });
        }
    }
    jobs.extend(jobs2);
    finish(rep, jobs, "MutexSink: merges through clones on 1-2 threads racing close() (everything whose merge returned before the close began is in the closed aggregate, nothing twice). The real WorkerSink thread over a real KeyedAggregator with 1-2 producer threads x 1-2 sends (colliding and distinct keys), an awaited flush on the main thread, the timed flush expiring at every early clock read, and the drop of the last handle, all schedules within the preemption bound: a completed flush has emitted everything sent before it by that thread; across all emitted aggregates every input is counted exactly once per key (count and weight sums); after the last handle is dropped the worker emits what it holds, drops the aggregator and exits within 3 fake flush intervals (a spinning worker is reported as a livelock).");
}

fn c17() {
    let rep = Report::from_args("C17", "model_checking");
    let tier = rep.tier;
    let pb = tier.pick(3, 4);
    let mut jobs = Vec::new();
    for appenders in 1..=tier.pick(2u64, 3) {
        for per in 1..=2u64 {
            for reattach in [false, true] {
                if appenders == 3 && per == 2 {
                    continue;
                }
                jobs.push(Job { harness: "c17", cfg: json!({"appenders": appenders, "per": per, "reattach": reattach, "pb": pb}) });
            }
        }
    }
    for (appenders, per) in [(1u64, 1u64), (1, 2), (2, 1)] {
        jobs.push(Job { harness: "c17", cfg: json!({"appenders": appenders, "per": per, "background": true, "pb": 2}) });
    }
    jobs.push(Job { harness: "c17_attach", cfg: json!({"pb": pb}) });
    finish(rep, jobs, "Two threads attaching at the same moment (exactly one handle, the other call panics, the winner's sink stays attached until its own handle is dropped). try_append from 1-3 threads racing the drop of the attach handle (and a re-attach of a second sink), with a recording sink whose handle marks it closed on drop and with a real background queue as the attached sink, all schedules within the preemption bound: every entry is either handed back unchanged or accepted by exactly one sink before that sink was closed; with a background queue every accepted entry reaches the stream and the detach drains, flushes and closes it; afterwards the global is detached.");
}

fn c20() {
    let rep = Report::from_args("C20", "model_checking");
    let tier = rep.tier;
    let pb = tier.pick(3, 4);
    let mut jobs = Vec::new();
    let mut add = |cfg: Value| jobs.push(Job { harness: "c20", cfg });
    for readouts in 1..=2u64 {
        // shared key, distinct keys, mixed kinds
        add(json!({"updaters": [[["c", "x", 1]], [["c", "x", 4]]], "readouts": readouts, "pb": pb}));
        add(json!({"updaters": [[["c", "x", 1], ["c", "x", 2]], [["c", "x", 4]]], "readouts": readouts, "pb": pb}));
        add(json!({"updaters": [[["c", "x", 1], ["c", "w", 2]], [["c", "w", 4], ["c", "x", 8]]], "readouts": readouts, "pb": pb}));
        add(json!({"updaters": [[["h", "y", 5], ["h", "y", 9]], [["h", "y", 1000]]], "readouts": readouts, "pb": pb}));
        add(json!({"updaters": [[["g", "z", 3], ["g", "z", 7]]], "readouts": readouts, "pb": pb}));
        add(json!({"updaters": [[["g", "z", 3]], [["g", "z", 7]]], "readouts": readouts, "pb": pb}));
        add(json!({"updaters": [[["c", "x", 1], ["h", "y", 5]], [["g", "z", 3], ["h", "y", 9]]], "readouts": readouts, "pb": pb}));
        // (registering a key for the first time concurrently with a readout is not modelled: the
        // registry's own shard locks are invisible to loom, which would then see an atomic created
        // on one thread and read on another without a happens-before edge)
    }
    if tier == Tier::Thorough {
        add(json!({"updaters": [[["c", "x", 1]], [["c", "x", 2]], [["c", "x", 4]]], "readouts": 2, "pb": 3}));
        add(json!({"updaters": [[["c", "x", 1], ["h", "y", 5], ["g", "z", 1]], [["c", "x", 2], ["h", "y", 6], ["g", "z", 2]]], "readouts": 3, "pb": 3}));
    }
    add(json!({"pb": pb}));
    let n = jobs.len();
    jobs[n - 1].harness = "c20_describe";
    for kind in ["c", "h"] {
        for readouts in 1..=2u64 {
            jobs.push(Job { harness: "c20_describe_vs_readout", cfg: json!({"kind": kind, "readouts": readouts, "pb": pb}) });
        }
    }
    finish(rep, jobs, "Two threads describing (and incrementing) their own metric at the same moment: the readout writes both with the described unit. 1-3 updater threads x 1-3 operations (counter increments on shared and distinct keys, histogram records, gauge sets; handles registered up front or on first use) against 1-3 readouts on the main thread plus a final readout, all schedules within the preemption bound, counters and gauges on loom atomics: per key the reported counter deltas sum to the total incremented, histogram occurrences sum to the number of records, the gauge reports the last value set.");
}

fn c11() {
    let rep = Report::from_args("C11", "model_checking");
    let tier = rep.tier;
    let pb = tier.pick(3, 4);
    let mut jobs = Vec::new();
    for adders in [json!([[5], [900]]), json!([[5, 40], [900]]), json!([[5], [5]]), json!([[5], [900], [70000]]), json!([[5, 5], [40, 900]])] {
        jobs.push(Job { harness: "c11_shared", cfg: json!({"adders": adders, "pb": pb}) });
    }
    finish(rep, jobs, "2-3 threads recording 1-2 values each into ONE fresh SharedHistogram (so the first records race), all schedules within the preemption bound, record/drain of the atomic strategy as marked steps and every std::sync primitive of histogram.rs scheduler-visible: the closed histogram counts every observation exactly once and reports each within 6.25%.");
}

fn c18() {
    let rep = Report::from_args("C18", "model_checking");
    let tier = rep.tier;
    let pb = tier.pick(2, 3);
    let mut jobs = Vec::new();
    let ends = ["stop", "drop", "discard", "overwrite"];
    // two owned guards ended on two threads, main idle / clearing the stopwatch meanwhile
    for a in ends {
        for b in ends {
            for main in ["none", "clear"] {
                for prior in [false, true] {
                    jobs.push(Job { harness: "c18_owned", cfg: json!({"ends": [a, b], "main": main, "prior": prior, "pb": pb}) });
                }
            }
        }
    }
    // three guards on three threads
    let three: &[[&str; 3]] = if tier == Tier::Quick { &[["stop", "drop", "stop"], ["drop", "overwrite", "drop"]] } else { &[["stop", "drop", "stop"], ["drop", "overwrite", "drop"], ["stop", "discard", "overwrite"], ["overwrite", "overwrite", "stop"]] };
    for e in three {
        for main in ["none", "clear"] {
            jobs.push(Job { harness: "c18_owned", cfg: json!({"ends": e, "main": main, "prior": true, "pb": tier.pick(1, 2)}) });
        }
    }
    finish(rep, jobs, "Owned guards of one stopwatch (2 or 3, started at different times on a manually advanced time source) ended on their own threads by stop / drop / discard / overwrite while the owner does nothing or clears the stopwatch, with and without a span loaded before; all schedules within the preemption bound (the shared total's mutex and reference count are loom-visible): the closed value must be the result of some interleaving of the operations' documented steps (add span; nothing; clear then add; clear), and stop() returns the guard's own span.");
}
