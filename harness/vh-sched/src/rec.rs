//! Harness objects: tagged entries, a recording / scripted / gateable `EntryIoStream`.
//!
//! Every callback the code under test makes into these objects starts with a loom-visible
//! shadow access (otherwise the window before it would never be explored); the logs the
//! oracle reads are plain `std` state so observing adds no scheduling points.

use metrique_writer_core::__verif::shadow::Shadow;
use metrique_writer_core::__verif::sync::Arc as LArc;
use metrique_writer_core::__verif::sync::{Condvar as LCondvar, Mutex as LMutex};
use metrique_writer_core::{
    Entry, EntryConfig, EntryIoStream, EntryWriter, IoStreamError, MetricFlags, Observation,
    Unit, ValidationError, Value, ValueWriter,
};
use std::borrow::Cow;
use std::collections::BTreeMap;
use std::io;
use std::sync::{Arc, Mutex};
use std::time::SystemTime;

/// entry appended by producer `p` as its `seq`-th entry
#[derive(Clone, Copy, Debug, PartialEq, Eq, PartialOrd, Ord, Hash)]
pub struct Tag {
    pub p: u8,
    pub seq: u8,
}

impl Tag {
    pub fn code(self) -> u64 {
        self.p as u64 * 100 + self.seq as u64
    }
    pub fn from_code(c: u64) -> Tag {
        Tag {
            p: (c / 100) as u8,
            seq: (c % 100) as u8,
        }
    }
}

impl std::fmt::Display for Tag {
    fn fmt(&self, f: &mut std::fmt::Formatter<'_>) -> std::fmt::Result {
        write!(f, "{}.{}", self.p, self.seq)
    }
}

#[derive(Debug)]
pub struct TaggedEntry(pub Tag);

impl Entry for TaggedEntry {
    fn write<'a>(&'a self, w: &mut impl EntryWriter<'a>) {
        w.value("tag", &self.0.code());
    }
}

/// What the stream saw in an entry.
#[derive(Clone, Debug, PartialEq, Eq, PartialOrd, Ord, Hash)]
pub enum Seen {
    Tagged(Tag),
    /// the queue's in-band error report entry
    Report,
    Other(String),
}

struct TagReader {
    seen: Option<Seen>,
}

struct TagValue<'r> {
    name: String,
    out: &'r mut Option<Seen>,
}

impl ValueWriter for TagValue<'_> {
    fn string(self, value: &str) {
        *self.out = Some(if self.name == "MetriqueValidationError" {
            Seen::Report
        } else {
            Seen::Other(format!("{}={value}", self.name))
        });
    }
    fn metric<'a>(
        self,
        distribution: impl IntoIterator<Item = Observation>,
        _unit: Unit,
        _dimensions: impl IntoIterator<Item = (&'a str, &'a str)>,
        _flags: MetricFlags<'_>,
    ) {
        let obs: Vec<Observation> = distribution.into_iter().collect();
        *self.out = Some(match (self.name.as_str(), obs.as_slice()) {
            ("tag", [Observation::Unsigned(c)]) => Seen::Tagged(Tag::from_code(*c)),
            _ => Seen::Other(format!("{}={obs:?}", self.name)),
        });
    }
    fn error(self, _error: ValidationError) {
        *self.out = Some(Seen::Other(format!("{}=<error>", self.name)));
    }
}

impl<'a> EntryWriter<'a> for TagReader {
    fn timestamp(&mut self, _t: SystemTime) {}
    fn value(&mut self, name: impl Into<Cow<'a, str>>, value: &(impl Value + ?Sized)) {
        let name: Cow<'a, str> = name.into();
        value.write(TagValue {
            name: name.into_owned(),
            out: &mut self.seen,
        });
    }
    fn config(&mut self, _config: &'a dyn EntryConfig) {}
}

pub fn read_entry(e: &impl Entry) -> Seen {
    let mut r = TagReader { seen: None };
    e.write(&mut r);
    r.seen.unwrap_or(Seen::Other("<empty>".into()))
}

#[derive(Clone, Copy, Debug, PartialEq, Eq, PartialOrd, Ord, Hash)]
pub enum Res {
    Ok,
    Validation,
    Io,
}

impl Res {
    pub fn letter(self) -> char {
        match self {
            Res::Ok => 'o',
            Res::Validation => 'v',
            Res::Io => 'i',
        }
    }
}

#[derive(Clone, Debug, PartialEq, Eq, PartialOrd, Ord, Hash)]
pub enum Ev {
    Next(Seen, Res),
    Flush,
    Dropped,
}

pub type Log = Arc<Mutex<Vec<Ev>>>;

pub fn log_string(log: &[Ev]) -> String {
    let mut s = String::new();
    for e in log {
        match e {
            Ev::Next(Seen::Tagged(t), r) => s.push_str(&format!("{t}{} ", r.letter())),
            Ev::Next(Seen::Report, _) => s.push_str("R "),
            Ev::Next(Seen::Other(o), _) => s.push_str(&format!("?{o} ")),
            Ev::Flush => s.push_str("F "),
            Ev::Dropped => s.push_str("D "),
        }
    }
    s
}

/// A gate the harness opens `k` times: `pass()` blocks until a permit is available.
pub struct Gate {
    permits: LMutex<usize>,
    cv: LCondvar,
}

impl Gate {
    pub fn new(permits: usize) -> LArc<Gate> {
        LArc::new(Gate {
            permits: LMutex::new(permits),
            cv: LCondvar::new(),
        })
    }
    pub fn pass(&self) {
        let mut g = self.permits.lock().unwrap_or_else(|e| e.into_inner());
        while *g == 0 {
            g = self.cv.wait(g).unwrap();
        }
        *g -= 1;
    }
    pub fn grant(&self, n: usize) {
        *self.permits.lock().unwrap_or_else(|e| e.into_inner()) += n;
        self.cv.notify_all();
    }
}

/// Recording stream; per-entry results come from `script` (by tag), default Ok.
pub struct RecStream {
    pub log: Log,
    pub shadow: LArc<Shadow>,
    pub script: BTreeMap<Tag, Res>,
    pub flush_error: bool,
    /// if set, every `next` first takes a permit
    pub gate: Option<LArc<Gate>>,
    /// harness code that runs on the writer thread inside `next` (after the entry was logged) /
    /// inside `flush` (argument: index of this flush call); it runs after the stream's own
    /// visible step, as the "harness callbacks are visible steps" rule requires
    pub on_next: Option<Box<dyn FnMut(&Seen) + Send>>,
    pub on_flush: Option<Box<dyn FnMut(usize) + Send>>,
    pub flushes: usize,
}

impl RecStream {
    pub fn new(script: BTreeMap<Tag, Res>) -> (RecStream, Log) {
        let log: Log = Arc::new(Mutex::new(Vec::new()));
        (
            RecStream {
                log: log.clone(),
                shadow: LArc::new(Shadow::new()),
                script,
                flush_error: false,
                gate: None,
                on_next: None,
                on_flush: None,
                flushes: 0,
            },
            log,
        )
    }
}

impl EntryIoStream for RecStream {
    fn next(&mut self, entry: &impl Entry) -> Result<(), IoStreamError> {
        if let Some(g) = &self.gate {
            g.pass();
        }
        self.shadow.touch();
        let seen = read_entry(entry);
        let res = match &seen {
            Seen::Tagged(t) => self.script.get(t).copied().unwrap_or(Res::Ok),
            _ => Res::Ok,
        };
        self.log.lock().unwrap_or_else(|e| e.into_inner()).push(Ev::Next(seen.clone(), res));
        if let Some(f) = &mut self.on_next {
            f(&seen);
        }
        match res {
            Res::Ok => Ok(()),
            Res::Validation => Err(IoStreamError::Validation(ValidationError::invalid(
                "scripted validation error",
            ))),
            Res::Io => {
                // the kind varies with the entry (the queue treats all kinds alike, also those
                // that elsewhere invite a retry)
                let k = match &seen {
                    Seen::Tagged(t) => (t.p as usize + t.seq as usize) % 3,
                    _ => 0,
                };
                Err(IoStreamError::Io(io::Error::new([io::ErrorKind::WouldBlock, io::ErrorKind::Other, io::ErrorKind::Interrupted][k], "scripted io error")))
            }
        }
    }

    fn flush(&mut self) -> io::Result<()> {
        self.shadow.touch();
        self.log.lock().unwrap_or_else(|e| e.into_inner()).push(Ev::Flush);
        let idx = self.flushes;
        self.flushes += 1;
        if let Some(f) = &mut self.on_flush {
            f(idx);
        }
        if self.flush_error {
            Err(io::Error::other("scripted flush error"))
        } else {
            Ok(())
        }
    }
}

impl Drop for RecStream {
    fn drop(&mut self) {
        self.shadow.touch();
        self.log.lock().unwrap_or_else(|e| e.into_inner()).push(Ev::Dropped);
        // observers waiting on the fake clock's monitor re-evaluate their condition
        metrique_writer_core::__verif::time::poke();
    }
}

// ------------------------------------------------------------------------------------------
// polling a future with a waker that snapshots the stream log at the instant it is woken

/// set per model (one model per process): `wait_with_snapshot` probes the future once with
/// another waker before it waits with its own
pub static PROBE_FIRST: std::sync::atomic::AtomicBool = std::sync::atomic::AtomicBool::new(false);

pub struct SnapWaker {
    shadow: Shadow,
    log: Log,
    pub snapshot: Mutex<Option<Vec<Ev>>>,
    woken: LMutex<bool>,
    cv: LCondvar,
}

impl std::task::Wake for SnapWaker {
    fn wake(self: Arc<Self>) {
        self.wake_by_ref()
    }
    fn wake_by_ref(self: &Arc<Self>) {
        // runs on the thread that completes the future (the writer thread)
        self.shadow.touch();
        let snap = self.log.lock().unwrap_or_else(|e| e.into_inner()).clone();
        let mut s = self.snapshot.lock().unwrap_or_else(|e| e.into_inner());
        if s.is_none() {
            *s = Some(snap);
        }
        drop(s);
        *self.woken.lock().unwrap_or_else(|e| e.into_inner()) = true;
        self.cv.notify_all();
    }
}

/// Polls `fut` to completion; returns the stream log as it was when completion was signalled
/// (at the wake, or at the poll that found it ready).
pub fn wait_with_snapshot<F: std::future::Future>(fut: F, log: &Log) -> (F::Output, Vec<Ev>) {
    let w = Arc::new(SnapWaker {
        shadow: Shadow::new(),
        log: log.clone(),
        snapshot: Mutex::new(None),
        woken: LMutex::new(false),
        cv: LCondvar::new(),
    });
    let waker = std::task::Waker::from(w.clone());
    let mut cx = std::task::Context::from_waker(&waker);
    let mut fut = std::pin::pin!(fut);
    if PROBE_FIRST.load(std::sync::atomic::Ordering::Relaxed) {
        // the future is first polled once with a throw-away waker (a `now_or_never`-style probe, or
        // the task it later moves away from); the waker of the LAST poll is the one to wake
        let mut probe_cx = std::task::Context::from_waker(std::task::Waker::noop());
        if let std::task::Poll::Ready(v) = fut.as_mut().poll(&mut probe_cx) {
            let snap = log.lock().unwrap_or_else(|e| e.into_inner()).clone();
            return (v, snap);
        }
    }
    loop {
        match fut.as_mut().poll(&mut cx) {
            std::task::Poll::Ready(v) => {
                let snap = w
                    .snapshot
                    .lock()
                    .unwrap()
                    .take()
                    .unwrap_or_else(|| log.lock().unwrap_or_else(|e| e.into_inner()).clone());
                return (v, snap);
            }
            std::task::Poll::Pending => {
                let mut g = w.woken.lock().unwrap_or_else(|e| e.into_inner());
                while !*g {
                    g = w.cv.wait(g).unwrap();
                }
                *g = false;
            }
        }
    }
}

/// "append returned" bookkeeping shared by producers and observers (plain std state: the push
/// is glued to the end of the append, the read to the observer's next visible step).
#[derive(Clone, Default)]
pub struct Returned(pub Arc<Mutex<Vec<Tag>>>);

impl Returned {
    pub fn push(&self, t: Tag) {
        self.0.lock().unwrap_or_else(|e| e.into_inner()).push(t);
    }
    pub fn get(&self) -> Vec<Tag> {
        self.0.lock().unwrap_or_else(|e| e.into_inner()).clone()
    }
}

/// Harness bookkeeping that one thread writes and another reads to decide what "had already
/// happened": both sides touch a shared loom-visible marker, otherwise the read would be glued
/// to the reader's previous visible step and DPOR would never order it after the writes.
pub struct Visible<T> {
    shadow: LArc<Shadow>,
    data: Arc<Mutex<T>>,
}

impl<T> Clone for Visible<T> {
    fn clone(&self) -> Self {
        Visible { shadow: self.shadow.clone(), data: self.data.clone() }
    }
}

impl<T: Clone + Default> Visible<T> {
    pub fn new() -> Self {
        Visible { shadow: LArc::new(Shadow::new()), data: Arc::new(Mutex::new(T::default())) }
    }
    pub fn update(&self, f: impl FnOnce(&mut T)) {
        self.shadow.touch();
        f(&mut self.data.lock().unwrap_or_else(|e| e.into_inner()));
    }
    pub fn read(&self) -> T {
        self.shadow.touch();
        self.data.lock().unwrap_or_else(|e| e.into_inner()).clone()
    }
    /// read without a scheduling point (for the oracle at the end of an execution)
    pub fn peek(&self) -> T {
        self.data.lock().unwrap_or_else(|e| e.into_inner()).clone()
    }
}

// ------------------------------------------------------------------------------------------
// a metrics recorder that counts counter increments by name

#[derive(Default)]
pub struct CountingRecorder {
    pub counts: Arc<Mutex<BTreeMap<String, u64>>>,
    shadow: Option<LArc<Shadow>>,
}

impl CountingRecorder {
    pub fn new() -> (CountingRecorder, Arc<Mutex<BTreeMap<String, u64>>>) {
        let counts = Arc::new(Mutex::new(BTreeMap::new()));
        (
            CountingRecorder {
                counts: counts.clone(),
                shadow: Some(LArc::new(Shadow::new())),
            },
            counts,
        )
    }
}

struct CounterCell {
    name: String,
    counts: Arc<Mutex<BTreeMap<String, u64>>>,
    shadow: Option<LArc<Shadow>>,
}

impl metrics_024::CounterFn for CounterCell {
    fn increment(&self, value: u64) {
        if let Some(s) = &self.shadow {
            s.touch();
        }
        *self.counts.lock().unwrap_or_else(|e| e.into_inner()).entry(self.name.clone()).or_default() += value;
    }
    fn absolute(&self, value: u64) {
        self.counts.lock().unwrap_or_else(|e| e.into_inner()).insert(self.name.clone(), value);
    }
}

impl metrics_024::Recorder for CountingRecorder {
    fn describe_counter(&self, _: metrics_024::KeyName, _: Option<metrics_024::Unit>, _: metrics_024::SharedString) {}
    fn describe_gauge(&self, _: metrics_024::KeyName, _: Option<metrics_024::Unit>, _: metrics_024::SharedString) {}
    fn describe_histogram(&self, _: metrics_024::KeyName, _: Option<metrics_024::Unit>, _: metrics_024::SharedString) {}
    fn register_counter(&self, key: &metrics_024::Key, _: &metrics_024::Metadata<'_>) -> metrics_024::Counter {
        metrics_024::Counter::from_arc(Arc::new(CounterCell {
            name: key.name().to_string(),
            counts: self.counts.clone(),
            shadow: self.shadow.clone(),
        }))
    }
    fn register_gauge(&self, _: &metrics_024::Key, _: &metrics_024::Metadata<'_>) -> metrics_024::Gauge {
        metrics_024::Gauge::noop()
    }
    fn register_histogram(&self, _: &metrics_024::Key, _: &metrics_024::Metadata<'_>) -> metrics_024::Histogram {
        metrics_024::Histogram::noop()
    }
}
