//! Running one loom model (one configuration) inside a child process.
//!
//! The child counts executions and distinct observed outcomes with plain `std` state that
//! lives outside the model, records the first violation to `$VH_OUT` *before* leaving the
//! model (a failing loom execution can abort the process) and prints one `STATS {json}` line.

use metrique_writer_core::__verif::loom;
use metrique_writer_core::__verif::time as vtime;
use serde_json::{Value, json};
use std::collections::BTreeSet;
use std::sync::Mutex;
use std::sync::atomic::{AtomicU64, Ordering};
use std::time::{Duration, Instant};

pub static EXECUTIONS: AtomicU64 = AtomicU64::new(0);
static OUTCOMES: Mutex<BTreeSet<String>> = Mutex::new(BTreeSet::new());
static CONTEXT: Mutex<Option<Value>> = Mutex::new(None);
static STOP_AT: AtomicU64 = AtomicU64::new(u64::MAX);
static SAMPLE: Mutex<Option<String>> = Mutex::new(None);

pub const EXIT_VIOLATION: i32 = 3;

/// set while the harness runs code that is documented to panic (attach while attached, ...)
/// (a depth, not a flag: several loom threads can be inside such a region at once)
static EXPECT_PANIC: std::sync::atomic::AtomicUsize = std::sync::atomic::AtomicUsize::new(0);

/// Runs `f`, returning Err if it panicked; such a panic is an expected outcome, not a verdict.
pub fn catching<T>(f: impl FnOnce() -> T) -> Result<T, ()> {
    EXPECT_PANIC.fetch_add(1, Ordering::SeqCst);
    let r = std::panic::catch_unwind(std::panic::AssertUnwindSafe(f));
    EXPECT_PANIC.fetch_sub(1, Ordering::SeqCst);
    r.map_err(|_| ())
}

#[derive(Clone, Debug)]
pub struct ModelCfg {
    pub preemption_bound: Option<usize>,
    pub max_branches: usize,
    /// wall-clock cap for this model; a capped model is reported as not exhaustive
    pub max_secs: u64,
}

/// index (1-based) of the execution currently running
pub fn execution_index() -> u64 {
    EXECUTIONS.load(Ordering::Relaxed)
}

/// Record the observable outcome of one execution (for the distinct-outcome count).
pub fn outcome(s: String) {
    let mut g = OUTCOMES.lock().unwrap();
    if g.len() < 100_000 {
        if g.insert(s.clone()) {
            let mut smp = SAMPLE.lock().unwrap();
            if smp.is_none() || g.len() == 7 {
                *smp = Some(s);
            }
        }
    }
}

fn write_violation(key: &str, what: &str) {
    let ctx = CONTEXT.lock().unwrap().clone().unwrap_or(Value::Null);
    let rec = json!({
        "key": key,
        "what": what,
        "replay": {"model": ctx, "execution_index": execution_index()},
    });
    if let Ok(path) = std::env::var("VH_OUT") {
        let _ = std::fs::write(&path, serde_json::to_vec_pretty(&rec).unwrap());
    }
    eprintln!("VIOLATION-RECORD {rec}");
}

/// Report a property violation found in the current execution and leave the process.
pub fn violation(key: &str, what: String) -> ! {
    write_violation(key, &what);
    print_stats(false, false);
    std::process::exit(EXIT_VIOLATION)
}

fn print_stats(complete: bool, capped: bool) {
    let g = OUTCOMES.lock().unwrap();
    println!(
        "STATS {}",
        json!({
            "executions": EXECUTIONS.load(Ordering::Relaxed),
            "outcomes": g.len(),
            "complete": complete,
            "capped": capped,
            "sample_outcome": SAMPLE.lock().unwrap().clone(),
        })
    );
}

/// Explore every schedule of `body` (bounded by `cfg.preemption_bound`).
/// `context` identifies the model for replay. If `stop_at` is given, the exploration stops
/// after that execution index (replay mode).
pub fn run_model(cfg: &ModelCfg, context: Value, stop_at: Option<u64>, body: impl Fn() + Send + Sync + 'static) {
    *CONTEXT.lock().unwrap() = Some(context);
    if let Some(s) = stop_at {
        STOP_AT.store(s, Ordering::Relaxed);
    }
    // loom reports deadlocks, leaked threads and exceeded branch limits by panicking; the code
    // under test may panic too. Either is a verdict about the current execution: record it.
    let default_hook = std::panic::take_hook();
    std::panic::set_hook(Box::new(move |info| {
        if EXPECT_PANIC.load(Ordering::SeqCst) > 0 {
            if std::env::var("VH_PANIC_DEBUG").is_ok() {
                eprintln!("[expected-panic window] {info}");
            }
            return; // a documented panic, caught by the harness
        }
        let msg = if let Some(s) = info.payload().downcast_ref::<&str>() {
            s.to_string()
        } else if let Some(s) = info.payload().downcast_ref::<String>() {
            s.clone()
        } else {
            "panic".to_string()
        };
        let class = if msg.contains("deadlock") {
            "deadlock"
        } else if msg.contains("exceeded maximum number of branches") || msg.contains("Model exceeded") {
            "livelock-branch-limit"
        } else if msg.starts_with("HARNESS:") {
            "harness-assertion"
        } else {
            "panic"
        };
        let loc = info.location().map(|l| format!("{}:{}", l.file(), l.line())).unwrap_or_default();
        write_violation(class, &format!("{msg} at {loc}"));
        default_hook(info);
        print_stats(false, false);
        std::process::exit(EXIT_VIOLATION);
    }));
    let mut b = loom::model::Builder::new();
    b.preemption_bound = cfg.preemption_bound;
    b.max_branches = cfg.max_branches;
    b.max_duration = Some(Duration::from_secs(cfg.max_secs));
    b.checkpoint_file = None;
    b.log = std::env::var("VH_LOOM_LOG").is_ok();
    b.location = b.log;
    let start = Instant::now();
    b.check(move || {
        let i = EXECUTIONS.fetch_add(1, Ordering::Relaxed) + 1;
        // every execution starts 10 fake seconds after the previous one: the process-global rate
        // limiters then behave identically in every execution
        vtime::set_ns(i.saturating_mul(10_000_000_000));
        body();
        if i >= STOP_AT.load(Ordering::Relaxed) {
            println!("REPLAY reached execution {i} without a violation");
            print_stats(false, false);
            std::process::exit(0);
        }
    });
    let capped = start.elapsed() >= Duration::from_secs(cfg.max_secs);
    print_stats(!capped, capped);
}
