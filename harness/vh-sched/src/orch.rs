//! Orchestrator: farms loom models out to child processes (one model = one configuration of a
//! harness) and folds their statistics / violation records into the property's Report.

use crate::mc::EXIT_VIOLATION;
use serde_json::{Value, json};
use std::process::{Command, Stdio};
use std::sync::Mutex;
use std::sync::atomic::{AtomicUsize, Ordering};
use vh_common::Report;

#[derive(Clone, Debug)]
pub struct Job {
    pub harness: &'static str,
    pub cfg: Value,
}

#[derive(Default, Debug)]
pub struct Totals {
    pub models: u64,
    pub executions: u64,
    pub outcomes: u64,
    pub capped: u64,
    pub capped_models: Vec<Value>,
    pub per_harness: std::collections::BTreeMap<String, (u64, u64, u64)>,
}

fn tmp_dir() -> std::path::PathBuf {
    let d = std::env::temp_dir().join(format!("vh-sched-{}", std::process::id()));
    let _ = std::fs::create_dir_all(&d);
    d
}

/// Runs all jobs (16 at a time). Violations go into `rep`; an engine crash is a machinery
/// failure (exit 2), never a verdict.
pub fn run_jobs(rep: &mut Report, jobs: Vec<Job>) -> Totals {
    let exe = std::env::current_exe().expect("current exe");
    let next = AtomicUsize::new(0);
    let results: Mutex<Vec<(usize, i32, String, Option<Value>)>> = Mutex::new(Vec::new());
    let dir = tmp_dir();
    let nthreads = vh_common::par::threads().min(jobs.len().max(1));
    std::thread::scope(|s| {
        for _ in 0..nthreads {
            s.spawn(|| {
                loop {
                    let i = next.fetch_add(1, Ordering::Relaxed);
                    if i >= jobs.len() {
                        break;
                    }
                    let job = &jobs[i];
                    let out_file = dir.join(format!("job-{i}.json"));
                    let _ = std::fs::remove_file(&out_file);
                    let (so, se) = (dir.join(format!("job-{i}.out")), dir.join(format!("job-{i}.err")));
                    let mut child = Command::new(&exe)
                        .arg("run")
                        .arg(job.harness)
                        .arg(job.cfg.to_string())
                        .env("VH_OUT", &out_file)
                        .env_remove("LOOM_LOG")
                        .env_remove("LOOM_CHECKPOINT_FILE")
                        .stdin(Stdio::null())
                        .stdout(std::fs::File::create(&so).expect("job stdout file"))
                        .stderr(std::fs::File::create(&se).expect("job stderr file"))
                        .spawn()
                        .expect("spawn child");
                    // a model stops itself at its wall cap between two executions; a child that is
                    // still there long after that is stuck inside one execution (a harness bug,
                    // e.g. an OS-level deadlock the scheduler cannot see): a machinery failure
                    let cap = job.cfg["max_secs"].as_u64().unwrap_or(600);
                    let deadline = std::time::Instant::now() + std::time::Duration::from_secs(cap + 180);
                    let code = loop {
                        match child.try_wait().expect("wait for child") {
                            Some(st) => break st.code().unwrap_or(-1),
                            None if std::time::Instant::now() > deadline => {
                                let _ = child.kill();
                                let _ = child.wait();
                                break -9;
                            }
                            None => std::thread::sleep(std::time::Duration::from_millis(20)),
                        }
                    };
                    let stdout = std::fs::read_to_string(&so).unwrap_or_default();
                    let stderr = std::fs::read_to_string(&se).unwrap_or_default();
                    let record = std::fs::read(&out_file)
                        .ok()
                        .and_then(|b| serde_json::from_slice::<Value>(&b).ok());
                    let _ = std::fs::remove_file(&out_file);
                    let tail: String = stderr.lines().rev().take(12).collect::<Vec<_>>().into_iter().rev().collect::<Vec<_>>().join("\n");
                    results.lock().unwrap().push((i, code, format!("{stdout}\n{tail}"), record));
                }
            });
        }
    });
    let _ = std::fs::remove_dir_all(&dir);
    let mut totals = Totals::default();
    let mut results = results.into_inner().unwrap();
    results.sort_by_key(|r| r.0);
    for (i, code, text, record) in results {
        let job = &jobs[i];
        let stats: Option<Value> = text
            .lines()
            .filter_map(|l| l.strip_prefix("STATS "))
            .last()
            .and_then(|s| serde_json::from_str(s).ok());
        if let Some(st) = &stats {
            let ex = st["executions"].as_u64().unwrap_or(0);
            let oc = st["outcomes"].as_u64().unwrap_or(0);
            totals.models += 1;
            totals.executions += ex;
            totals.outcomes += oc;
            if st["capped"].as_bool().unwrap_or(false) {
                totals.capped += 1;
                totals.capped_models.push(json!({"harness": job.harness, "config": job.cfg, "executions_before_cap": ex}));
            }
            let e = totals.per_harness.entry(job.harness.to_string()).or_default();
            e.0 += 1;
            e.1 += ex;
            e.2 += oc;
            if i % 7 == 0 || rep.samples.len() < 3 {
                if let Some(s) = st["sample_outcome"].as_str() {
                    rep.sample(json!({"harness": job.harness, "config": job.cfg, "executions": ex, "distinct_outcomes": oc, "one_outcome": s}));
                }
            }
        }
        match (code, record) {
            (0, _) if stats.is_some() => {}
            (c, Some(rec)) if c == EXIT_VIOLATION => {
                let key = format!("{}:{}", job.harness, rec["key"].as_str().unwrap_or("?"));
                let what = rec["what"].as_str().unwrap_or("").to_string();
                let mut replay = rec["replay"].clone();
                replay["harness"] = json!(job.harness);
                rep.violation(key, what, replay);
            }
            (c, _) => {
                println!(
                    "MACHINERY-FAILURE: model {} {} exited with {c} and left no verdict\n{text}",
                    job.harness, job.cfg
                );
                std::process::exit(2);
            }
        }
    }
    totals
}

pub fn fill_report(rep: &mut Report, totals: &Totals, what: &str) {
    rep.set("states", totals.outcomes.max(1));
    rep.set("transitions", totals.executions.max(1));
    rep.set("traces_validated_against_impl", totals.executions);
    rep.set("models", totals.models);
    rep.set("executions", totals.executions);
    rep.set("distinct_outcomes_summed_over_models", totals.outcomes);
    rep.set("models_stopped_by_wall_cap", totals.capped);
    rep.set("models_stopped_by_wall_cap_list", totals.capped_models.clone());
    rep.set("exhaustive", totals.capped == 0);
    rep.set(
        "per_harness",
        totals
            .per_harness
            .iter()
            .map(|(h, (m, e, o))| json!({"harness": h, "models": m, "executions": e, "distinct_outcomes": o}))
            .collect::<Vec<_>>(),
    );
    rep.set("explanation", format!("{what} 'states' = distinct observed outcomes (summed over models), 'transitions' = complete executions (schedules) of the real code run under loom's DPOR scheduler; every execution is an execution of the implementation, so traces_validated_against_impl = executions."));
    rep.set(
        "trusted_base",
        json!(["loom 0.7.2 (scheduler, C11 model)", "crossbeam ArrayQueue, tokio oneshot, metrics crate atomics: real objects treated as linearizable black boxes behind a loom-visible marker", "facade primitives in metrique-writer-core/src/verif.rs (parker, mpsc, fake clock, Arc/Weak)"]),
    );
}
