//! C20 (sequential part) - the metrics.rs bridge reports every increment / sample exactly once,
//! under the registered name, with labels as dimensions and the described unit: explicit-state
//! search over describe / register / update / readout histories on the real MetricRecorder with
//! a reference model, plus a sweep of every histogram bucket boundary. (Updates racing readouts:
//! loom, vh-sched.)
use metrics_024::{Key, KeyName, Label, Level, Metadata, Recorder, SharedString, Unit as MUnit};
use metrique_metricsrs::MetricRecorder;
use metrique_writer_core::{Entry, EntryConfig, EntryWriter, MetricFlags, Observation, Unit, ValidationError, Value, ValueWriter};
use serde_json::json;
use std::borrow::Cow;
use std::collections::{BTreeMap, BTreeSet};
use std::time::SystemTime;
use vh_common::report::Violations;
use vh_common::{Report, par};

type Rec = MetricRecorder<dyn metrics_024::Recorder>;

#[derive(Clone, Debug, PartialEq)]
struct Item {
    name: String,
    obs: Vec<Observation>,
    unit: String,
    dims: Vec<(String, String)>,
}

struct Collect {
    items: Vec<Item>,
    split: bool,
    timestamps: usize,
    other: Vec<String>,
}
struct CV<'c> {
    name: String,
    c: &'c mut Collect,
}
impl ValueWriter for CV<'_> {
    fn string(self, v: &str) {
        self.c.other.push(format!("string {}={v}", self.name));
    }
    fn metric<'a>(self, distribution: impl IntoIterator<Item = Observation>, unit: Unit, dimensions: impl IntoIterator<Item = (&'a str, &'a str)>, _flags: MetricFlags<'_>) {
        self.c.items.push(Item {
            name: self.name,
            obs: distribution.into_iter().collect(),
            unit: unit.name().to_string(),
            dims: dimensions.into_iter().map(|(k, v)| (k.to_string(), v.to_string())).collect(),
        });
    }
    fn error(self, _e: ValidationError) {
        self.c.other.push(format!("error {}", self.name));
    }
}
impl<'a> EntryWriter<'a> for Collect {
    fn timestamp(&mut self, _t: SystemTime) {
        self.timestamps += 1;
    }
    fn value(&mut self, name: impl Into<Cow<'a, str>>, value: &(impl Value + ?Sized)) {
        let name: Cow<'a, str> = name.into();
        value.write(CV { name: name.into_owned(), c: self });
    }
    fn config(&mut self, config: &'a dyn EntryConfig) {
        if format!("{config:?}").contains("AllowSplitEntries") {
            self.split = true;
        }
    }
}

fn read(e: &impl Entry) -> Collect {
    let mut c = Collect { items: vec![], split: false, timestamps: 0, other: vec![] };
    e.write(&mut c);
    c
}

fn md() -> Metadata<'static> {
    Metadata::new("vh", Level::INFO, None)
}
/// callsite metadata by label set: the labelled series come from a TRACE-level callsite (the
/// bridge reports every registered metric, whatever level its callsite has)
fn md_for(lab: u8) -> Metadata<'static> {
    if lab == 0 { md() } else { Metadata::new("vh::detail", Level::TRACE, Some("vh::detail")) }
}

const NAMES: [&str; 2] = ["x", "y"];
fn labels(i: usize) -> Vec<(&'static str, &'static str)> {
    match i {
        0 => vec![],
        // (a label with an empty value is still a label: the series differs from the unlabelled one)
        _ => vec![("a", "1"), ("b", ""), ("c", "2")],
    }
}
fn key(name: usize, lab: usize) -> Key {
    Key::from_parts(NAMES[name], labels(lab).into_iter().map(|(k, v)| Label::new(k, v)).collect::<Vec<_>>())
}

#[derive(Clone, Copy, Debug, PartialEq, Eq, PartialOrd, Ord, Hash)]
enum Op {
    /// describe name as kind (0 counter,1 gauge,2 histogram) with unit (0 Count, 1 Milliseconds, 2 none)
    Describe(u8, u8, u8),
    Inc(u8, u8, u8),
    Set(u8, u8, u8),
    Rec(u8, u8, u8),
    /// histogram.record_many(value, count): 0 = (20, 3), 1 = (5e9, 2) - above u32::MAX, which a
    /// single `record` caps into the top bucket
    RecMany(u8, u8, u8),
    /// gauge.increment(v) / gauge.decrement(v)
    GaugeAdd(u8, u8, u8),
    GaugeSub(u8, u8, u8),
    RegisterOnly(u8, u8, u8),
    Readout,
}

fn munit(u: u8) -> Option<MUnit> {
    match u {
        0 => Some(MUnit::Count),
        1 => Some(MUnit::Milliseconds),
        _ => None,
    }
}
fn expect_unit(u: u8) -> &'static str {
    match u {
        0 => "Count",
        1 => "Milliseconds",
        _ => "None",
    }
}

fn ops() -> Vec<Op> {
    let mut v = vec![Op::Readout];
    // kinds live under distinct names so that one name is never both a counter and a gauge
    // (x: counter, y: gauge, x with labels also counter; histogram under "y"? keep kinds apart:)
    for lab in 0..2u8 {
        v.push(Op::Inc(0, lab, 1));
        v.push(Op::Inc(0, lab, 5));
    }
    v.push(Op::RegisterOnly(0, 0, 0));
    v.push(Op::Set(1, 0, 3));
    v.push(Op::Set(1, 1, 7));
    // back to exactly +0.0, by a set and by arithmetic
    v.push(Op::Set(1, 0, 0));
    v.push(Op::GaugeAdd(1, 1, 7));
    v.push(Op::GaugeSub(1, 1, 7));
    v.push(Op::Rec(1, 0, 20));
    v.push(Op::Rec(1, 1, 200));
    v.push(Op::RecMany(1, 0, 0));
    v.push(Op::RecMany(1, 1, 1));
    v.push(Op::Describe(0, 0, 0));
    v.push(Op::Describe(0, 0, 1));
    v.push(Op::Describe(1, 1, 1));
    v.push(Op::Describe(2, 1, 0));
    v.push(Op::Describe(1, 1, 2));
    v
}

#[derive(Clone, Default, Debug)]
struct Model {
    units: BTreeMap<String, String>,
    counters: BTreeMap<(String, u8), u64>,
    gauges: BTreeMap<(String, u8), f64>,
    hists: BTreeMap<(String, u8), Vec<u32>>,
}

struct World {
    rec: Rec,
    // gauges and histograms share the name "y": metrics.rs keeps the kinds in separate registries
}

fn hname(name: u8) -> String {
    // histograms are registered under "<name>_h" so that kinds never share a key
    format!("{}_h", NAMES[name as usize])
}

fn apply(w: &World, m: &mut Model, op: Op, emit_zero: bool) -> Option<(String, String)> {
    match op {
        Op::Describe(kind, name, u) => {
            let n = if kind == 2 { hname(name) } else { NAMES[name as usize].to_string() };
            let kn = KeyName::from(n.clone());
            let d = SharedString::from("d");
            match kind {
                0 => w.rec.describe_counter(kn, munit(u), d),
                1 => w.rec.describe_gauge(kn, munit(u), d),
                _ => w.rec.describe_histogram(kn, munit(u), d),
            }
            m.units.insert(n, expect_unit(u).to_string());
            None
        }
        Op::RegisterOnly(name, lab, _) => {
            drop(w.rec.register_counter(&key(name as usize, lab as usize), &md_for(lab)));
            m.counters.entry((NAMES[name as usize].to_string(), lab)).or_insert(0);
            None
        }
        Op::Inc(name, lab, k) => {
            w.rec.register_counter(&key(name as usize, lab as usize), &md_for(lab)).increment(k as u64);
            *m.counters.entry((NAMES[name as usize].to_string(), lab)).or_insert(0) += k as u64;
            None
        }
        Op::Set(name, lab, v) => {
            w.rec.register_gauge(&key(name as usize, lab as usize), &md_for(lab)).set(v as f64);
            m.gauges.insert((NAMES[name as usize].to_string(), lab), v as f64);
            None
        }
        Op::GaugeAdd(name, lab, v) => {
            w.rec.register_gauge(&key(name as usize, lab as usize), &md_for(lab)).increment(v as f64);
            *m.gauges.entry((NAMES[name as usize].to_string(), lab)).or_insert(0.0) += v as f64;
            None
        }
        Op::GaugeSub(name, lab, v) => {
            w.rec.register_gauge(&key(name as usize, lab as usize), &md_for(lab)).decrement(v as f64);
            *m.gauges.entry((NAMES[name as usize].to_string(), lab)).or_insert(0.0) -= v as f64;
            None
        }
        Op::RecMany(name, lab, which) => {
            let k = Key::from_parts(hname(name), labels(lab as usize).into_iter().map(|(k, v)| Label::new(k, v)).collect::<Vec<_>>());
            let (value, count, as_recorded) = if which == 0 { (20.0, 3usize, 20u32) } else { (5e9, 2usize, u32::MAX) };
            let h = w.rec.register_histogram(&k, &md_for(lab));
            let r = std::panic::catch_unwind(std::panic::AssertUnwindSafe(|| h.record_many(value, count)));
            for _ in 0..count {
                m.hists.entry((hname(name), lab)).or_default().push(as_recorded);
            }
            if r.is_err() {
                return Some(("record_many-panicked".to_string(), format!("histogram.record_many({value}, {count}) panicked")));
            }
            None
        }
        Op::Rec(name, lab, v) => {
            let k = Key::from_parts(hname(name), labels(lab as usize).into_iter().map(|(k, v)| Label::new(k, v)).collect::<Vec<_>>());
            w.rec.register_histogram(&k, &md_for(lab)).record(v as f64);
            m.hists.entry((hname(name), lab)).or_default().push(v as u32);
            None
        }
        Op::Readout => {
            let mut e = w.rec.readout();
            let c = read(&e);
            let mut problems = Vec::new();
            if !c.split {
                problems.push(("readout-without-split-config".to_string(), "the readout entry has labelled metrics but does not allow split entries".to_string()));
            }
            // the other public route: the readout nested in another entry, its timestamp removed.
            // Everything else it writes is the same
            e.remove_timestamp();
            let nested = read(&e);
            if nested.timestamps != 0 || nested.split != c.split || format!("{:?}", nested.items) != format!("{:?}", c.items) || nested.other != c.other {
                problems.push(("readout-without-timestamp-writes-something-else".to_string(), format!("after remove_timestamp() the readout writes {} timestamps, split config {}, {} items (with its timestamp: split config {}, {} items)", nested.timestamps, nested.split, nested.items.len(), c.split, c.items.len())));
            }
            if !c.other.is_empty() {
                problems.push(("unexpected-item".to_string(), format!("{:?}", c.other)));
            }
            let mut expected: Vec<Item> = Vec::new();
            let unit_of = |n: &str| m.units.get(n).cloned().unwrap_or_else(|| "None".to_string());
            let dims = |lab: u8| labels(lab as usize).into_iter().map(|(k, v)| (k.to_string(), v.to_string())).collect::<Vec<_>>();
            for ((n, lab), v) in &m.counters {
                if *v != 0 || emit_zero {
                    expected.push(Item { name: n.clone(), obs: vec![Observation::Unsigned(*v)], unit: unit_of(n), dims: dims(*lab) });
                }
            }
            for ((n, lab), v) in &m.gauges {
                expected.push(Item { name: n.clone(), obs: vec![Observation::Floating(*v)], unit: unit_of(n), dims: dims(*lab) });
            }
            // histograms: compare occurrence counts and bucket error, not exact midpoints
            let mut got = c.items.clone();
            for e in &expected {
                match got.iter().position(|g| g == e) {
                    Some(p) => {
                        got.remove(p);
                    }
                    None => problems.push((format!("missing-or-wrong-item:{}", if matches!(e.obs[0], Observation::Unsigned(_)) { "counter" } else { "gauge" }), format!("expected {e:?}, readout wrote {:?}", c.items))),
                }
            }
            for ((n, lab), samples) in &m.hists {
                match got.iter().position(|g| g.name == *n && g.dims == dims(*lab)) {
                    Some(p) => {
                        let g = got.remove(p);
                        if g.unit != unit_of(n) {
                            problems.push(("histogram-unit".to_string(), format!("{g:?} expected unit {}", unit_of(n))));
                        }
                        let total: u64 = g.obs.iter().map(|o| match o { Observation::Repeated { occurrences, .. } => *occurrences, _ => 1 }).sum();
                        if total != samples.len() as u64 {
                            problems.push(("histogram-sample-not-reported-exactly-once".to_string(), format!("{} samples recorded since the last readout, {total} occurrences reported: {g:?}", samples.len())));
                        }
                        let mut reported: Vec<f64> = Vec::new();
                        for o in &g.obs {
                            if let Observation::Repeated { total, occurrences } = o {
                                for _ in 0..*occurrences {
                                    reported.push(total / *occurrences as f64);
                                }
                            }
                        }
                        let mut want: Vec<f64> = samples.iter().map(|s| *s as f64).collect();
                        want.sort_by(|a, b| a.partial_cmp(b).unwrap());
                        reported.sort_by(|a, b| a.partial_cmp(b).unwrap());
                        for (w_, r) in want.iter().zip(&reported) {
                            if (w_ - r).abs() > w_ * 0.0625 + 0.5 {
                                problems.push(("histogram-value-outside-bucket-error".to_string(), format!("sample {w_} reported as {r}")));
                            }
                        }
                    }
                    None => problems.push(("missing-histogram".to_string(), format!("histogram {n} {lab} not in {:?}", c.items))),
                }
            }
            if !got.is_empty() {
                problems.push(("unexpected-item".to_string(), format!("the readout wrote items nobody registered or that were already reported: {got:?}")));
            }
            for v in m.counters.values_mut() {
                *v = 0;
            }
            for v in m.hists.values_mut() {
                v.clear();
            }
            problems.into_iter().next()
        }
    }
}

#[derive(Default)]
struct St {
    histories: u64,
    transitions: u64,
    readouts: u64,
    v: Violations,
    shapes: BTreeSet<String>,
}

/// The reporter task (`spawn_metric_reporter`): histories of {increment 1 / 5, set the gauge,
/// record a sample, let the runtime poll its tasks, let one publish interval pass} ending with
/// `shutdown().await`, on a paused current-thread runtime. Everything reported over all readouts
/// (periodic ones and the final one at shutdown) must add up to what was recorded.
fn reporter_histories(rep: &mut Report) -> u64 {
    use metrique_metricsrs::MetricReporterBuilder;
    use metrique_writer::test_util::test_entry_sink;
    #[derive(Clone, Copy, Debug, PartialEq)]
    enum Ev {
        Inc(u64),
        Gauge(u32),
        Sample(u32),
        Yield,
        Interval,
    }
    let alphabet = [Ev::Inc(1), Ev::Inc(5), Ev::Gauge(3), Ev::Sample(20), Ev::Yield, Ev::Interval];
    let depth: u32 = rep.tier.pick(4, 5);
    let n = alphabet.len() as u64;
    let mut total = 1u64; // the empty history
    for d in 1..=depth {
        total += n.pow(d);
    }
    let states = par::for_each_index(total, 64, Violations::default, |v, idx0| {
        let mut seq: Vec<Ev> = Vec::new();
        if idx0 > 0 {
            let mut idx = idx0 - 1;
            let mut len = 1u32;
            while idx >= n.pow(len) {
                idx -= n.pow(len);
                len += 1;
            }
            for _ in 0..len {
                seq.push(alphabet[(idx % n) as usize]);
                idx /= n;
            }
        }
        let rt = tokio::runtime::Builder::new_current_thread().enable_time().start_paused(true).build().expect("runtime");
        let t = test_entry_sink();
        let inspector = t.inspector;
        let (mut want_c, mut want_g, mut want_h) = (0u64, None::<f64>, 0u64);
        rt.block_on(async {
            let (reporter, recorder) = MetricReporterBuilder::new()
                .metrics_publish_interval(std::time::Duration::from_secs(60))
                .metrics_sink((t.sink, ()))
                .metrics_rs_version::<dyn metrics_024::Recorder>()
                .build_without_installing();
            for ev in &seq {
                match *ev {
                    Ev::Inc(k) => {
                        metrics_024::with_local_recorder(&recorder, || metrics_024::counter!("c").increment(k));
                        want_c += k;
                    }
                    Ev::Gauge(x) => {
                        metrics_024::with_local_recorder(&recorder, || metrics_024::gauge!("g").set(x as f64));
                        want_g = Some(x as f64);
                    }
                    Ev::Sample(x) => {
                        metrics_024::with_local_recorder(&recorder, || metrics_024::histogram!("h").record(x as f64));
                        want_h += 1;
                    }
                    Ev::Yield => tokio::task::yield_now().await,
                    Ev::Interval => tokio::time::sleep(std::time::Duration::from_secs(61)).await,
                }
            }
            reporter.shutdown().await;
        });
        let (mut got_c, mut got_g, mut got_h) = (0u64, None::<f64>, 0u64);
        for e in inspector.entries() {
            if let Some(m) = e.metrics.get("c") {
                got_c += m.distribution.iter().map(|o| if let Observation::Unsigned(u) = o { *u } else { 0 }).sum::<u64>();
            }
            if let Some(m) = e.metrics.get("g") {
                got_g = Some(m.as_f64());
            }
            if let Some(m) = e.metrics.get("h") {
                got_h += m.num_observations();
            }
        }
        let replay = || json!({"reporter_history": seq.iter().map(|e| format!("{e:?}")).collect::<Vec<_>>(), "then": "shutdown().await",
            "counter": {"incremented": want_c, "reported": got_c}, "gauge": {"last_set": want_g, "last_reported": got_g}, "histogram": {"recorded": want_h, "reported": got_h}});
        if got_c != want_c {
            v.add("reporter:counter-increments-not-reported-exactly-once", format!("after {seq:?} and shutdown the readouts report {got_c} of {want_c} increments"), replay());
        }
        if got_h != want_h {
            v.add("reporter:histogram-samples-not-reported-exactly-once", format!("after {seq:?} and shutdown the readouts report {got_h} of {want_h} samples"), replay());
        }
        if want_g.is_some() && got_g != want_g {
            v.add("reporter:gauge-last-value-not-reported", format!("after {seq:?} and shutdown the last reported gauge value is {got_g:?}, last set {want_g:?}"), replay());
        }
    });
    for v in states {
        rep.violations.merge(v);
    }
    rep.set("reporter_histories", total);
    rep.set("reporter_history_depth", depth as u64);
    total
}

fn main() {
    let mut rep = Report::from_args("C20", "model_checking");
    let reporter_runs = reporter_histories(&mut rep);
    let depth: usize = rep.tier.pick(5, 6);
    let alphabet = ops();
    let n = alphabet.len() as u64;
    let mut total = 0u64;
    for d in 1..=depth as u32 {
        total += n.pow(d);
    }
    let states = par::for_each_index(total * 2, 256, St::default, |st, idx0| {
        let emit_zero = idx0 >= total;
        let mut idx = idx0 % total;
        let mut len = 1u32;
        while idx >= n.pow(len) {
            idx -= n.pow(len);
            len += 1;
        }
        let mut seq = Vec::new();
        for _ in 0..len {
            seq.push(alphabet[(idx % n) as usize]);
            idx /= n;
        }
        // every history ends with a readout (checked), earlier readouts are checked too
        seq.push(Op::Readout);
        let w = World { rec: MetricRecorder::new_with_emit_zero_counters(emit_zero) };
        let mut m = Model::default();
        st.histories += 1;
        for (i, op) in seq.iter().enumerate() {
            st.transitions += 1;
            if *op == Op::Readout {
                st.readouts += 1;
            }
            if let Some((k, what)) = apply(&w, &mut m, *op, emit_zero) {
                st.v.add(format!("seq:{k}"), format!("after {:?} (emit_zero_counters={emit_zero}): {what}", &seq[..=i]), json!({"history": seq[..=i].iter().map(|o| format!("{o:?}")).collect::<Vec<_>>(), "emit_zero_counters": emit_zero}));
                break;
            }
        }
        st.shapes.insert(format!("{:?}", (m.units.len(), m.counters.len(), m.gauges.len(), m.hists.len())));
    });
    // every bucket boundary of the bridge histogram (Config(4,32): 464 buckets): v-1, v, v+1
    let mut boundary_checks = 0u64;
    let mut bounds: Vec<u64> = (0..32u64).collect();
    for p in 5..32u32 {
        for s in 0..16u64 {
            bounds.push((1u64 << p) + s * (1u64 << (p - 4)));
        }
    }
    let rec: Rec = MetricRecorder::new();
    let k = Key::from_name("hb");
    let h = rec.register_histogram(&k, &md());
    for b in &bounds {
        for v in [b.saturating_sub(1), *b, b + 1] {
            if v > u32::MAX as u64 {
                continue;
            }
            h.record(v as f64);
            let c = read(&rec.readout());
            boundary_checks += 1;
            let item = c.items.iter().find(|i| i.name == "hb");
            let ok = match item.map(|i| i.obs.as_slice()) {
                Some([Observation::Repeated { total, occurrences: 1 }]) => (total - v as f64).abs() <= v as f64 * 0.0625 + 0.5,
                _ => false,
            };
            if !ok {
                rep.violation("histogram-boundary", format!("one sample {v} was read out as {item:?}"), json!({"sample": v}));
            }
        }
    }
    // values above u32::MAX are capped, negative/NaN recorded as 0 (documented cast): counted once
    for v in [u32::MAX as f64 * 4.0, f64::INFINITY] {
        h.record(v);
        let c = read(&rec.readout());
        boundary_checks += 1;
        let n: u64 = c.items.iter().filter(|i| i.name == "hb").flat_map(|i| i.obs.iter()).map(|o| match o { Observation::Repeated { occurrences, .. } => *occurrences, _ => 0 }).sum();
        if n != 1 {
            rep.violation("histogram-large-sample-not-counted-once", format!("sample {v} gave {n} occurrences"), json!({"sample": format!("{v}")}));
        }
    }
    // an update that arrives INSIDE a readout - deterministically: the readout takes its
    // timestamp from the thread's time source, and the time source installed here performs the
    // update when asked for the time (a callback of the environment into the library). Updates
    // through a fresh handle that is dropped at once, on a key that was idle before; kinds:
    // counter / histogram; the callback fires in the 1st, 2nd or 3rd readout. All readouts
    // together report every increment and sample exactly once.
    {
        #[derive(Clone)]
        struct HookedClock(std::sync::Arc<std::sync::Mutex<Option<Box<dyn FnMut() + Send>>>>);
        impl std::fmt::Debug for HookedClock {
            fn fmt(&self, f: &mut std::fmt::Formatter<'_>) -> std::fmt::Result {
                f.write_str("HookedClock")
            }
        }
        impl metrique_timesource::Time for HookedClock {
            fn now(&self) -> std::time::SystemTime {
                let hook = self.0.lock().unwrap().take();
                if let Some(mut h) = hook {
                    h();
                }
                std::time::UNIX_EPOCH + std::time::Duration::from_secs(1_700_000_000)
            }
            fn instant(&self) -> std::time::Instant {
                std::time::Instant::now()
            }
        }
        let mut inside_cases = 0u64;
        for emit_zero in [false, true] {
            for fire_in in 0..3usize {
                inside_cases += 1;
                let rec: Rec = MetricRecorder::new_with_emit_zero_counters(emit_zero);
                let (kc, kh) = (Key::from_name("ic"), Key::from_name("ih"));
                rec.register_counter(&kc, &md()).increment(3);
                rec.register_histogram(&kh, &md()).record(10.0);
                let clock = HookedClock(Default::default());
                let _g = metrique_timesource::set_time_source(metrique_timesource::TimeSource::custom(clock.clone()));
                let (mut c_total, mut h_total) = (0u64, 0u64);
                for r in 0..4usize {
                    if r == fire_in {
                        let rec2 = rec.clone();
                        let (kc2, kh2) = (kc.clone(), kh.clone());
                        *clock.0.lock().unwrap() = Some(Box::new(move || {
                            rec2.register_counter(&kc2, &md()).increment(5);
                            rec2.register_histogram(&kh2, &md()).record(20.0);
                        }));
                    }
                    let items = read(&rec.readout()).items;
                    c_total += items.iter().filter(|it| it.name == "ic").flat_map(|it| it.obs.iter()).map(|o| match o { Observation::Unsigned(v) => *v, _ => 0 }).sum::<u64>();
                    h_total += items.iter().filter(|it| it.name == "ih").flat_map(|it| it.obs.iter()).map(|o| match o { Observation::Repeated { occurrences, .. } => *occurrences, _ => 1 }).sum::<u64>();
                }
                if c_total != 8 || h_total != 2 {
                    rep.violation(
                        "update-inside-a-readout:not-exactly-once",
                        format!("emit_zero_counters={emit_zero}: an increment of 5 and one sample arrive while readout {fire_in} takes its timestamp (after 3 and one sample before); four readouts together report {c_total} increments (expected 8) and {h_total} samples (expected 2)"),
                        json!({"emit_zero_counters": emit_zero, "update_arrives_inside_readout": fire_in, "increments_reported": c_total, "samples_reported": h_total}),
                    );
                }
            }
        }
        rep.set("updates_arriving_inside_a_readout_cases", inside_cases);
    }
    // two readouts of one recorder overlapping in time (the periodic reporter and an on-demand
    // readout): fixed scenario with real threads, repeated; after all updates have finished two
    // threads read out at the same moment (barrier) - whatever the overlap, both readouts
    // together report every increment and every sample exactly once. Directed, not a schedule
    // exploration (the `histogram` crate's atomics are outside the scheduler's view, section 3.3).
    let overlap_rounds: u64 = rep.tier.pick(150, 1500);
    for round in 0..overlap_rounds {
        let rec: Rec = MetricRecorder::new();
        let keys: Vec<(Key, Key)> = (0..8).map(|i| (Key::from_name(format!("oc{i}")), Key::from_name(format!("oh{i}")))).collect();
        for (i, (kc, kh)) in keys.iter().enumerate() {
            rec.register_counter(kc, &md()).increment(i as u64 + 1);
            let h = rec.register_histogram(kh, &md());
            for s in 0..(i as u64 + 2) {
                h.record((10 * (i as u64 + 1) + 100 * s) as f64);
            }
        }
        let barrier = std::sync::Arc::new(std::sync::Barrier::new(2));
        let readers: Vec<_> = (0..2)
            .map(|_| {
                let (rec, barrier) = (rec.clone(), barrier.clone());
                std::thread::spawn(move || {
                    barrier.wait();
                    read(&rec.readout()).items
                })
            })
            .collect();
        let items: Vec<Item> = readers.into_iter().flat_map(|t| t.join().unwrap()).collect();
        for (i, _) in keys.iter().enumerate() {
            let c: u64 = items.iter().filter(|it| it.name == format!("oc{i}")).flat_map(|it| it.obs.iter()).map(|o| match o { Observation::Unsigned(v) => *v, _ => 0 }).sum();
            let n: u64 = items.iter().filter(|it| it.name == format!("oh{i}")).flat_map(|it| it.obs.iter()).map(|o| match o { Observation::Repeated { occurrences, .. } => *occurrences, _ => 1 }).sum();
            if c != i as u64 + 1 || n != i as u64 + 2 {
                rep.violation(
                    "overlapping-readouts:not-exactly-once",
                    format!("round {round}: two readouts at the same moment together report {c} increments of oc{i} (incremented {}) and {n} samples of oh{i} (recorded {})", i + 1, i + 2),
                    json!({"round": round, "key_index": i, "counter_reported": c, "samples_reported": n}),
                );
                break;
            }
        }
    }
    rep.set("overlapping_readout_rounds", overlap_rounds);
    let (mut h_, mut t, mut r) = (0, 0, 0);
    let mut shapes = BTreeSet::new();
    for s in states {
        h_ += s.histories; t += s.transitions; r += s.readouts;
        shapes.extend(s.shapes);
        rep.violations.merge(s.v);
    }
    let h_ = h_ + reporter_runs;
    rep.set("states", h_);
    rep.set("transitions", t);
    rep.set("traces_validated_against_impl", h_);
    rep.set("readouts_checked", r);
    rep.set("distinct_model_shapes", shapes.len() as u64);
    rep.set("histogram_boundary_samples", boundary_checks);
    rep.set("depth", depth as u64);
    rep.set("exhaustive", true);
    rep.set("explanation", "every sequence up to the depth over {describe counter/gauge/histogram with Count / Milliseconds / no unit (before or after registration), register-only, increment by 1/5, set, record, readout} on keys with and without labels, for both emit_zero_counters settings, on the real MetricRecorder; every readout entry is replayed into a recording writer and compared with a reference model: one item per registered key under its name, labels as dimensions, the last described unit, counter delta since the previous readout (omitted when zero unless configured), gauge last value, histogram occurrences = samples since the previous readout within 6.25% + 0.5; plus one sample at every bucket boundary -1/0/+1 of the 464-bucket layout");
    rep.sample(json!({"history": ["Inc(0,1,5)", "Describe(0,0,1)", "Readout", "Inc(0,1,1)", "Readout"], "expect": "x{a=1,b=2}=5 Milliseconds, then x{a=1,b=2}=1 Milliseconds"}));
    rep.assume("one metric name is used for one kind only (metrics.rs keeps kinds in separate registries)");
    rep.finish();
}
