//! C08 - EMF validation rejects exactly the malformed entries, never alters valid output.
use serde_json::json;
use std::collections::{BTreeMap, BTreeSet};
use vh_common::report::Violations;
use vh_common::{Report, par};
use vh_seq::emfx::gen_::*;
use vh_seq::emfx::layers::layers;
use vh_seq::emfx::mutate::{for_each_neighbour, seeds};
use vh_seq::emfx::reference::*;
use vh_seq::emfx::*;

#[derive(Default)]
struct St {
    out: Vec<u8>,
    out2: Vec<u8>,
    cases: u64,
    malformed_rejected: u64,
    valid_accepted: u64,
    transparency_compared: u64,
    unspecified: u64,
    not_validating: u64,
    v: Violations,
    classes: BTreeMap<Vec<Defect>, u64>,
    sample: Vec<serde_json::Value>,
    /// one long-lived formatter per configuration (keyed by the pristine formatter's address):
    /// every case is also formatted on it, after whatever this worker formatted before
    reused: std::collections::HashMap<usize, Runner>,
    reused_out: Vec<u8>,
    reused_compared: u64,
}

/// entries whose accept/reject decision the property statement does not determine
fn unspecified(cfg: &CfgD, entry: &EntryD) -> bool {
    let mut split_seen = false;
    for op in &entry.ops {
        match op {
            OpD::Config(ConfD::Split) => split_seen = true,
            OpD::Config(ConfD::Unroutable) => return true,
            OpD::Value(n, ValD::Nothing) if n.is_empty() || n == "_aws" => return true,
            OpD::Value(_, ValD::Metric { dims, .. }) if !dims.is_empty() && !cfg.allow_ignored && !split_seen => {
                // dimensioned metric before any split config: a defect only if no split config follows
                if entry.ops.iter().any(|o| matches!(o, OpD::Config(ConfD::Split))) {
                    return true;
                }
            }
            _ => {}
        }
    }
    false
}

fn partner(cfg: &CfgD) -> CfgD {
    let mut c = cfg.clone();
    c.ctor = match cfg.ctor {
        Ctor::AllValidations | Ctor::NoValidations => Ctor::NoValidations,
        _ => Ctor::BuilderSkipTrue,
    };
    c
}

/// lines as a multiset (split records come out of a hash map in arbitrary order)
fn lines(b: &[u8]) -> Vec<Vec<u8>> {
    let mut l: Vec<Vec<u8>> = b.split_inclusive(|c| *c == b'\n').map(|x| x.to_vec()).collect();
    l.sort();
    l
}

/// An entry without a timestamp gets `SystemTime::now()`: two runs legitimately differ in the
/// Timestamp digits, so they are masked before comparing (only for such entries).
fn mask_now(entry: &EntryD, b: &[u8]) -> Vec<u8> {
    if entry.ops.iter().any(|o| matches!(o, OpD::Timestamp(_))) {
        return b.to_vec();
    }
    let pat = b"\"Timestamp\":";
    let mut out = Vec::with_capacity(b.len());
    let mut i = 0;
    while i < b.len() {
        if b[i..].starts_with(pat) {
            out.extend_from_slice(pat);
            i += pat.len();
            while i < b.len() && b[i].is_ascii_digit() {
                i += 1;
            }
            out.push(b'T');
        } else {
            out.push(b[i]);
            i += 1;
        }
    }
    out
}

fn check(st: &mut St, cfg: &CfgD, pristine: &Emf, partner_pristine: &Emf, entry: &EntryD) {
    check_one(st, cfg, pristine, partner_pristine, entry, false);
    // the same decision and output must come from a formatter that has already formatted other
    // (accepted and rejected) entries: validation state must not leak between entries
    check_one(st, cfg, pristine, partner_pristine, entry, true);
}

fn check_one(st: &mut St, cfg: &CfgD, pristine: &Emf, partner_pristine: &Emf, entry: &EntryD, reused: bool) {
    if !reused {
        st.cases += 1;
    }
    let profile = if cfg!(debug_assertions) { "debug-assertions" } else { "no-debug-assertions" };
    let d = defects(cfg, entry);
    let mut out = std::mem::take(&mut st.out);
    let outcome = if reused {
        st.reused_compared += 1;
        out.clear();
        let key = pristine as *const Emf as usize;
        let mult = cfg.mult;
        st.reused.entry(key).or_insert_with(|| Runner::from_emf(pristine.clone(), mult)).format(entry, &mut out)
    } else {
        run_fresh(pristine, cfg.mult, entry, &mut out)
    };
    let suffix = if reused { ":on-reused-formatter" } else { "" };
    let replay = |out: &[u8]| json!({"config": cfg.to_json(), "profile": profile, "entry": entry.to_json(), "formatter": if reused { "long-lived (had formatted other entries before)" } else { "fresh" },
        "defects_per_statement": format!("{d:?}"), "outcome": format!("{outcome:?}"), "output": String::from_utf8_lossy(out)});
    if cfg.validating() != Some(true) {
        if !reused { st.not_validating += 1; }
    } else if unspecified(cfg, entry) {
        if !reused { st.unspecified += 1; }
    } else if !d.is_empty() {
        *st.classes.entry(d.clone()).or_default() += 1;
        match &outcome {
            Outcome::Validation(_) if out.is_empty() => st.malformed_rejected += 1,
            Outcome::Validation(_) => st.v.add("bytes-written-on-validation-error", "validation error but output written", replay(&out)),
            Outcome::Ok => st.v.add(
                format!("malformed-accepted:{:?}:ctor={:?}:{profile}{suffix}", d[0], cfg.ctor),
                format!("an entry with defect(s) {d:?} was accepted although validations are enabled ({:?}, {profile})", cfg.ctor),
                replay(&out)),
            Outcome::Io(e) => st.v.add("io-error-on-infallible-writer", format!("{e}"), replay(&out)),
        }
    } else {
        *st.classes.entry(d.clone()).or_default() += 1;
        match &outcome {
            Outcome::Ok => {
                st.valid_accepted += 1;
                match parse_output(&out) {
                    Ok(recs) => {
                        if let Some(dup) = recs.iter().find_map(|r| r.duplicate_member.clone()) {
                            let class = dimension_key_collision(cfg, entry).unwrap_or("other");
                            // an input-shape finding is the same finding on any formatter
                            let suffix = if class == "other" { suffix } else { "" };
                            st.v.add(format!("duplicate-member:{class}{suffix}"),
                                format!("accepted with validations enabled, but a record has two members named {dup:?} ({class})"), replay(&out));
                        }
                    }
                    Err(m) => st.v.add("unparseable-output", m, replay(&out)),
                }
                // transparency: same bytes (as a multiset of lines) as without validations
                let mut out2 = std::mem::take(&mut st.out2);
                let o2 = run_fresh(partner_pristine, cfg.mult, entry, &mut out2);
                st.transparency_compared += 1;
                if o2 != Outcome::Ok || lines(&mask_now(entry, &out)) != lines(&mask_now(entry, &out2)) {
                    st.v.add(format!("validation-alters-output{suffix}"), "output with validations differs from the output without",
                        json!({"config": cfg.to_json(), "entry": entry.to_json(), "with": String::from_utf8_lossy(&out), "without": String::from_utf8_lossy(&out2), "without_outcome": format!("{o2:?}")}));
                }
                st.out2 = out2;
                if st.sample.len() < 1 && entry.ops.len() > 4 { st.sample.push(replay(&out)); }
            }
            Outcome::Validation(e) => st.v.add(
                format!("valid-rejected:ctor={:?}{suffix}", cfg.ctor),
                format!("an entry with none of the listed defects was rejected: {e}"), replay(&out)),
            Outcome::Io(e) => st.v.add("io-error-on-infallible-writer", format!("{e}"), replay(&out)),
        }
    }
    // whatever the mode: an error means nothing was written
    if matches!(outcome, Outcome::Validation(_)) && !out.is_empty() {
        st.v.add("bytes-written-on-validation-error", "validation error but output written", replay(&out));
    }
    st.out = out;
}

fn main() {
    let mut rep = Report::from_args("C08", "exploration");
    if let Some(path) = rep.replay.clone() {
        // re-run exactly the recorded (config, entry) case on a fresh real formatter
        let ok = vh_seq::emfx::replay_file(&path);
        println!("REPLAY {}", if ok { "no violation reproduced" } else { "violation reproduced" });
        std::process::exit(if ok { 0 } else { 1 })
    }
    let tier = rep.tier;
    let cfgs = configs(tier);
    let pristine: Vec<Emf> = cfgs.iter().map(|c| c.build()).collect();
    let partners: Vec<Emf> = cfgs.iter().map(|c| partner(c).build()).collect();
    let sd = seeds(tier, &cfgs);
    let mut scaled_cases = 0u64;
    let mut states = par::for_each_index(sd.len() as u64, 1, St::default, |st, i| {
        let seed = &sd[i as usize];
        for_each_neighbour(seed, tier, |entry| {
            check(st, &cfgs[seed.ci], &pristine[seed.ci], &partners[seed.ci], entry)
        });
    });
    // transparency + acceptance on the big valid layers as well
    let ls = layers(tier);
    for layer in &ls {
        if tier == vh_common::Tier::Quick && layer.name.starts_with("B ") {
            continue; // the two-value layer is C03's; thorough only here
        }
        let p: Vec<Emf> = layer.cfgs.iter().map(|c| c.build()).collect();
        let pp: Vec<Emf> = layer.cfgs.iter().map(|c| partner(c).build()).collect();
        states.extend(par::for_each_index(layer.size(), 512, St::default, |st, idx| {
            if let Some((ci, entry)) = layer.case(idx) {
                check(st, &layer.cfgs[ci], &p[ci], &pp[ci], &entry);
            }
        }));
    }
    // entries scaled past the small alphabets (dozens to hundreds of dimension sets / metrics /
    // strings, with and without one duplicate)
    {
        let mut st = St::default();
        // (the long-lived formatters are keyed by the address of their pristine copy: all of
        // them stay alive, at distinct addresses, for the whole pass)
        let scfgs = scaled_configs();
        let ps: Vec<(Emf, Emf)> = scfgs.iter().map(|c| (c.build(), partner(c).build())).collect();
        for (cfg, (p, pp)) in scfgs.iter().zip(&ps) {
            for (_name, entry) in scaled_entries(cfg, tier) {
                check(&mut st, cfg, p, pp, &entry);
                scaled_cases += 1;
            }
        }
        states.push(st);
    }
    let mut classes: BTreeMap<Vec<Defect>, u64> = BTreeMap::new();
    let (mut cases, mut mr, mut va, mut tc, mut un, mut nv) = (0, 0, 0, 0, 0, 0);
    let mut reused_total = 0;
    for s in states {
        reused_total += s.reused_compared;
        cases += s.cases; mr += s.malformed_rejected; va += s.valid_accepted; tc += s.transparency_compared; un += s.unspecified; nv += s.not_validating;
        for (k, n) in s.classes { *classes.entry(k).or_default() += n; }
        rep.violations.merge(s.v);
        for x in s.sample { rep.sample(x); }
    }
    let kinds: BTreeSet<Defect> = classes.keys().flatten().copied().collect();
    rep.set("evaluations", cases);
    rep.set("distinct_nontrivial", classes.len() as u64);
    rep.set("rule", "the <=2-edit neighbourhood (insert/delete/swap over the op alphabet in emfx/mutate.rs) of valid base entries plus the valid layers of C03, under every configuration of emfx/gen_.rs; each entry is classified from scratch by reference::defects (written from the property statement); distinct = distinct sets of simultaneous defects (the empty set = valid)");
    rep.set("scaled_entry_cases", scaled_cases);
    rep.set("exhaustive", true);
    rep.set("malformed_and_rejected", mr);
    rep.set("valid_and_accepted", va);
    rep.set("transparency_comparisons", tc);
    rep.set("statement_does_not_determine_skipped", un);
    rep.set("configuration_not_promising_validation", nv);
    rep.set("defect_kinds_covered", kinds.iter().map(|k| format!("{k:?}")).collect::<Vec<_>>());
    rep.set("defect_sets", classes.iter().map(|(k, n)| json!({"defects": format!("{k:?}"), "cases": n})).collect::<Vec<_>>());
    rep.set("debug_assertions", cfg!(debug_assertions));
    rep.set("cases_repeated_on_a_long_lived_formatter", reused_total);
    rep.assume("'enabled' = Emf::all_validations in every profile; Emf::builder()/skip_all_validations(false) only when debug assertions are on (its documentation says so)");
    rep.assume("same metric name under two different per-metric dimension sets lands in different records and is not a duplicate");
    rep.finish();
}
