//! C02 - EMF output is always complete, newline-framed, valid JSON records.
use serde_json::json;
use std::collections::BTreeSet;
use vh_common::report::Violations;
use vh_common::{Report, par};
use vh_seq::emfx::gen_::*;
use vh_seq::emfx::layers::{layers, walk};
use vh_seq::emfx::mutate::{for_each_neighbour, seeds};
use vh_seq::emfx::reference::*;
use vh_seq::emfx::*;

#[derive(Default)]
struct St {
    out: Vec<u8>,
    cases: u64,
    ok: u64,
    rejected: u64,
    lines: u64,
    bytes: u64,
    multi_line: u64,
    v: Violations,
    shapes: BTreeSet<u64>,
    sample: Option<serde_json::Value>,
}

/// A description-level classification of a syntax failure, so that distinct causes get distinct keys.
fn classify(entry: &EntryD, cfg: &CfgD) -> &'static str {
    let weight = cfg.mult.weight();
    for op in &entry.ops {
        if let OpD::Value(_, ValD::Metric { obs, .. }) = op {
            let usable: Vec<bool> = obs.iter().map(|o| expected_item(*o, weight).is_some()).collect();
            if usable.len() >= 2 && usable.iter().any(|u| *u) && !*usable.last().unwrap() {
                return "distribution-whose-last-observation-is-skipped";
            }
        }
    }
    "other"
}

/// writes a timestamp, two values and a metric whose third observation panics: a call that
/// unwinds out of the formatter after it has written into its buffers
struct PanickingEntry;
struct PanickingValue;
struct ExpectedPanic;
impl metrique_writer::Value for PanickingValue {
    fn write(&self, w: impl metrique_writer::ValueWriter) {
        let obs = (0..).map(|i| {
            if i >= 2 {
                std::panic::panic_any(ExpectedPanic);
            }
            metrique_writer::Observation::Unsigned(i + 1)
        });
        w.metric(obs, metrique_writer::Unit::None, [], metrique_writer::MetricFlags::empty());
    }
}
impl metrique_writer::Entry for PanickingEntry {
    fn write<'a>(&'a self, w: &mut impl metrique_writer::EntryWriter<'a>) {
        w.timestamp(std::time::UNIX_EPOCH + std::time::Duration::from_secs(1_700_000_000));
        w.value("A", "val-A");
        w.value("Before", &7u64);
        w.value("Panicking", &PanickingValue);
    }
}

fn check(st: &mut St, cfg: &CfgD, pristine: &Emf, entry: &EntryD) {
    let mut out = std::mem::take(&mut st.out);
    let outcome = run_fresh(pristine, cfg.mult, entry, &mut out);
    judge(st, cfg, entry, outcome, out, "");
}

/// `after`: empty for a fresh formatter, else what the long-lived formatter had formatted before
fn judge(st: &mut St, cfg: &CfgD, entry: &EntryD, outcome: Outcome, out: Vec<u8>, after: &str) {
    st.cases += 1;
    let small = |e: &EntryD| if e.ops.iter().any(|o| matches!(o, OpD::Value(_, ValD::Metric { obs, .. }) if obs.len() > 100)) { json!("huge (see gen_::huge_obs)") } else { e.to_json() };
    let replay = || if after.is_empty() { json!({"config": cfg.to_json(), "entry": small(entry)}) } else { json!({"config": cfg.to_json(), "entry": small(entry), "on_a_long_lived_formatter_after": after}) };
    let after_key = if after.is_empty() { "" } else if after.starts_with("clone") { ":on-clone-of-used-formatter" } else if after.starts_with("a call that unwound") { ":after-a-call-that-unwound" } else { ":after-huge-entry" };
    match &outcome {
        Outcome::Ok => {
            st.ok += 1;
            st.bytes += out.len() as u64;
            match parse_output(&out) {
                Ok(recs) => {
                    st.lines += recs.len() as u64;
                    if recs.len() > 1 {
                        st.multi_line += 1;
                    }
                    // shape hash: (#records, members per record, directive count) - to count distinct non-trivial outputs
                    let mut h = recs.len() as u64;
                    for r in &recs {
                        h = h.wrapping_mul(31).wrapping_add(r.members.len() as u64);
                        h = h.wrapping_mul(31).wrapping_add(r.directives.len() as u64);
                        for (_, m) in &r.members {
                            h = h.wrapping_mul(31).wrapping_add(match m {
                                MemberP::Str(s) => 1000 + s.len() as u64,
                                MemberP::Dist(d) => d.len() as u64,
                            });
                        }
                    }
                    st.shapes.insert(h);
                    if st.sample.is_none() && recs.len() > 1 {
                        st.sample = Some(json!({"config": cfg.to_json(), "entry": entry.to_json(),
                            "output": String::from_utf8_lossy(&out)}));
                    }
                }
                Err(msg) => {
                    let class = classify(entry, cfg);
                    let kind = msg.split(':').next().unwrap_or("").replace(' ', "-");
                    st.v.add(
                        format!("bad-output:{kind}:{class}{after_key}"),
                        format!("formatter reported success but the output is malformed: {msg}"),
                        replay(),
                    );
                }
            }
        }
        Outcome::Validation(_) => {
            st.rejected += 1;
            if !out.is_empty() {
                st.v.add(
                    format!("bytes-written-on-validation-error{after_key}"),
                    format!("validation error reported but {} bytes were written", out.len()),
                    replay(),
                );
            }
        }
        Outcome::Io(e) => {
            st.v.add("io-error-on-infallible-writer", format!("Io error {e} from a Vec writer"), replay());
        }
    }
    st.out = out;
}

fn main() {
    let mut rep = Report::from_args("C02", "exploration");
    let tier = rep.tier;
    if let Some(path) = rep.replay.clone() {
        replay(&mut rep, &path);
    }
    // 1. the shared layers (valid entries) + 2. their edit neighbourhood (malformed entries)
    let ls = layers(tier);
    let mut states = walk(&ls, St::default, |st, _l, cfg, pristine, entry| check(st, cfg, pristine, entry));
    let mut layer_sizes = vec![];
    for l in &ls {
        layer_sizes.push(json!({"layer": l.name, "cases": l.size()}));
    }
    // neighbourhood of a set of base entries, all configurations, validations on and off
    let cfgs = configs(tier);
    let pristine: Vec<Emf> = cfgs.iter().map(|c| c.build()).collect();
    let sd = seeds(tier, &cfgs);
    let nb_states = par::for_each_index(sd.len() as u64, 1, St::default, |st, i| {
        let seed = &sd[i as usize];
        for_each_neighbour(seed, tier, |entry| check(st, &cfgs[seed.ci], &pristine[seed.ci], entry));
    });
    let nb_cases: u64 = nb_states.iter().map(|s| s.cases).sum();
    layer_sizes.push(json!({"layer": "W edit neighbourhood (<=2 edits) of valid base entries", "cases": nb_cases, "base_entries": sd.len()}));
    states.extend(nb_states);
    // 3. every Unicode scalar value as a name, a string and a metric name
    let plain = [CfgD::simple(Ctor::NoValidations), CfgD::simple(Ctor::AllValidations)];
    let plain_p: Vec<Emf> = plain.iter().map(|c| c.build()).collect();
    let uni = par::for_each_index(0x110000, 4096, St::default, |st, cp| {
        let Some(c) = char::from_u32(cp as u32) else { return };
        for (cfg, p) in plain.iter().zip(&plain_p) {
            let name = c.to_string();
            let mname = format!("m{c}");
            let entry = EntryD { ops: vec![
                OpD::Timestamp(TS_BIG_NS),
                OpD::Value(name.clone(), ValD::Str(name.clone())),
                OpD::Value(mname.clone(), ValD::Metric { obs: vec![Obs::U(1)], unit: UnitD::None, dims: vec![], flag: FlagD::None }),
            ]};
            check(st, cfg, p, &entry);
            // content round trip through the strict parser
            if let Ok(recs) = parse_output(&st.out) {
                let ok = recs.len() == 1
                    && recs[0].members.iter().any(|(k, v)| *k == name && *v == MemberP::Str(name.clone()))
                    && recs[0].members.iter().any(|(k, _)| *k == mname)
                    && recs[0].directives.iter().all(|d| d.metrics.iter().any(|m| m.0 == mname));
                if !ok {
                    st.v.add("unicode-round-trip", format!("U+{cp:04X} does not survive as name/string"),
                        json!({"config": cfg.to_json(), "entry": entry.to_json()}));
                }
            }
        }
    });
    let uni_cases: u64 = uni.iter().map(|s| s.cases).sum();
    states.extend(uni);
    // pairs/triples over a 12-class alphabet
    let classes = ['"', '\\', '\u{0}', '\u{1f}', '\u{7f}', 'é', '\u{2028}', '\u{ffff}', '\u{10000}', '\u{10ffff}', 'a', '/'];
    let mut st = St::default();
    let mut words: Vec<String> = Vec::new();
    for a in classes { for b in classes { words.push(format!("{a}{b}")); for c in classes { words.push(format!("{a}{b}{c}")); } } }
    for w in &words {
        let entry = EntryD { ops: vec![OpD::Timestamp(TS_SMALL_NS), OpD::Value(w.clone(), ValD::Str(w.clone()))] };
        check(&mut st, &plain[0], &plain_p[0], &entry);
        if let Ok(recs) = parse_output(&st.out) {
            if !(recs.len() == 1 && recs[0].members == vec![(w.clone(), MemberP::Str(w.clone()))]) {
                st.v.add("unicode-round-trip", format!("{w:?} does not survive as name/string"), json!({"entry": entry.to_json()}));
            }
        }
    }
    // the same words in every configuration-string position (first / later namespace,
    // configured dimension name, log group), alone and all at once, over the base frames
    let mut cfg_cases = 0u64;
    let mut short_words: Vec<String> = classes.iter().map(|c| c.to_string()).collect();
    short_words.extend(words.iter().filter(|w| w.chars().count() == 2).cloned());
    for w in &short_words {
        let mut cs: Vec<CfgD> = Vec::new();
        let mut c = CfgD::simple(Ctor::NoValidations); c.namespaces = vec![w.clone()]; cs.push(c);
        let mut c = CfgD::simple(Ctor::AllValidations); c.default_dims = vec![vec![w.clone()]]; cs.push(c);
        let mut c = CfgD::simple(Ctor::Builder); c.namespaces = vec![w.clone(), "NS".into()]; cs.push(c);
        let mut c = CfgD::simple(Ctor::Builder); c.namespaces = vec!["NS".into(), w.clone(), format!("x{w}")]; cs.push(c);
        let mut c = CfgD::simple(Ctor::Builder); c.log_group = Some(w.clone()); cs.push(c);
        let mut c = CfgD::simple(Ctor::BuilderSkipTrue);
        c.namespaces = vec![w.clone(), format!("{w}2")];
        c.default_dims = vec![vec![], vec![w.clone()], vec![w.clone(), format!("{w}{w}")]];
        c.log_group = Some(w.clone());
        c.extra_directive = true;
        cs.push(c);
        for cfg in &cs {
            let p = cfg.build();
            for frame in frames(tier) {
                for values in [
                    vec![],
                    vec![("m".to_string(), ValD::Metric { obs: vec![Obs::U(1)], unit: UnitD::None, dims: vec![], flag: FlagD::None })],
                    vec![("m".to_string(), ValD::Metric { obs: vec![Obs::F(1.5), Obs::F(f64::NAN)], unit: UnitD::None, dims: vec![], flag: FlagD::None }),
                         ("d".to_string(), ValD::Metric { obs: vec![Obs::U(2)], unit: UnitD::None, dims: vec![("k".to_string(), w.clone())], flag: FlagD::None })],
                ] {
                    let entry = build_entry(cfg, frame, values);
                    check(&mut st, cfg, &p, &entry);
                    cfg_cases += 1;
                    if let Ok(recs) = parse_output(&st.out) {
                        let want: Vec<&String> = cfg.namespaces.iter().collect();
                        for r in &recs {
                            let got: Vec<&String> = r.directives.iter().map(|d| &d.ns).take(want.len()).collect();
                            if got != want {
                                st.v.add("config-string-round-trip", format!("namespaces {want:?} come out as {got:?}"), json!({"config": cfg.to_json(), "entry": entry.to_json()}));
                            }
                        }
                    }
                }
            }
        }
    }
    states.push(st);
    // 4. the base entries on a long-lived formatter that has just formatted an entry whose metric
    //    text exceeds 1 MiB (buffer shrinking must keep every constant prefix)
    let mut st = St::default();
    let mut after_huge = 0u64;
    for cfg in &cfgs {
        let huge = build_entry(cfg, frame_minimal(), vec![(s("H"), ValD::Metric { obs: huge_obs(), unit: UnitD::None, dims: vec![], flag: FlagD::None })]);
        let huge_split = build_entry(cfg, frame_minimal(), vec![(s("H"), ValD::Metric { obs: huge_obs(), unit: UnitD::None, dims: vec![(s("k"), s("v"))], flag: FlagD::None })]);
        // a small split line first, then more than 1 MiB in the last line of the same entry
        let small_then_huge = build_entry(cfg, frame_minimal(), vec![(s("S"), ValD::Metric { obs: vec![Obs::U(1)], unit: UnitD::None, dims: vec![(s("k"), s("v"))], flag: FlagD::None }), (s("H"), ValD::Metric { obs: huge_obs(), unit: UnitD::None, dims: vec![], flag: FlagD::None })]);
        for big in [&huge, &huge_split, &small_then_huge] {
            let mut r = Runner::new(cfg);
            let mut out = Vec::new();
            let o = r.format(big, &mut out);
            judge(&mut st, cfg, big, o, out, "");
            for frame in frames(tier) {
                for values in vh_seq::emfx::mutate::base_value_sets() {
                    let entry = build_entry(cfg, frame, values);
                    let mut out = Vec::new();
                    let o = r.format(&entry, &mut out);
                    judge(&mut st, cfg, &entry, o, out, "an entry with 1.2 MB of metric text");
                    after_huge += 1;
                }
            }
        }
    }
    // 4b. a clone of a used formatter: after every prefix of the base entries formatted on one
    //     long-lived formatter, the formatter is cloned and the clone formats the next entry
    let mut on_clone = 0u64;
    for cfg in &cfgs {
        let mut r = Runner::new(cfg);
        for frame in frames(tier) {
            for values in vh_seq::emfx::mutate::base_value_sets() {
                let entry = build_entry(cfg, frame, values);
                if let Some(mut c) = r.clone_used() {
                    let mut out = Vec::new();
                    let o = c.format(&entry, &mut out);
                    judge(&mut st, cfg, &entry, o, out, "clone of a formatter that had formatted the base entries before this one");
                    on_clone += 1;
                }
                let mut out = Vec::new();
                let _ = r.format(&entry, &mut out);
            }
        }
    }
    // 4c. the formatter goes on being used after a call that unwound (a value panicked in the
    //     middle of its distribution; the panic is caught by the caller)
    let mut after_unwind = 0u64;
    {
        let default_hook = std::panic::take_hook();
        std::panic::set_hook(Box::new(move |info| {
            if !info.payload().is::<ExpectedPanic>() {
                default_hook(info);
            }
        }));
        for cfg in &cfgs {
            let mut r = Runner::new(cfg);
            for frame in frames(tier) {
                for values in vh_seq::emfx::mutate::base_value_sets() {
                    let entry = build_entry(cfg, frame, values);
                    let mut sink = Vec::new();
                    let unwound = std::panic::catch_unwind(std::panic::AssertUnwindSafe(|| r.format_entry(&PanickingEntry, &mut sink))).is_err();
                    let mut out = Vec::new();
                    let o = r.format(&entry, &mut out);
                    if unwound {
                        judge(&mut st, cfg, &entry, o, out, "a call that unwound out of the formatter (a value panicked mid-distribution)");
                        after_unwind += 1;
                    }
                }
            }
        }
        let _ = std::panic::take_hook();
    }
    // 5. entries scaled past the small alphabets
    let mut scaled_cases = 0u64;
    for cfg in scaled_configs() {
        let p = cfg.build();
        for (_name, entry) in scaled_entries(&cfg, tier) {
            check(&mut st, &cfg, &p, &entry);
            scaled_cases += 1;
        }
    }
    states.push(st);

    let mut shapes = BTreeSet::new();
    let (mut cases, mut ok, mut rejected, mut lines, mut bytes, mut multi) = (0, 0, 0, 0, 0, 0);
    for s in states {
        cases += s.cases; ok += s.ok; rejected += s.rejected; lines += s.lines; bytes += s.bytes; multi += s.multi_line;
        shapes.extend(s.shapes);
        rep.violations.merge(s.v);
        if let Some(x) = s.sample { rep.sample(x); }
    }
    rep.set("evaluations", cases);
    rep.set("cases_on_a_clone_of_a_used_formatter", on_clone);
    rep.set("cases_after_a_call_that_unwound", after_unwind);
    rep.set("distinct_nontrivial", shapes.len() as u64);
    rep.set("rule", "complete cross products of the alphabets in emfx/gen_.rs (layers A1,A2,B,C), the <=2-edit neighbourhood of valid base entries (layer W), and every Unicode scalar value as name/string; a case is non-trivial if the formatter accepted it, counted distinct by output shape (#records, members per record, directive count, per-member observation count / string length)");
    rep.set("exhaustive", true);
    rep.set("accepted", ok);
    rep.set("rejected_with_validation_error", rejected);
    rep.set("output_lines_parsed", lines);
    rep.set("output_bytes_parsed", bytes);
    rep.set("multi_record_outputs", multi);
    rep.set("unicode_scalar_cases", uni_cases);
    rep.set("config_string_cases", cfg_cases);
    rep.set("scaled_entry_cases", scaled_cases);
    rep.set("cases_after_a_huge_entry_on_one_formatter", after_huge);
    rep.set("layers", layer_sizes);
    rep.set("configurations", configs(tier).len() as u64);
    rep.assume("oracle = own strict RFC 8259 parser (vh-common/src/json.rs), independent of serde_json");
    rep.assume("the io::Write is an infallible Vec<u8>; partial writes are C16's subject");
    rep.finish();
}

fn replay(_rep: &mut Report, path: &std::path::Path) -> ! {
    // re-run exactly the recorded (config, entry) case on a fresh real formatter
    let ok = vh_seq::emfx::replay_file(path);
    println!("REPLAY {}", if ok { "no violation reproduced" } else { "violation reproduced" });
    std::process::exit(if ok { 0 } else { 1 })
}
