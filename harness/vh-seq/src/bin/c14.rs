//! C14 - formatting one entry never depends on entries formatted before it.
use serde_json::json;
use std::collections::BTreeSet;
use std::io;
use vh_common::report::Violations;
use vh_common::{Report, Tier, par};
use vh_seq::emfx::gen_::*;
use vh_seq::emfx::*;

/// a writer that accepts `limit` bytes and then fails hard
struct FailAfter {
    limit: usize,
    got: Vec<u8>,
}
impl io::Write for FailAfter {
    fn write(&mut self, buf: &[u8]) -> io::Result<usize> {
        if self.got.len() >= self.limit {
            return Err(io::Error::other("scripted failure"));
        }
        let n = buf.len().min(self.limit - self.got.len());
        self.got.extend_from_slice(&buf[..n]);
        Ok(n)
    }
    fn flush(&mut self) -> io::Result<()> {
        Ok(())
    }
}

#[derive(Clone)]
struct Kind {
    name: &'static str,
    entry: EntryD,
    /// Some(k): the writer fails after k bytes
    fail_after: Option<usize>,
    /// compare the bytes of this step too (false for multi-record entries written to a failing
    /// writer: which record comes first is not defined, so only the decision is compared)
    compare_bytes: bool,
    /// how a sampling formatter is called for this step: its configured rate, the unsampled
    /// `Format::format` route of the same formatter, or another rate
    mode: Mode,
    /// instead of `entry`: an entry whose distribution iterator panics on its third `next()`
    /// (the panic is caught above the formatter, which is then used again)
    panics: bool,
}

/// timestamp, the configured dimension `A`, a metric whose observations are 1, 2, then a panic
struct PanickingEntry;
struct PanickingValue;
struct ExpectedPanic;
impl metrique_writer::Value for PanickingValue {
    fn write(&self, w: impl metrique_writer::ValueWriter) {
        let obs = (0..).map(|i| {
            if i >= 2 {
                std::panic::panic_any(ExpectedPanic);
            }
            metrique_writer::Observation::Unsigned(i + 1)
        });
        w.metric(obs, metrique_writer::Unit::None, [], metrique_writer::MetricFlags::empty());
    }
}
impl metrique_writer::Entry for PanickingEntry {
    fn write<'a>(&'a self, w: &mut impl metrique_writer::EntryWriter<'a>) {
        w.timestamp(std::time::UNIX_EPOCH + std::time::Duration::from_secs(1_700_000_000));
        w.value("A", "val-A");
        w.value("Before", &7u64);
        w.value("Panicking", &PanickingValue);
    }
}

#[derive(Clone, Copy, PartialEq)]
enum Mode {
    Configured,
    Bypass,
    Rate(f32),
}

fn kinds(cfg: &CfgD, tier: Tier) -> Vec<Kind> {
    let m = |obs: Vec<Obs>, dims: Vec<(String, String)>| ValD::Metric { obs, unit: UnitD::Milli, dims, flag: FlagD::None };
    let f = frame_minimal();
    let valid = |vals: Vec<(String, ValD)>| build_entry(cfg, f, vals);
    let scalar = valid(vec![(s("M"), m(vec![Obs::U(7)], vec![]))]);
    let mut dup = scalar.clone();
    dup.ops.push(OpD::Value(s("M"), ValD::Str(s("again"))));
    let mut missing = scalar.clone();
    missing.ops.retain(|o| !matches!(o, OpD::Value(n, ValD::Str(_)) if n == "A"));
    let mut two_ts = scalar.clone();
    two_ts.ops.push(OpD::Timestamp(TS_SMALL_NS));
    let mut empty_name = scalar.clone();
    empty_name.ops.push(OpD::Value(s(""), ValD::Str(s("x"))));
    let mut no_split = valid(vec![(s("M"), m(vec![Obs::U(7)], vec![(s("k"), s("v"))]))]);
    no_split.ops.retain(|o| !matches!(o, OpD::Config(ConfD::Split)));
    let split2 = valid(vec![
        (s("M"), m(vec![Obs::U(7)], vec![(s("k"), s("v"))])),
        (s("N"), m(vec![Obs::F(1.5), Obs::U(2)], vec![(s("k"), s("w")), (s("j"), s("x"))])),
        (s("G"), m(vec![Obs::U(1)], vec![])),
        (s("S"), ValD::Str(s("text\""))),
    ]);
    let edims = build_entry(cfg, Frame { ts: TsD::Small, edims: EDimsD::Two, dim_strings_last: true, always_split: false },
        vec![(s("M"), m(vec![Obs::U(3)], vec![]))]);
    // split records under entry-level dimension sets, sharing the per-metric dimension set
    // k=v with `split2` (whose base dimension sets are the configured ones)
    let split_edims = build_entry(cfg, Frame { ts: TsD::Big, edims: EDimsD::One, dim_strings_last: false, always_split: false },
        vec![(s("M"), m(vec![Obs::U(5)], vec![(s("k"), s("v"))])), (s("G"), m(vec![Obs::U(1)], vec![]))]);
    let split_edims2 = build_entry(cfg, Frame { ts: TsD::Big, edims: EDimsD::Two, dim_strings_last: false, always_split: false },
        vec![(s("M"), m(vec![Obs::U(5)], vec![(s("k"), s("v"))]))]);
    // the entry-level dimension E declared but not written / written as a metric
    let mut edims_missing = edims.clone();
    edims_missing.ops.retain(|o| !matches!(o, OpD::Value(n, ValD::Str(_)) if n == "E"));
    let mut edims_metric = edims_missing.clone();
    edims_metric.ops.push(OpD::Value(s("E"), m(vec![Obs::U(7)], vec![])));
    // the same dimension names grouped differently
    let edims_of = |sets: Vec<Vec<String>>| {
        let mut e = build_entry(cfg, Frame { ts: TsD::Small, edims: EDimsD::Two, dim_strings_last: true, always_split: false }, vec![(s("M"), m(vec![Obs::U(3)], vec![]))]);
        for o in &mut e.ops {
            if let OpD::Config(ConfD::EntryDims(x)) = o {
                *x = sets.clone();
            }
        }
        e
    };
    let edims_grouped = edims_of(vec![vec![s("E"), s("F")]]);
    let edims_separate = edims_of(vec![vec![s("E")], vec![s("F")]]);
    let mut edims_twice = edims.clone();
    edims_twice.ops.insert(0, OpD::Config(ConfD::EntryDims(vec![vec![s("E")]])));
    let unroutable = EntryD { ops: vec![OpD::Config(ConfD::Unroutable), OpD::Value(s("MetriqueValidationError"), ValD::Str(s("in-band error report")))] };
    let mut unroutable_ts = unroutable.clone();
    unroutable_ts.ops.push(OpD::Timestamp(TS_BIG_NS));
    let nan_only = valid(vec![(s("M"), m(vec![Obs::F(f64::NAN)], vec![])), (s("N"), m(vec![Obs::U(1), Obs::F(f64::NAN)], vec![(s("k"), s("v"))]))]);
    let large = valid(vec![(s("Big"), ValD::Str("x".repeat(1_300_000))), (s("M"), m(vec![Obs::U(7), Obs::U(8)], vec![]))]);
    // a metric whose text alone exceeds 1 MiB (the formatter's per-record buffers, unlike the
    // string buffer that `large-1.3MB` grows, carry a constant prefix)
    let huge_dist = valid(vec![(s("H"), m(huge_obs(), vec![])), (s("M"), m(vec![Obs::U(7)], vec![]))]);
    let huge_split = valid(vec![(s("H"), m(huge_obs(), vec![(s("k"), s("v"))]))]);
    let err_val = valid(vec![(s("M"), ValD::Error(s("value error")))]);
    // a timestamp before the unix epoch (emitted as 0, whatever was formatted before)
    let pre_epoch = build_entry(cfg, Frame { ts: TsD::PreEpoch, ..f }, vec![(s("M"), m(vec![Obs::U(7)], vec![]))]);
    let dist = valid(vec![(s("M"), m(vec![Obs::U(7), Obs::F(2.5), Obs::R(9.0, 3)], vec![])), (s("S"), ValD::Str(s("q\"")))]);
    let k = |name, entry, fail_after| Kind { name, entry, fail_after, compare_bytes: true, mode: Mode::Configured, panics: false };
    let kd = |name, entry, fail_after| Kind { name, entry, fail_after, compare_bytes: false, mode: Mode::Configured, panics: false };
    let km = |name, entry, mode| Kind { name, entry, fail_after: None, compare_bytes: true, mode, panics: false };
    let mut extra = Vec::new();
    if cfg.mult != Mult::None {
        // one sampling formatter called through both of its routes and at several rates
        extra.extend([
            km("unsampled-route-scalar", scalar.clone(), Mode::Bypass),
            km("unsampled-route-distribution", dist.clone(), Mode::Bypass),
            km("unsampled-route-split", split2.clone(), Mode::Bypass),
            km("rate-one-distribution", dist.clone(), Mode::Rate(1.0)),
            km("rate-quarter-distribution", dist.clone(), Mode::Rate(0.25)),
            km("rate-tiny-scalar", scalar.clone(), Mode::Rate(f32::from_bits(0x1c80_0000))),
        ]);
    }
    let mut v = vec![
        k("valid-scalar", scalar.clone(), None),
        k("valid-distribution", dist.clone(), None),
        k("defect-duplicate-name", dup, None),
        k("defect-missing-dimension", missing, None),
        k("defect-two-timestamps", two_ts, None),
        k("defect-empty-name", empty_name, None),
        k("defect-dimensions-without-split", no_split, None),
        k("split-two-sets", split2.clone(), None),
        k("entry-dimensions", edims.clone(), None),
        k("split-under-entry-dimensions", split_edims, None),
        k("split-under-two-entry-dimension-sets", split_edims2, None),
        k("entry-dimensions-E-F-in-one-set", edims_grouped, None),
        k("entry-dimensions-E-and-F-in-two-sets", edims_separate, None),
        k("defect-entry-dimensions-twice", edims_twice, None),
        k("defect-entry-dimension-not-written", edims_missing, None),
        k("defect-metric-under-entry-dimension-name", edims_metric, None),
        k("unroutable-error-entry", unroutable_ts, None),
        k("io-failure-at-0-entry-dimensions", edims.clone(), Some(0)),
        k("io-failure-mid-record-entry-dimensions", edims.clone(), Some(70)),
        kd("io-failure-in-second-record-of-split", split2.clone(), Some(260)),
        k("io-failure-large", large.clone(), Some(1_100_000)),
        k("nan-only-metrics", nan_only, None),
        k("large-1.3MB", large.clone(), None),
        k("huge-distribution-1.2MB", huge_dist, None),
        k("value-error", err_val, None),
        k("timestamp-before-the-epoch", pre_epoch, None),
        k("io-failure-at-0", scalar.clone(), Some(0)),
        k("io-failure-mid-record", dist, Some(60)),
    ];
    if tier == Tier::Thorough {
        v.push(k("huge-distribution-in-split-record", huge_split, None));
    }
    v.push(Kind { name: "value-panics-in-the-middle-of-its-distribution", entry: scalar.clone(), fail_after: None, compare_bytes: true, mode: Mode::Configured, panics: true });
    v.extend(extra);
    v
}

fn c14_configs() -> Vec<CfgD> {
    let a = |ctor| { let mut c = CfgD::simple(ctor); c.default_dims = vec![vec![s("A")]]; c };
    let mut rich = a(Ctor::Builder);
    rich.namespaces = vec![s("NS"), s("N\"2")];
    rich.extra_directive = true;
    rich.log_group = Some(s("lg"));
    let mut ign = a(Ctor::Builder);
    ign.allow_ignored = true;
    let mut sampled = a(Ctor::AllValidations);
    sampled.mult = Mult::Two;
    let mut three = a(Ctor::BuilderSkipTrue);
    three.namespaces = vec![s("NS"), s("N2"), s("N3")];
    three.default_dims = vec![vec![s("A")], vec![]];
    vec![a(Ctor::AllValidations), a(Ctor::NoValidations), rich, ign, sampled, three]
}

type Obsv = (String, Vec<Vec<u8>>);

fn step(r: &mut Runner, k: &Kind) -> Obsv {
    if k.panics {
        let mut out = Vec::new();
        let res = std::panic::catch_unwind(std::panic::AssertUnwindSafe(|| r.format_entry(&PanickingEntry, &mut out)));
        let outcome = match res {
            Err(p) if p.is::<ExpectedPanic>() => "the value's panic propagated".to_string(),
            Err(_) => "another panic".to_string(),
            Ok(o) => format!("{o:?}"),
        };
        let mut lines: Vec<Vec<u8>> = out.split_inclusive(|c| *c == b'\n').map(|l| l.to_vec()).collect();
        lines.sort();
        return (outcome, lines);
    }
    fn call(r: &mut Runner, k: &Kind, w: &mut impl io::Write) -> Outcome {
        match k.mode {
            Mode::Configured => r.format(&k.entry, w),
            Mode::Bypass => r.format_in_mode(&k.entry, w, None),
            Mode::Rate(rate) => r.format_in_mode(&k.entry, w, Some(rate)),
        }
    }
    let (outcome, bytes) = match k.fail_after {
        None => {
            let mut out = Vec::new();
            let o = call(r, k, &mut out);
            (o, out)
        }
        Some(limit) => {
            let mut w = FailAfter { limit, got: Vec::new() };
            let o = call(r, k, &mut w);
            (o, w.got)
        }
    };
    let mut lines: Vec<Vec<u8>> = bytes.split_inclusive(|c| *c == b'\n').map(|l| l.to_vec()).collect();
    lines.sort();
    (format!("{outcome:?}"), lines)
}

#[derive(Default)]
struct St {
    sequences: u64,
    formats: u64,
    clones: u64,
    v: Violations,
    outcomes: BTreeSet<(usize, String)>,
}

fn main() {
    let mut rep = Report::from_args("C14", "model_checking");
    // a panic of the formatter inside a history is caught and judged; keep stderr readable
    std::panic::set_hook(Box::new(|_| {}));
    let depth: u32 = rep.tier.pick(3, 4);
    let cfgs = c14_configs();
    let mut all_states = Vec::new();
    let mut nkinds = 0;
    for (ci, cfg) in cfgs.iter().enumerate() {
        let ks = kinds(cfg, rep.tier);
        nkinds = nkinds.max(ks.len());
        let pristine = cfg.build();
        // reference observation of each kind on a fresh formatter
        let fresh: Vec<Obsv> = ks.iter().map(|k| step(&mut Runner::from_emf(pristine.clone(), cfg.mult), k)).collect();
        // sanity: the differential oracle needs deterministic fresh runs
        for (k, f) in ks.iter().zip(&fresh) {
            let again = step(&mut Runner::from_emf(pristine.clone(), cfg.mult), k);
            if again != *f {
                println!("MACHINERY-FAILURE: fresh formatter is not deterministic for {}", k.name);
                std::process::exit(2);
            }
        }
        let n = ks.len() as u64;
        let mut total = 0u64;
        for d in 1..=depth { total += n.pow(d); }
        let states = par::for_each_index(total, 64, St::default, |st, mut idx| {
            // decode (length, digits)
            let mut len = 1;
            while idx >= n.pow(len) { idx -= n.pow(len); len += 1; }
            let mut seq = Vec::with_capacity(len as usize);
            for _ in 0..len { seq.push((idx % n) as usize); idx /= n; }
            let mut r = Runner::from_emf(pristine.clone(), cfg.mult);
            st.sequences += 1;
            for (pos, &ki) in seq.iter().enumerate() {
                if pos + 1 == seq.len() && pos > 0 {
                    // a clone taken after the history must behave like a fresh formatter too
                    if let Some(mut c) = r.clone_used() {
                        let oc = std::panic::catch_unwind(std::panic::AssertUnwindSafe(|| step(&mut c, &ks[ki])));
                        st.formats += 1;
                        st.clones += 1;
                        let differs = match &oc {
                            Ok(o) => if ks[ki].compare_bytes { *o != fresh[ki] } else { o.0 != fresh[ki].0 },
                            Err(_) => true,
                        };
                        if differs {
                            let prefix: Vec<&str> = seq[..pos].iter().map(|&i| ks[i].name).collect();
                            st.v.add(
                                format!("clone-of-used-formatter-differs:{}", ks[ki].name),
                                format!("a clone of a formatter that had formatted {:?} formats {} differently from a fresh formatter (or panics)", prefix, ks[ki].name),
                                json!({"config": cfg.to_json(), "history": prefix, "then": "clone the formatter", "entry_kind": ks[ki].name,
                                    "got": oc.as_ref().ok().map(|o| json!({"outcome": o.0, "lines": o.1.iter().map(|l| String::from_utf8_lossy(&l[..l.len().min(600)]).to_string()).collect::<Vec<_>>()})),
                                    "fresh": {"outcome": fresh[ki].0.clone(), "lines": fresh[ki].1.iter().map(|l| String::from_utf8_lossy(&l[..l.len().min(600)]).to_string()).collect::<Vec<_>>()}}),
                            );
                        }
                    }
                }
                let o = match std::panic::catch_unwind(std::panic::AssertUnwindSafe(|| step(&mut r, &ks[ki]))) {
                    Ok(o) => o,
                    Err(_) => {
                        // no kind panics on a fresh formatter (the reference observations above exist)
                        let prefix: Vec<&str> = seq[..pos].iter().map(|&i| ks[i].name).collect();
                        st.v.add(
                            format!("history-dependent-panic:{}", ks[ki].name),
                            format!("formatting {} after {:?} panics; a fresh formatter formats it", ks[ki].name, prefix),
                            json!({"config": cfg.to_json(), "history": prefix, "entry_kind": ks[ki].name}),
                        );
                        break;
                    }
                };
                st.formats += 1;
                if pos + 1 == seq.len() {
                    st.outcomes.insert((ki, o.0.chars().take(12).collect()));
                    let differs = if ks[ki].compare_bytes { o != fresh[ki] } else { o.0 != fresh[ki].0 };
                    if differs {
                        let prefix: Vec<&str> = seq[..pos].iter().map(|&i| ks[i].name).collect();
                        let what = if o.0 != fresh[ki].0 { "decision" } else { "records" };
                        st.v.add(
                            format!("history-dependent-{what}:{}", ks[ki].name),
                            format!("formatting {} after {:?} gives different {what} than a fresh formatter", ks[ki].name, prefix),
                            json!({"config": cfg.to_json(), "history": prefix, "entry_kind": ks[ki].name, "entry": if ks[ki].entry.ops.len() < 12 && !ks[ki].name.starts_with("large") && !ks[ki].name.starts_with("huge") { ks[ki].entry.to_json() } else { json!("large") },
                                "got": {"outcome": o.0, "lines": o.1.iter().map(|l| String::from_utf8_lossy(&l[..l.len().min(600)]).to_string()).collect::<Vec<_>>()},
                                "fresh": {"outcome": fresh[ki].0.clone(), "lines": fresh[ki].1.iter().map(|l| String::from_utf8_lossy(&l[..l.len().min(600)]).to_string()).collect::<Vec<_>>()}}),
                        );
                    }
                }
            }
        });
        for mut s in states {
            let oc = std::mem::take(&mut s.outcomes);
            s.outcomes = oc.into_iter().map(|(k, o)| (k + 100 * ci, o)).collect();
            all_states.push(s);
        }
    }
    let (mut seqs, mut formats) = (0, 0);
    let mut clones = 0u64;
    let mut outcomes = BTreeSet::new();
    for s in all_states {
        seqs += s.sequences; formats += s.formats; clones += s.clones;
        outcomes.extend(s.outcomes);
        rep.violations.merge(s.v);
    }
    rep.set("states", seqs);
    rep.set("transitions", formats);
    rep.set("traces_validated_against_impl", seqs);
    rep.set("distinct_outcomes", outcomes.len() as u64);
    rep.set("last_steps_repeated_on_a_clone_of_the_used_formatter", clones);
    rep.set("exhaustive", true);
    rep.set("depth", depth);
    rep.set("entry_kinds", nkinds as u64);
    rep.set("configurations", cfgs.len() as u64);
    rep.set("explanation", "every sequence of entry kinds up to the depth is fed to ONE long-lived real formatter (a state = the history); after the last step its decision and records (multiset of lines) must equal those of a fresh formatter with the same configuration on the same entry");
    rep.sample(json!({"history": ["large-1.3MB", "defect-duplicate-name", "io-failure-mid-record"], "then": "split-two-sets", "expect": "same records as fresh"}));
    rep.assume("the sampling configuration also calls its formatter through the unsampled Format::format route and at rates 1, 1/4 and 2^-70 (constant random source, so the weight of a step is a function of its rate)");
    rep.assume("every entry kind carries its own timestamp, so outputs are deterministic");
    rep.assume("split records come out of a hash map: compared as a multiset of lines");
    rep.finish();
}
