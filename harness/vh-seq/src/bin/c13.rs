//! C13 (sequential part) - slot values are never lost in wait mode and never partial in discard
//! mode: explicit-state search over every order of opening (Slot / LazySlot, wait / discard),
//! mutating through the guard, dropping the guard, dropping the parent, creating/dropping a
//! force-flush guard, re-opening and waiting for data. (Thread placements: loom, vh-sched.)
use metrique::unit_of_work::metrics;
use metrique::{AppendAndCloseOnDrop, ForceFlushGuard, LazySlot, OnParentDrop, RootMetric, Slot, SlotGuard};
use metrique_writer::sink::VecEntrySink;
use metrique_writer::test_util::to_test_entry;
use serde_json::json;
use std::collections::BTreeSet;
use vh_common::report::Violations;
use vh_common::{Report, par};

#[metrics]
#[derive(Default)]
struct Child {
    n: usize,
}
#[metrics]
#[derive(Default)]
struct Child2 {
    m: usize,
}
#[metrics]
#[derive(Default)]
struct Work {
    a: usize,
    #[metrics(flatten)]
    child: Slot<Child>,
    #[metrics(flatten)]
    lazy: LazySlot<Child2>,
}
type Sink = VecEntrySink<RootMetric<Work>>;

#[derive(Clone, Copy, Debug, PartialEq, Eq, PartialOrd, Ord, Hash)]
enum Op {
    OpenSlot(bool), // true = wait mode
    OpenLazy(bool),
    ReopenSlot,
    ReopenLazy,
    /// a second open in wait mode: refused, and the flush guard handed over must not be kept
    ReopenSlotWait,
    ReopenLazyWait,
    MutSlot,
    MutLazy,
    DropSlotGuard,
    DropLazyGuard,
    MutParent,
    DropParent,
    /// the parent is consumed by `Instrumented::from_parts((), parent).emit()`
    EmitParent,
    MkForce,
    DropForce,
    WaitForData,
    /// `slot_guard.delay_flush(parent.flush_guard())` on a guard opened in discard mode
    DelayFlushSlot,
    DelayFlushLazy,
    /// `parent.child = Slot::default()` while the slot's guard is out: the guard is orphaned
    /// (its value can no longer be delivered) but keeps whatever flush guard it holds
    RearmSlot,
    /// `orphan.delay_flush(parent.flush_guard())`
    DelayFlushOrphan,
    DropOrphan,
}

#[derive(Clone, Copy, Debug, PartialEq, Eq, PartialOrd, Ord, Hash)]
enum SlotM {
    Unopened,
    Open { wait: bool, value: u64 },
    Returned { value: u64 },
}

#[derive(Clone, Debug, PartialEq, Eq, PartialOrd, Ord, Hash)]
struct Model {
    parent_alive: bool,
    a: u64,
    slot: SlotM,
    lazy: SlotM,
    force_alive: bool,
    force_dropped: bool,
    /// the guard of a slot that was re-armed: Some(holds a flush guard)
    orphan: Option<bool>,
    rearmed: bool,
    /// what the appended entry must contain: (a, n, m)
    appended: Option<(u64, Option<u64>, Option<u64>)>,
}

impl Model {
    fn settle(&mut self) {
        if self.appended.is_some() || self.parent_alive {
            return;
        }
        let holding = |s: &SlotM| matches!(s, SlotM::Open { wait: true, .. });
        if (!holding(&self.slot) && !holding(&self.lazy) && self.orphan != Some(true)) || self.force_dropped {
            let val = |s: &SlotM| match s {
                SlotM::Returned { value } => Some(*value),
                _ => None,
            };
            self.appended = Some((self.a, val(&self.slot), val(&self.lazy)));
        }
    }
    fn enabled(&self) -> Vec<Op> {
        let mut v = Vec::new();
        if self.parent_alive {
            match self.slot {
                SlotM::Unopened => {
                    v.push(Op::OpenSlot(true));
                    v.push(Op::OpenSlot(false));
                }
                _ => {
                    v.push(Op::ReopenSlot);
                    v.push(Op::ReopenSlotWait);
                }
            }
            match self.lazy {
                SlotM::Unopened => {
                    v.push(Op::OpenLazy(true));
                    v.push(Op::OpenLazy(false));
                }
                _ => {
                    v.push(Op::ReopenLazy);
                    v.push(Op::ReopenLazyWait);
                }
            }
            v.push(Op::MutParent);
            v.push(Op::DropParent);
            v.push(Op::EmitParent);
            if !self.force_alive && !self.force_dropped {
                v.push(Op::MkForce);
            }
            if matches!(self.slot, SlotM::Returned { .. }) {
                v.push(Op::WaitForData);
            }
            // (also on a guard that already holds a flush guard: a redundant call changes nothing)
            if matches!(self.slot, SlotM::Open { .. }) {
                v.push(Op::DelayFlushSlot);
            }
            if matches!(self.lazy, SlotM::Open { .. }) {
                v.push(Op::DelayFlushLazy);
            }
            if matches!(self.slot, SlotM::Open { .. }) && !self.rearmed {
                v.push(Op::RearmSlot);
            }
            if self.orphan.is_some() {
                v.push(Op::DelayFlushOrphan);
            }
        }
        if self.orphan.is_some() {
            v.push(Op::DropOrphan);
        }
        if matches!(self.slot, SlotM::Open { .. }) {
            v.push(Op::MutSlot);
            v.push(Op::DropSlotGuard);
        }
        if matches!(self.lazy, SlotM::Open { .. }) {
            v.push(Op::MutLazy);
            v.push(Op::DropLazyGuard);
        }
        if self.force_alive {
            v.push(Op::DropForce);
        }
        v
    }
    fn apply(&mut self, op: Op) {
        match op {
            Op::OpenSlot(w) => self.slot = SlotM::Open { wait: w, value: 0 },
            Op::OpenLazy(w) => self.lazy = SlotM::Open { wait: w, value: 0 },
            Op::ReopenSlot | Op::ReopenLazy | Op::ReopenSlotWait | Op::ReopenLazyWait | Op::WaitForData => {}
            Op::MutSlot => {
                if let SlotM::Open { value, .. } = &mut self.slot {
                    *value += 1
                }
            }
            Op::MutLazy => {
                if let SlotM::Open { value, .. } = &mut self.lazy {
                    *value += 1
                }
            }
            Op::DropSlotGuard => {
                if let SlotM::Open { value, .. } = self.slot {
                    // a value sent after the entry was closed is simply lost
                    self.slot = SlotM::Returned { value }
                }
            }
            Op::DropLazyGuard => {
                if let SlotM::Open { value, .. } = self.lazy {
                    self.lazy = SlotM::Returned { value }
                }
            }
            Op::MutParent => self.a += 1,
            Op::DelayFlushSlot => {
                if let SlotM::Open { wait, .. } = &mut self.slot {
                    *wait = true
                }
            }
            Op::DelayFlushLazy => {
                if let SlotM::Open { wait, .. } = &mut self.lazy {
                    *wait = true
                }
            }
            Op::RearmSlot => {
                if let SlotM::Open { wait, .. } = self.slot {
                    self.orphan = Some(wait);
                    self.rearmed = true;
                    self.slot = SlotM::Unopened;
                }
            }
            Op::DelayFlushOrphan => self.orphan = Some(true),
            Op::DropOrphan => self.orphan = None,
            Op::DropParent | Op::EmitParent => self.parent_alive = false,
            Op::MkForce => self.force_alive = true,
            Op::DropForce => {
                self.force_alive = false;
                self.force_dropped = true;
            }
        }
        self.settle();
    }
}

struct World {
    sink: Sink,
    parent: Option<AppendAndCloseOnDrop<Work, Sink>>,
    slot_guard: Option<SlotGuard<Child>>,
    lazy_guard: Option<SlotGuard<Child2>>,
    orphan: Option<SlotGuard<Child>>,
    force: Option<ForceFlushGuard>,
    problems: Vec<String>,
    /// environment of this replay: every drop happens by the unwinding of a caught panic
    unwinding: bool,
}

/// Drops `x` plainly or by the unwinding of a caught panic of its owner.
fn drop_it<T>(x: T, unwinding: bool) {
    if unwinding {
        let r = std::panic::catch_unwind(std::panic::AssertUnwindSafe(move || {
            let _owned = x;
            std::panic::panic_any(ExpectedUnwind);
        }));
        assert!(r.is_err());
    } else {
        drop(x);
    }
}
struct ExpectedUnwind;

impl World {
    fn new(unwinding: bool) -> World {
        let sink = VecEntrySink::new();
        World {
            unwinding,
            parent: Some(Work::default().append_on_drop(sink.clone())),
            sink,
            slot_guard: None,
            lazy_guard: None,
            orphan: None,
            force: None,
            problems: vec![],
        }
    }
    fn apply(&mut self, op: Op) {
        let mode = |p: &AppendAndCloseOnDrop<Work, Sink>, wait: bool| if wait { OnParentDrop::Wait(p.flush_guard()) } else { OnParentDrop::Discard };
        match op {
            Op::OpenSlot(w) => {
                let p = self.parent.as_mut().unwrap();
                let m = mode(p, w);
                self.slot_guard = p.child.open(m);
                if self.slot_guard.is_none() {
                    self.problems.push("first Slot::open returned None".into());
                }
            }
            Op::OpenLazy(w) => {
                let p = self.parent.as_mut().unwrap();
                let m = mode(p, w);
                self.lazy_guard = p.lazy.open(Child2::default(), m);
                if self.lazy_guard.is_none() {
                    self.problems.push("first LazySlot::open returned None".into());
                }
            }
            Op::ReopenSlotWait => {
                let p = self.parent.as_mut().unwrap();
                let g = p.flush_guard();
                if p.child.open(OnParentDrop::Wait(g)).is_some() {
                    self.problems.push("slot-opened-twice".into());
                }
            }
            Op::ReopenLazyWait => {
                let p = self.parent.as_mut().unwrap();
                let g = p.flush_guard();
                if p.lazy.open(Child2::default(), OnParentDrop::Wait(g)).is_some() {
                    self.problems.push("slot-opened-twice".into());
                }
            }
            Op::ReopenSlot => {
                if self.parent.as_mut().unwrap().child.open(OnParentDrop::Discard).is_some() {
                    self.problems.push("slot-opened-twice".into());
                }
            }
            Op::ReopenLazy => {
                if self.parent.as_mut().unwrap().lazy.open(Child2::default(), OnParentDrop::Discard).is_some() {
                    self.problems.push("slot-opened-twice".into());
                }
            }
            Op::MutSlot => self.slot_guard.as_mut().unwrap().n += 1,
            Op::MutLazy => self.lazy_guard.as_mut().unwrap().m += 1,
            Op::DropSlotGuard => drop_it(self.slot_guard.take(), self.unwinding),
            Op::DropLazyGuard => drop_it(self.lazy_guard.take(), self.unwinding),
            Op::MutParent => self.parent.as_mut().unwrap().a += 1,
            Op::DelayFlushSlot => {
                let g = self.parent.as_ref().unwrap().flush_guard();
                self.slot_guard.as_mut().unwrap().delay_flush(g);
            }
            Op::DelayFlushLazy => {
                let g = self.parent.as_ref().unwrap().flush_guard();
                self.lazy_guard.as_mut().unwrap().delay_flush(g);
            }
            Op::RearmSlot => {
                self.parent.as_mut().unwrap().child = Slot::default();
                self.orphan = self.slot_guard.take();
            }
            Op::DelayFlushOrphan => {
                let g = self.parent.as_ref().unwrap().flush_guard();
                self.orphan.as_mut().unwrap().delay_flush(g);
            }
            Op::DropOrphan => drop_it(self.orphan.take(), self.unwinding),
            Op::DropParent => drop_it(self.parent.take(), self.unwinding),
            Op::EmitParent => metrique::instrument::Instrumented::from_parts((), self.parent.take().unwrap()).emit(),
            Op::MkForce => self.force = Some(self.parent.as_ref().unwrap().force_flush_guard()),
            Op::DropForce => drop_it(self.force.take(), self.unwinding),
            Op::WaitForData => {
                let p = self.parent.as_mut().unwrap();
                let got = futures::executor::block_on(p.child.wait_for_data()).is_some();
                if !got {
                    self.problems.push("wait_for_data-returned-nothing-after-guard-drop".into());
                }
            }
        }
    }
}

#[derive(Default)]
struct St {
    histories: u64,
    transitions: u64,
    v: Violations,
    model_states: BTreeSet<Model>,
    outcomes: BTreeSet<(u64, Option<u64>, Option<u64>)>,
}

thread_local! {
    static RT: tokio::runtime::Runtime = tokio::runtime::Builder::new_current_thread().build().expect("runtime");
}

fn check_history(st: &mut St, hist: &[Op], model: &Model) {
    check_history_in(st, hist, model, false, false);
    // environment deviation: every drop by the unwinding of a caught panic (shorter histories
    // only: unwinding costs microseconds per drop)
    if hist.len() <= 6 {
        check_history_in(st, hist, model, false, true);
    }
    // environment deviation: the same history inside a tokio task whose cooperative budget is
    // used up (every budgeted poll then answers Pending); waiting for data would spin there
    if !hist.contains(&Op::WaitForData) {
        check_history_in(st, hist, model, true, false);
    }
}

fn check_history_in(st: &mut St, hist: &[Op], model: &Model, budget_exhausted: bool, unwinding: bool) {
    // a panic of the code under test anywhere in a history (also while the history's objects are
    // dropped at its end) is a verdict, not the end of the search
    let r = std::panic::catch_unwind(std::panic::AssertUnwindSafe(|| check_history_in_(st, hist, model, budget_exhausted, unwinding)));
    if r.is_err() {
        let env = if budget_exhausted { ":tokio-budget-exhausted" } else if unwinding { ":drops-by-unwinding" } else { "" };
        st.v.add(format!("seq:real-code-panicked{env}"), format!("the history {hist:?} made the code under test panic"), json!({"history": hist.iter().map(|o| format!("{o:?}")).collect::<Vec<_>>()}));
    }
}

fn check_history_in_(st: &mut St, hist: &[Op], model: &Model, budget_exhausted: bool, unwinding: bool) {
    let mut w = World::new(unwinding);
    let mut seen: Vec<(u64, Option<u64>, Option<u64>)> = Vec::new();
    let mut run = |w: &mut World, st: &mut St| {
        for o in hist {
            // a panic of the code under test inside a history is a verdict, not the end of the search
            if std::panic::catch_unwind(std::panic::AssertUnwindSafe(|| w.apply(*o))).is_err() {
                w.problems.push(format!("real-code-panicked-at:{o:?}"));
                break;
            }
            st.transitions += 1;
            for e in w.sink.drain() {
                let t = to_test_entry(&e);
                let get = |k: &str| t.metrics.get(k).map(|m| m.as_u64());
                seen.push((get("a").unwrap_or(u64::MAX), get("n"), get("m")));
            }
        }
    };
    if budget_exhausted {
        RT.with(|rt| {
            rt.block_on(async {
                for _ in 0..128 {
                    tokio::task::consume_budget().await;
                }
                run(&mut w, st);
            })
        });
    } else {
        run(&mut w, st);
    }
    let env = if budget_exhausted { ":tokio-budget-exhausted" } else if unwinding { ":drops-by-unwinding" } else { "" };
    let expect: Vec<_> = model.appended.into_iter().collect();
    let replay = || json!({"history": hist.iter().map(|o| format!("{o:?}")).collect::<Vec<_>>(), "received (a,n,m)": format!("{seen:?}"), "expected": format!("{expect:?}"), "environment": if budget_exhausted { "inside a tokio task with its cooperative budget used up" } else if unwinding { "every drop by the unwinding of a caught panic" } else { "plain thread" }});
    for p in &w.problems {
        st.v.add(format!("seq:{p}{env}"), format!("after {hist:?}: {p}"), replay());
    }
    if seen != expect {
        let what = if seen.len() > expect.len() && expect.is_empty() { "appended-too-early" }
            else if seen.len() > 1 { "appended-twice" }
            else if seen.is_empty() { "not-appended-when-due" }
            else if seen[0].0 != expect[0].0 { "rest-of-entry-affected" }
            else if (seen[0].1.is_none() && expect[0].1.is_some()) || (seen[0].2.is_none() && expect[0].2.is_some()) { "slot-value-lost" }
            else if (seen[0].1.is_some() && expect[0].1.is_none()) || (seen[0].2.is_some() && expect[0].2.is_none()) { "slot-value-unexpectedly-present" }
            else { "slot-value-stale" };
        st.v.add(format!("seq:{what}{env}"), format!("after {hist:?} the sink received {seen:?}, the statement predicts {expect:?}"), replay());
    }
    for s in seen {
        st.outcomes.insert(s);
    }
}

fn explore(st: &mut St, hist: &mut Vec<Op>, model: &Model, depth: usize) {
    st.histories += 1;
    st.model_states.insert(model.clone());
    check_history(st, hist, model);
    if hist.len() >= depth {
        return;
    }
    for op in model.enabled() {
        hist.push(op);
        let mut m2 = model.clone();
        m2.apply(op);
        explore(st, hist, &m2, depth);
        hist.pop();
    }
}

#[metrics]
#[derive(Default)]
struct ChildShared {
    n: usize,
    shared_n: std::sync::Arc<std::sync::Mutex<u64>>,
}
#[metrics]
#[derive(Default)]
struct WorkShared {
    a: usize,
    #[metrics(flatten)]
    child: Slot<ChildShared>,
    #[metrics(flatten)]
    lazy: LazySlot<ChildShared>,
}

/// Fixed histories with real threads: the slot value has a field behind `Arc<Mutex<_>>` that a
/// helper thread holds locked (and then completes: 41 -> 42) while the guard is dropped on another
/// thread. The entry must contain the complete value (`shared_n` = 42). Sound without a
/// controlled scheduler: whichever of the guard's drop and the helper's unlock comes first, the
/// unchanged tree reports 42; the 50 ms the helper keeps the lock only decide how surely a
/// close that does not wait for the lock is seen.
fn contended_value_histories(v: &mut Violations) -> u64 {
    use std::sync::mpsc;
    let mut n = 0;
    for lazy in [false, true] {
        for (wait, parent_first) in [(true, true), (true, false), (false, false)] {
            n += 1;
            let q: VecEntrySink<RootMetric<WorkShared>> = VecEntrySink::new();
            let mut parent = WorkShared::default().append_on_drop(q.clone());
            parent.a = 1;
            let mut parent = Some(parent);
            let p = parent.as_mut().unwrap();
            let mode = if wait { OnParentDrop::Wait(p.flush_guard()) } else { OnParentDrop::Discard };
            let mut guard = if lazy { p.lazy.open(ChildShared::default(), mode).unwrap() } else { p.child.open(mode).unwrap() };
            guard.n = 7;
            let shared = guard.shared_n.clone();
            let (locked_tx, locked_rx) = mpsc::channel();
            let (release_tx, release_rx) = mpsc::channel::<()>();
            let helper = std::thread::spawn(move || {
                let mut g = shared.lock().unwrap();
                *g = 41;
                locked_tx.send(()).unwrap();
                let _ = release_rx.recv();
                *g = 42;
            });
            locked_rx.recv().unwrap();
            if parent_first {
                drop(parent.take());
            }
            let (about_tx, about_rx) = mpsc::channel();
            let dropper = std::thread::spawn(move || {
                about_tx.send(()).unwrap();
                drop(guard);
            });
            about_rx.recv().unwrap();
            std::thread::sleep(std::time::Duration::from_millis(50));
            release_tx.send(()).unwrap();
            dropper.join().unwrap();
            helper.join().unwrap();
            drop(parent.take());
            let entries = q.drain();
            let history = json!({"slot": if lazy { "LazySlot" } else { "Slot" }, "mode": if wait { "wait" } else { "discard" },
                "history": ["open", "guard.n = 7", "helper thread locks guard.shared_n, writes 41", if parent_first { "drop parent" } else { "(parent kept)" }, "another thread drops the guard", "helper writes 42, unlocks", if parent_first { "" } else { "drop parent" }]});
            if entries.len() != 1 {
                v.add("contended-slot-value:entry-count", format!("{} entries emitted, expected 1", entries.len()), history);
                continue;
            }
            let e = to_test_entry(&entries[0]);
            let got_n = e.metrics.get("n").map(|m| m.as_u64());
            let got_shared = e.metrics.get("shared_n").map(|m| m.as_u64());
            if got_n != Some(7) || got_shared != Some(42) {
                v.add(
                    "contended-slot-value:partial-value",
                    format!("the guard was dropped before the entry was closed, but the entry has n = {got_n:?}, shared_n = {got_shared:?} (expected 7 and 42: closing waits for the field's lock)"),
                    history,
                );
            }
        }
    }
    n
}

fn main() {
    let mut rep = Report::from_args("C13", "model_checking");
    let default_hook = std::panic::take_hook();
    std::panic::set_hook(Box::new(move |info| {
        if !info.payload().is::<ExpectedUnwind>() {
            default_hook(info);
        }
    }));
    let depth: usize = rep.tier.pick(8, 10);
    let init = Model { parent_alive: true, a: 0, slot: SlotM::Unopened, lazy: SlotM::Unopened, force_alive: false, force_dropped: false, orphan: None, rearmed: false, appended: None };
    let mut prefixes: Vec<(Vec<Op>, Model)> = Vec::new();
    let mut shallow = St::default();
    shallow.histories += 1;
    for a in init.enabled() {
        let mut m = init.clone();
        m.apply(a);
        check_history(&mut shallow, &[a], &m);
        shallow.histories += 1;
        for b in m.enabled() {
            let mut m2 = m.clone();
            m2.apply(b);
            prefixes.push((vec![a, b], m2));
        }
    }
    let mut states = par::for_each_index(prefixes.len() as u64, 1, St::default, |st, i| {
        let (p, m) = &prefixes[i as usize];
        let mut hist = p.clone();
        explore(st, &mut hist, m, depth);
    });
    states.push(shallow);
    let mut all_states = BTreeSet::new();
    let mut outcomes = BTreeSet::new();
    let (mut h, mut t) = (0u64, 0u64);
    for s in states {
        h += s.histories; t += s.transitions;
        all_states.extend(s.model_states);
        outcomes.extend(s.outcomes);
        rep.violations.merge(s.v);
    }
    let contended = contended_value_histories(&mut rep.violations);
    rep.set("histories_with_a_slot_value_field_locked_by_another_thread", contended);
    rep.set("states", h);
    rep.set("transitions", t);
    rep.set("traces_validated_against_impl", h);
    rep.set("distinct_model_states", all_states.len() as u64);
    rep.set("distinct_emitted_entries", outcomes.len() as u64);
    rep.set("depth", depth as u64);
    rep.set("exhaustive", true);
    rep.set("explanation", "every sequence (up to the depth) of open Slot/LazySlot in wait or discard mode, re-open, mutate through the guard, drop the guard, mutate/drop the parent, make/drop a force-flush guard and wait_for_data is replayed on the real objects with a VecEntrySink; after every history the emitted entries (a, n, m) must equal the reference model written from the property statement");
    rep.sample(json!({"history": ["OpenSlot(true)", "MutSlot", "DropParent", "MutSlot", "DropSlotGuard"], "expected": "appended once at DropSlotGuard with n=2"}));
    rep.assume("wait_for_data is only called after the guard was dropped (it would block otherwise)");
    rep.finish();
}
