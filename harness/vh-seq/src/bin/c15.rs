//! C15 - entry and value wrappers are transparent apart from their documented additions.
//!
//! Every composition (up to a nesting depth) of the real wrapper types over an alphabet of base
//! entries is written into a recording `EntryWriter`/`ValueWriter`; the ordered call log and the
//! `sample_group()` must equal the plain entry's log transformed by a reference description of
//! each wrapper's *documented* addition (written from the doc comments, see `Sem`).
//!
//! The wrappers are generic types, so the compositions are produced by bounded generic
//! recursion: `Depth::{values,entries,stream_ext}` instantiate `Pred::..` with the wrapped type.
//! A composition is a sequence  value-wrappers* , entry-wrappers* , stream-wrappers*  in the
//! order in which the wrappers act on what the format finally sees ("action order").
#![allow(clippy::type_complexity, private_bounds, private_interfaces)]

use metrique::{InflectableEntry, RootEntry};
use metrique_writer::entry::WithGlobalDimensions;
use metrique_writer::format::{FormatExt, FormattedEntryIoStream};
use metrique_writer::stream::{EntryIoStreamExt, MergeGlobalDimensions, MergeGlobals};
use metrique_writer_core::entry::{Merged, MergedRef, SampleGroupElement};
use metrique_writer_core::format::Format;
use metrique_writer_core::value::{
    FlagConstructor, WithDimension, WithDimensions, WithVecDimensions,
};
use metrique_writer_core::{
    BoxEntry, Entry, EntryConfig, EntryIoStream, EntryWriter, IoStreamError, MetricFlags,
    Observation, Unit, ValidationError, Value, ValueWriter,
};
use metrique_writer_format_emf::{
    HighStorageResolution, HighStorageResolutionCtor, NoMetric, NoMetricCtor,
};
use serde_json::{Value as J, json};
use std::any::Any;
use std::borrow::Cow;
use std::cell::RefCell;
use std::collections::{BTreeMap, BTreeSet, HashSet};
use std::io;
use std::marker::PhantomData;
use std::rc::Rc;
use std::sync::{Arc, OnceLock};
use std::time::SystemTime;
use vh_common::{Report, Tier};
use vh_seq::emfx::*;

// ------------------------------------------------------------------------------------------
// the observable: ordered call log + sample group

#[derive(Clone, PartialEq, Eq, PartialOrd, Ord, Debug)]
enum Fl {
    None,
    HighRes,
    NoMetric,
    /// a Debug rendering that is none of the three known ones
    Other(String),
}

#[derive(Clone, PartialEq, Debug)]
enum Val {
    /// `EntryWriter::value` was called but the value called nothing on the `ValueWriter`
    Nothing,
    Str(String),
    Metric {
        /// (kind, bits, occurrences): exact bit patterns, so NaN and -0.0 compare exactly
        obs: Vec<(u8, u64, u64)>,
        unit: String,
        dims: Vec<(String, String)>,
        flags: Fl,
    },
    Error(String),
}

#[derive(Clone, PartialEq, Debug)]
enum Item {
    Ts(i128),
    Config(String),
    Value(String, Val),
    /// harness marker: the recording stream saw a number of entries different from one
    StreamCalls(usize),
}

#[derive(Clone, PartialEq, Debug, Default)]
struct Log {
    items: Vec<Item>,
    sg: Vec<(String, String)>,
}

fn obs_bits(o: Observation) -> (u8, u64, u64) {
    match o {
        Observation::Unsigned(v) => (0, v, 0),
        Observation::Floating(f) => (1, f.to_bits(), 0),
        Observation::Repeated { total, occurrences } => (2, total.to_bits(), occurrences),
        _ => (9, 0, 0),
    }
}

fn nanos_of(t: SystemTime) -> i128 {
    match t.duration_since(SystemTime::UNIX_EPOCH) {
        Ok(d) => d.as_nanos() as i128,
        Err(e) => -(e.duration().as_nanos() as i128),
    }
}

/// Debug renderings of the three flag values that can occur, taken from the real constructors
fn flag_table() -> &'static [(String, Fl); 3] {
    static T: OnceLock<[(String, Fl); 3]> = OnceLock::new();
    T.get_or_init(|| {
        [
            (format!("{:?}", MetricFlags::empty()), Fl::None),
            (format!("{:?}", HighStorageResolutionCtor::construct()), Fl::HighRes),
            (format!("{:?}", NoMetricCtor::construct()), Fl::NoMetric),
        ]
    })
}

fn flag_of(flags: MetricFlags<'_>) -> Fl {
    let s = format!("{flags:?}");
    for (k, v) in flag_table() {
        if *k == s {
            return v.clone();
        }
    }
    Fl::Other(s)
}

#[derive(Default)]
struct Rec {
    items: Vec<Item>,
}

impl<'a> EntryWriter<'a> for Rec {
    fn timestamp(&mut self, timestamp: SystemTime) {
        self.items.push(Item::Ts(nanos_of(timestamp)));
    }
    fn value(&mut self, name: impl Into<Cow<'a, str>>, value: &(impl Value + ?Sized)) {
        let name: Cow<'a, str> = name.into();
        let mut slot = Val::Nothing;
        value.write(RecV(&mut slot));
        self.items.push(Item::Value(name.into_owned(), slot));
    }
    fn config(&mut self, config: &'a dyn EntryConfig) {
        self.items.push(Item::Config(format!("{config:?}")));
    }
}

struct RecV<'s>(&'s mut Val);

impl ValueWriter for RecV<'_> {
    fn string(self, value: &str) {
        *self.0 = Val::Str(value.to_string());
    }
    fn metric<'a>(
        self,
        distribution: impl IntoIterator<Item = Observation>,
        unit: Unit,
        dimensions: impl IntoIterator<Item = (&'a str, &'a str)>,
        flags: MetricFlags<'_>,
    ) {
        *self.0 = Val::Metric {
            obs: distribution.into_iter().map(obs_bits).collect(),
            unit: format!("{unit:?}"),
            dims: dimensions.into_iter().map(|(k, v)| (k.to_string(), v.to_string())).collect(),
            flags: flag_of(flags),
        };
    }
    fn error(self, error: ValidationError) {
        *self.0 = Val::Error(error_text(error));
    }
}

/// everything a format can learn from a validation error: its message, its list of reasons, and
/// what it says once attributed to a field (every reason separately)
fn error_text(e: ValidationError) -> String {
    format!("{e} | reasons {e:?} | {}", e.clone().for_field("F"))
}

#[inline(never)]
fn record<E: Entry + ?Sized>(e: &E) -> Log {
    let mut rec = Rec::default();
    e.write(&mut rec);
    Log {
        items: rec.items,
        sg: e.sample_group().map(|(k, v)| (k.into_owned(), v.into_owned())).collect(),
    }
}

type Cap = Rc<RefCell<Vec<Log>>>;

/// recording `EntryIoStream`: what a (sampling) stream below the wrappers gets to see
struct RecStream(Cap);
thread_local! {
    /// the recording stream / format at the bottom of a stack rejects (after recording it) the
    /// entry that makes its log this long; 0 = never
    static REJECT_WHEN_LOG_LEN: std::cell::Cell<usize> = const { std::cell::Cell::new(0) };
}
fn bottom_result(cap: &Cap) -> Result<(), IoStreamError> {
    if cap.borrow().len() == REJECT_WHEN_LOG_LEN.with(|c| c.get()) {
        Err(IoStreamError::Validation(ValidationError::invalid("scripted: the stream below the wrappers rejects this entry")))
    } else {
        Ok(())
    }
}
impl EntryIoStream for RecStream {
    fn next(&mut self, entry: &impl Entry) -> Result<(), IoStreamError> {
        self.0.borrow_mut().push(record(entry));
        bottom_result(&self.0)
    }
    fn flush(&mut self) -> io::Result<()> {
        Ok(())
    }
}

/// recording `Format`: what a format below the format-level wrappers gets to see
struct RecFormat(Cap);
impl Format for RecFormat {
    fn format(&mut self, entry: &impl Entry, _output: &mut impl io::Write) -> Result<(), IoStreamError> {
        self.0.borrow_mut().push(record(entry));
        bottom_result(&self.0)
    }
}

#[allow(dead_code)]
fn take_single(cap: &Cap) -> Log {
    let mut v = cap.borrow_mut();
    if v.len() == 1 {
        v.pop().unwrap()
    } else {
        Log { items: vec![Item::StreamCalls(v.len())], sg: vec![] }
    }
}

// ------------------------------------------------------------------------------------------
// base entries: descriptions (vh_seq::emfx::EntryD) interpreted as a real Entry whose values
// go through a type-level chain of value wrappers

struct Compiled {
    d: EntryD,
    /// parallel to d.ops
    configs: Vec<Option<Conf>>,
    sg: Vec<(String, String)>,
}

fn compile(d: EntryD, sg: &[(&str, &str)]) -> &'static Compiled {
    // the same construction as EntryD::compile (whose result borrows the description)
    let configs = d
        .ops
        .iter()
        .map(|op| match op {
            OpD::Config(ConfD::Split) => Some(Conf::Split(Default::default())),
            OpD::Config(ConfD::Unroutable) => Some(Conf::Unroutable(Default::default())),
            OpD::Config(ConfD::EntryDims(sets)) => {
                let sets: Vec<Cow<'static, [Cow<'static, str>]>> = sets
                    .iter()
                    .map(|s| Cow::Owned(s.iter().map(|d| Cow::Owned(d.clone())).collect::<Vec<Cow<'static, str>>>()))
                    .collect();
                Some(Conf::Dims(metrique_writer_core::config::EntryDimensions::new(Cow::Owned(sets))))
            }
            _ => None,
        })
        .collect();
    // one allocation per base entry for the life of the process
    Box::leak(Box::new(Compiled {
        d,
        configs,
        sg: sg.iter().map(|(k, v)| (k.to_string(), v.to_string())).collect(),
    }))
}

fn conf_dyn(c: &Conf) -> &dyn EntryConfig {
    match c {
        Conf::Split(c) => c,
        Conf::Unroutable(c) => c,
        Conf::Dims(c) => c,
    }
}

/// continuation receiving the (wrapped) value
trait VK {
    fn call<V: Value + Clone>(self, v: &V);
}

/// one value-level wrapper
trait VW: 'static {
    const NAME: &'static str;
    const KIND: &'static str;
    fn sem() -> Sem;
    fn with<V: Value + Clone, K: VK>(v: &V, k: K);
}

/// a chain of value wrappers; `(R, W)`: chain R first, then W around it
trait VChain: 'static {
    fn run<V: Value + Clone, K: VK>(v: &V, k: K);
}
impl VChain for () {
    fn run<V: Value + Clone, K: VK>(v: &V, k: K) {
        k.call(v)
    }
}
struct AndThen<W, K>(K, PhantomData<W>);
impl<W: VW, K: VK> VK for AndThen<W, K> {
    fn call<V: Value + Clone>(self, v: &V) {
        W::with(v, self.0)
    }
}
impl<R: VChain, W: VW> VChain for (R, W) {
    fn run<V: Value + Clone, K: VK>(v: &V, k: K) {
        R::run(v, AndThen::<W, K>(k, PhantomData))
    }
}

struct Emit<'w, 'a, W>(&'w mut W, &'a str);
impl<'a, W: EntryWriter<'a>> VK for Emit<'_, 'a, W> {
    fn call<V: Value + Clone>(self, v: &V) {
        self.0.value(self.1, v)
    }
}

struct Base<C>(&'static Compiled, PhantomData<fn() -> C>);
impl<C> Clone for Base<C> {
    fn clone(&self) -> Self {
        *self
    }
}
impl<C> Copy for Base<C> {}
impl<C> Base<C> {
    fn new(c: &'static Compiled) -> Self {
        Base(c, PhantomData)
    }
}

impl<C: VChain> Entry for Base<C> {
    fn write<'a>(&'a self, w: &mut impl EntryWriter<'a>) {
        let c: &'static Compiled = self.0;
        for (op, conf) in c.d.ops.iter().zip(&c.configs) {
            match op {
                OpD::Timestamp(n) => w.timestamp(ts_from_nanos(*n)),
                OpD::Config(_) => w.config(conf_dyn(conf.as_ref().expect("compiled"))),
                OpD::Value(name, v) => C::run(v, Emit(w, name.as_str())),
            }
        }
    }
    fn sample_group(&self) -> impl Iterator<Item = SampleGroupElement> {
        self.0.sg.iter().map(|(k, v)| (Cow::Owned(k.clone()), Cow::Owned(v.clone())))
    }
}

/// the log the description itself denotes (independent of `Base`)
fn describe(c: &Compiled) -> Log {
    let mut items = Vec::new();
    for (op, conf) in c.d.ops.iter().zip(&c.configs) {
        items.push(match op {
            OpD::Timestamp(n) => Item::Ts(*n),
            OpD::Config(_) => Item::Config(format!("{:?}", conf_dyn(conf.as_ref().unwrap()))),
            OpD::Value(name, v) => Item::Value(
                name.clone(),
                match v {
                    ValD::Str(s) => Val::Str(s.clone()),
                    ValD::Error(m) => Val::Error(error_text(vh_seq::emfx::error_of(m))),
                    ValD::Nothing => Val::Nothing,
                    ValD::Metric { obs, unit, dims, flag } => Val::Metric {
                        obs: obs.iter().map(|o| obs_bits(o.to_observation())).collect(),
                        unit: format!("{:?}", unit.unit()),
                        dims: dims.clone(),
                        flags: match flag {
                            FlagD::None => Fl::None,
                            FlagD::HighRes => Fl::HighRes,
                            FlagD::NoMetric => Fl::NoMetric,
                        },
                    },
                },
            ),
        });
    }
    Log { items, sg: c.sg.clone() }
}

fn s(x: &str) -> String {
    x.to_string()
}
fn metric(obs: Vec<Obs>, unit: UnitD, dims: &[(&str, &str)], flag: FlagD) -> ValD {
    ValD::Metric { obs, unit, dims: dims.iter().map(|(k, v)| (s(k), s(v))).collect(), flag }
}
fn val(name: &str, v: ValD) -> OpD {
    OpD::Value(s(name), v)
}

/// metric name that the deny lists of the `+deny` wrappers contain
const DENIED: &str = "M";

fn base_entries() -> Vec<(&'static str, &'static Compiled)> {
    let e = |ops: Vec<OpD>| EntryD { ops };
    vec![
        ("empty", compile(e(vec![]), &[])),
        ("timestamp+string", compile(e(vec![OpD::Timestamp(1_500_400_000), val("Op", ValD::Str(s("Get")))]), &[("Op", "Get")])),
        ("scalar", compile(e(vec![val("M", metric(vec![Obs::U(1)], UnitD::None, &[], FlagD::None))]), &[])),
        (
            "distribution",
            compile(
                e(vec![
                    val("M", metric(vec![Obs::U(3), Obs::F(2.5), Obs::R(10.0, 4), Obs::R(7.0, 0), Obs::U(3)], UnitD::Milli, &[], FlagD::None)),
                    val("L", metric(vec![Obs::F(0.25), Obs::F(0.5)], UnitD::Custom, &[], FlagD::None)),
                ]),
                &[],
            ),
        ),
        (
            "per-metric-dimensions",
            compile(
                e(vec![
                    val("M", metric(vec![Obs::U(2)], UnitD::Count, &[("d1", "x"), ("d2", "y")], FlagD::None)),
                    val("N", metric(vec![Obs::F(1.5)], UnitD::KiloByte, &[("d1", "z")], FlagD::None)),
                ]),
                &[],
            ),
        ),
        (
            "flags",
            compile(
                e(vec![
                    val("M", metric(vec![Obs::U(5)], UnitD::Milli, &[], FlagD::HighRes)),
                    val("N", metric(vec![Obs::U(6)], UnitD::None, &[], FlagD::NoMetric)),
                    val("P", metric(vec![Obs::U(7)], UnitD::None, &[("d1", "x")], FlagD::None)),
                ]),
                &[],
            ),
        ),
        (
            "error-value",
            compile(e(vec![val("E", ValD::Error(s("bad \"value\""))), val("M", metric(vec![Obs::U(1)], UnitD::None, &[], FlagD::None)), val("E2", ValD::Error(s("first reason && second reason")))]), &[]),
        ),
        (
            "configs",
            compile(
                e(vec![
                    OpD::Config(ConfD::Split),
                    OpD::Config(ConfD::EntryDims(vec![vec![s("Op")], vec![]])),
                    val("Op", ValD::Str(s("Put"))),
                    val("M", metric(vec![Obs::U(9)], UnitD::Count, &[("k", "v")], FlagD::None)),
                    OpD::Config(ConfD::Unroutable),
                ]),
                &[],
            ),
        ),
        (
            "non-ascii-names",
            compile(
                e(vec![
                    val(DENIED_NON_ASCII, metric(vec![Obs::U(4)], UnitD::Count, &[], FlagD::None)),
                    val("Ünï😀", metric(vec![Obs::U(5)], UnitD::None, &[("d1", "x")], FlagD::None)),
                    val("延迟", ValD::Str(s("值"))),
                ]),
                &[],
            ),
        ),
        (
            "empty-values",
            compile(
                e(vec![
                    val("Z", ValD::Nothing),
                    val("M", metric(vec![], UnitD::Count, &[], FlagD::None)),
                    val("Y", ValD::Str(s(""))),
                    val("", metric(vec![Obs::U(1)], UnitD::None, &[], FlagD::None)),
                ]),
                &[],
            ),
        ),
        (
            "mixed",
            compile(
                e(vec![
                    OpD::Timestamp(-2_000_000_001),
                    OpD::Config(ConfD::Unroutable),
                    val("Op", ValD::Str(s("q\"q\u{2028}"))),
                    val("M", metric(vec![Obs::F(2.25), Obs::R(9.0, 4)], UnitD::Custom, &[("d1", "x")], FlagD::HighRes)),
                    val("E", ValD::Error(s("nope"))),
                    val("Z", ValD::Nothing),
                    val("N", metric(vec![Obs::U(u64::MAX)], UnitD::KiloByte, &[], FlagD::NoMetric)),
                    OpD::Timestamp(1_749_475_336_015_781_900),
                    OpD::Config(ConfD::Split),
                ]),
                &[("Op", "q"), ("Status", "200")],
            ),
        ),
        (
            "sample-group",
            compile(e(vec![val("Op", ValD::Str(s("List"))), val("M", metric(vec![Obs::U(4)], UnitD::Milli, &[], FlagD::None))]), &[("Operation", "List"), ("Result", "Ok")]),
        ),
        (
            "non-finite",
            compile(
                e(vec![
                    val("M", metric(vec![Obs::F(f64::NAN), Obs::F(-0.0), Obs::F(f64::NEG_INFINITY), Obs::R(f64::INFINITY, u64::MAX)], UnitD::KiloByte, &[], FlagD::None)),
                    val("N", metric(vec![Obs::R(f64::NAN, 0)], UnitD::None, &[("d1", "")], FlagD::NoMetric)),
                ]),
                &[],
            ),
        ),
        (
            "duplicate-and-odd-names",
            compile(
                e(vec![
                    val("M", metric(vec![Obs::U(1)], UnitD::None, &[], FlagD::None)),
                    val("M", ValD::Str(s("again"))),
                    val("é\u{1}/\u{0}", metric(vec![Obs::U(2)], UnitD::Count, &[("k", "v"), ("k", "w")], FlagD::None)),
                    val("M", metric(vec![Obs::U(3)], UnitD::Milli, &[("d1", "x")], FlagD::NoMetric)),
                ]),
                &[("k", "v")],
            ),
        ),
    ]
}

fn globals_compiled() -> &'static Compiled {
    static G: OnceLock<&'static Compiled> = OnceLock::new();
    G.get_or_init(|| {
        compile(
            EntryD {
                ops: vec![
                    val("G_Az", ValD::Str(s("use1-az1"))),
                    OpD::Config(ConfD::EntryDims(vec![vec![s("G_Az")]])),
                    val("G_Up", metric(vec![Obs::U(1), Obs::U(2)], UnitD::Count, &[("gk", "gv")], FlagD::None)),
                ],
            },
            &[("G_Sg", "g")],
        )
    })
}

type Glob = Base<()>;
fn glob() -> Glob {
    Base::new(globals_compiled())
}
fn glob_ref() -> &'static Glob {
    static G: OnceLock<Glob> = OnceLock::new();
    G.get_or_init(glob)
}

// ------------------------------------------------------------------------------------------
// REFERENCE: what each wrapper is documented to add

/// The documented addition of one wrapper, as a transformation of (call log, sample group).
#[derive(Clone, PartialEq, Debug)]
enum Sem {
    /// Box / Arc / Option(Some) / Cow / & / BoxEntry / RootEntry, empty dimension lists:
    /// nothing is added, nothing is removed, sample group unchanged.
    Id,
    /// `globals.merge(entry)`, `globals.merge_by_ref(entry)`, `MergeGlobals` (stream and format,
    /// documented as `Entry::merge_by_ref` of every entry *with* the globals): `Entry::merge`:
    /// "writes all the contents of this entry and then all of the contents of `other`", here
    /// this = globals. `Merged::sample_group` chains both in the same order.
    GlobalsFirst,
    /// `entry.merge(globals)` / `entry.merge_by_ref(globals)`: entry's items, then the globals'.
    GlobalsAfter,
    /// `WithDimensions` ("This does *not* clear any existing dimensions", test
    /// `appends_after_existing_dimensions`) and `WithGlobalDimensions` ("adds a set of global
    /// dimensions to every metric of an entry except for those included in the denylist"):
    /// every *metric* value whose name is not in `deny` gets `dims` appended after the dimensions
    /// it already has; strings ("dimensions are ignored for strings"), errors, empty values,
    /// timestamps and configs are untouched.
    Dims { dims: &'static [(&'static str, &'static str)], deny: &'static [&'static str] },
    /// `ForceFlag`: every metric value's flags become `flags.try_merge(FLAGS::construct())`:
    /// empty+X = X; for the EMF options the documented order is "who wins":
    /// HighStorageResolution < NoMetric (max), cf. `test_try_merge` in emf.rs.
    Flag(Fl),
}

fn merge_flags(a: &Fl, b: &Fl) -> Fl {
    match (a, b) {
        (Fl::Other(_), _) | (_, Fl::Other(_)) => Fl::Other("unmergeable".into()),
        _ => a.max(b).clone(),
    }
}

fn transform(log: &mut Log, sem: &Sem, globals: &Log) {
    match sem {
        Sem::Id => {}
        Sem::GlobalsFirst => {
            let mut items = globals.items.clone();
            items.append(&mut log.items);
            log.items = items;
            let mut sg = globals.sg.clone();
            sg.append(&mut log.sg);
            log.sg = sg;
        }
        Sem::GlobalsAfter => {
            log.items.extend(globals.items.iter().cloned());
            log.sg.extend(globals.sg.iter().cloned());
        }
        Sem::Dims { dims, deny } => {
            for it in &mut log.items {
                if let Item::Value(name, Val::Metric { dims: d, .. }) = it
                    && !deny.contains(&name.as_str())
                {
                    d.extend(dims.iter().map(|(k, v)| (k.to_string(), v.to_string())));
                }
            }
        }
        Sem::Flag(f) => {
            for it in &mut log.items {
                if let Item::Value(_, Val::Metric { flags, .. }) = it {
                    *flags = merge_flags(flags, f);
                }
            }
        }
    }
}

// ------------------------------------------------------------------------------------------
// value-level wrappers

macro_rules! vw {
    ($T:ident, $name:literal, $kind:literal, $sem:expr, |$v:ident, $k:ident| $body:expr) => {
        pub struct $T;
        impl VW for $T {
            const NAME: &'static str = $name;
            const KIND: &'static str = $kind;
            fn sem() -> Sem {
                $sem
            }
            fn with<V: Value + Clone, K: VK>($v: &V, $k: K) {
                $body
            }
        }
    };
}

const VD1: &[(&str, &str)] = &[("vd1", "a")];
// (an empty instance string, and built through the `From` + `add_dimension` route: both are as
// legitimate for the wrapper as any other pair)
const VD2: &[(&str, &str)] = &[("vd2", ""), ("d1", "c")];
vw!(VDim1, "value:WithDimension", "value:WithDimensions", Sem::Dims { dims: VD1, deny: &[] }, |v, k| k.call(&WithDimension::new(v.clone(), "vd1", "a")));
vw!(VDim2, "value:WithDimensions<2>", "value:WithDimensions", Sem::Dims { dims: VD2, deny: &[] }, |v, k| {
    let mut w = WithDimensions::<V, 2>::from(v.clone());
    w.add_dimension("cleared", "x");
    w.clear_dimensions();
    w.add_dimension("vd2", "").add_dimension("d1", "c");
    k.call(&w)
});
vw!(VDim0, "value:WithVecDimensions(none)", "value:WithDimensions", Sem::Id, |v, k| k.call(&WithVecDimensions::<V>::from(v.clone())));
vw!(VHigh, "value:HighStorageResolution", "value:ForceFlag", Sem::Flag(Fl::HighRes), |v, k| k.call(&HighStorageResolution::<V>::from(v.clone())));
vw!(VNoM, "value:NoMetric", "value:ForceFlag", Sem::Flag(Fl::NoMetric), |v, k| k.call(&NoMetric::<V>::from(v.clone())));
vw!(VOpt, "value:Option", "value:Option", Sem::Id, |v, k| k.call(&Some(v.clone())));
vw!(VBox, "value:Box", "value:Box", Sem::Id, |v, k| k.call(&Box::new(v.clone())));
vw!(VArc, "value:Arc", "value:Arc", Sem::Id, |v, k| k.call(&Arc::new(v.clone())));
vw!(VCow, "value:Cow", "value:Cow", Sem::Id, |v, k| k.call(&Cow::Borrowed(v)));
vw!(VRef, "value:&", "value:Ref", Sem::Id, |v, k| k.call(&v));

// ------------------------------------------------------------------------------------------
// entry-level wrappers

/// Every composition must be acceptable to every outer wrapper (`boxed` wants Send + 'static,
/// `Cow` wants Clone, `&`/`Arc`/`MergedRef` keep Send only over Sync).
trait Ent: Entry + Clone + Send + Sync + 'static {}
impl<T: Entry + Clone + Send + Sync + 'static> Ent for T {}

/// Holder for the wrappers that are not Clone or not Sync (BoxEntry, RootEntry): a harness
/// pass-through that forwards `write` (same writer) and `sample_group` verbatim.
struct Sh<E>(Arc<E>);
impl<E> Sh<E> {
    fn new(e: E) -> Self {
        Sh(Arc::new(e))
    }
}
impl<E> Clone for Sh<E> {
    fn clone(&self) -> Self {
        Sh(self.0.clone())
    }
}
// SAFETY: every entry is built, used and dropped on the thread that evaluates it; the only
// non-Sync content (BoxEntry's `Box<dyn DynEntry>` that is declared Send only) is immutable data.
unsafe impl<E> Send for Sh<E> {}
unsafe impl<E> Sync for Sh<E> {}
impl<E: Entry> Entry for Sh<E> {
    fn write<'a>(&'a self, w: &mut impl EntryWriter<'a>) {
        (*self.0).write(w)
    }
    fn sample_group(&self) -> impl Iterator<Item = SampleGroupElement> {
        (*self.0).sample_group()
    }
}

/// `InflectableEntry` view of an `Entry` (the trait is public; names are not inflected)
#[derive(Clone)]
struct Infl<E>(E);
impl<E: Entry> InflectableEntry for Infl<E> {
    fn write<'a>(&'a self, w: &mut impl EntryWriter<'a>) {
        self.0.write(w)
    }
    fn sample_group(&self) -> impl Iterator<Item = SampleGroupElement> {
        self.0.sample_group()
    }
}

/// Owner of the entries that by-reference wrappers (`&E`, `MergedRef`, `Cow::Borrowed`) point to.
#[derive(Default)]
struct Arena(Vec<Box<dyn Any>>);
impl Arena {
    fn hold<E: 'static>(&mut self, e: E) -> &'static E {
        let b = Box::new(e);
        let p: *const E = &*b;
        self.0.push(b);
        // SAFETY: the box is never moved out of or dropped before the arena, and every evaluation
        // drops the composed entry before its arena (see `eval_direct` / `eval_stream`).
        unsafe { &*p }
    }
}

trait EW: 'static {
    const NAME: &'static str;
    const KIND: &'static str;
    fn sem() -> Sem;
    type Out<E: Ent>: Ent;
    fn apply<E: Ent>(e: E, a: &mut Arena) -> Self::Out<E>;
}

macro_rules! ew {
    ($T:ident, $name:literal, $kind:literal, $sem:expr, <$E:ident> $out:ty, |$e:ident, $a:ident| $body:expr) => {
        pub struct $T;
        impl EW for $T {
            const NAME: &'static str = $name;
            const KIND: &'static str = $kind;
            fn sem() -> Sem {
                $sem
            }
            type Out<$E: Ent> = $out;
            #[allow(unused_variables)]
            fn apply<$E: Ent>($e: $E, $a: &mut Arena) -> $out {
                $body
            }
        }
    };
}

const ED1: &[(&str, &str)] = &[("ed1", "p")];
const ED2: &[(&str, &str)] = &[("", "q"), ("d1", "r")];
const GD1: &[(&str, &str)] = &[("gd1", "s")];
const GD2: &[(&str, &str)] = &[("gd2", "t"), ("d1", "u")];
const ID1: &[(&str, &str)] = &[("id1", "w")];
/// (a deny-listed name with multi-byte characters: 6 characters, 8 bytes, as long in characters
/// as the longest ASCII name of the list)
const DENIED_NON_ASCII: &str = "Größen";
const DENY: &[&str] = &[DENIED, "Absent", DENIED_NON_ASCII];

fn deny_set() -> HashSet<Cow<'static, str>> {
    DENY.iter().map(|n| Cow::Borrowed(*n)).collect()
}

ew!(EBoxEntry, "BoxEntry", "BoxEntry", Sem::Id, <E> Sh<BoxEntry>, |e, a| Sh::new(e.boxed()));
ew!(EMergeGF, "Merged(globals,entry)", "Merged", Sem::GlobalsFirst, <E> Merged<Glob, E>, |e, a| glob().merge(e));
ew!(EMergeGA, "Merged(entry,globals)", "Merged", Sem::GlobalsAfter, <E> Merged<E, Glob>, |e, a| e.merge(glob()));
ew!(ERefGF, "MergedRef(globals,entry)", "MergedRef", Sem::GlobalsFirst, <E> MergedRef<'static, Glob, E>, |e, a| glob_ref().merge_by_ref(a.hold(e)));
ew!(ERefGA, "MergedRef(entry,globals)", "MergedRef", Sem::GlobalsAfter, <E> MergedRef<'static, E, Glob>, |e, a| a.hold(e).merge_by_ref(glob_ref()));
ew!(EDim1, "entry:WithDimension", "WithDimensions", Sem::Dims { dims: ED1, deny: &[] }, <E> WithDimensions<E, 1>, |e, a| WithDimension::new(e, "ed1", "p"));
ew!(EDim2, "entry:WithDimensions<2>", "WithDimensions", Sem::Dims { dims: ED2, deny: &[] }, <E> WithDimensions<E, 2>, |e, a| {
    // (an empty class string, through the `From` + `add_dimension` route)
    let mut w = WithDimensions::<E, 2>::from(e);
    w.add_dimension("", "q").add_dimension("d1", "r");
    w
});
ew!(EGd, "WithGlobalDimensions", "WithGlobalDimensions", Sem::Dims { dims: GD1, deny: &[] }, <E> WithGlobalDimensions<E, 1>, |e, a| {
    WithGlobalDimensions::<E, 1>::new_with_global_dimensions(e, [("gd1", "s")], HashSet::new())
});
ew!(EGdDeny, "WithGlobalDimensions+deny", "WithGlobalDimensions", Sem::Dims { dims: GD2, deny: DENY }, <E> WithGlobalDimensions<E, 2>, |e, a| {
    WithGlobalDimensions::<E, 2>::new_with_global_dimensions(e, [("gd2", "t"), ("d1", "u")], deny_set())
});
ew!(EHigh, "entry:HighStorageResolution", "ForceFlag", Sem::Flag(Fl::HighRes), <E> HighStorageResolution<E>, |e, a| HighStorageResolution::<E>::from(e));
ew!(ENoM, "entry:NoMetric", "ForceFlag", Sem::Flag(Fl::NoMetric), <E> NoMetric<E>, |e, a| NoMetric::<E>::from(e));
ew!(ERoot, "RootEntry", "RootEntry", Sem::Id, <E> Sh<RootEntry<Infl<E>>>, |e, a| Sh::new(RootEntry::new(Infl(e))));
ew!(EOpt, "entry:Option", "Option", Sem::Id, <E> Option<E>, |e, a| Some(e));
ew!(EBoxed, "entry:Box", "Box", Sem::Id, <E> Box<E>, |e, a| Box::new(e));
ew!(EArc, "entry:Arc", "Arc", Sem::Id, <E> Arc<E>, |e, a| Arc::new(e));
ew!(ECow, "entry:Cow", "Cow", Sem::Id, <E> Cow<'static, E>, |e, a| Cow::Borrowed(a.hold(e)));
ew!(ERef, "entry:&", "Ref", Sem::Id, <E> &'static E, |e, a| a.hold(e));
// the same wrapper types used on the InflectableEntry side of a rooted metric (metrique-core)
ew!(ERootDim, "RootEntry<WithDimension<_>>", "inflectable:WithDimensions", Sem::Dims { dims: ID1, deny: &[] }, <E> Sh<RootEntry<WithDimensions<Infl<E>, 1>>>, |e, a| {
    Sh::new(RootEntry::new(WithDimension::new(Infl(e), "id1", "w")))
});
ew!(ERootFlag, "RootEntry<HighStorageResolution<_>>", "inflectable:ForceFlag", Sem::Flag(Fl::HighRes), <E> Sh<RootEntry<HighStorageResolution<Infl<E>>>>, |e, a| {
    Sh::new(RootEntry::new(HighStorageResolution::<Infl<E>>::from(Infl(e))))
});
ew!(ERootCont, "RootEntry<Option<Box<Arc<_>>>>", "inflectable:containers", Sem::Id, <E> Sh<RootEntry<Option<Box<Arc<Infl<E>>>>>>, |e, a| {
    Sh::new(RootEntry::new(Some(Box::new(Arc::new(Infl(e))))))
});

// ------------------------------------------------------------------------------------------
// stream-level and format-level wrappers

trait SW: 'static {
    const NAME: &'static str;
    const KIND: &'static str;
    fn sem() -> Sem;
    type Out<S: EntryIoStream>: EntryIoStream;
    fn wrap<S: EntryIoStream>(s: S) -> Self::Out<S>;
}

/// a stack of stream wrappers; `(W, R)`: W is the outer stream, i.e. acts on the entry first
trait SChain: 'static {
    const BARE: bool;
    type S: EntryIoStream;
    fn build(cap: Cap) -> Self::S;
    /// steps in action order
    fn path(out: &mut Vec<Step>);
}

pub struct SRec;
impl SChain for SRec {
    const BARE: bool = true;
    type S = RecStream;
    fn build(cap: Cap) -> RecStream {
        RecStream(cap)
    }
    fn path(_out: &mut Vec<Step>) {}
}

/// `format.merge_globals(g).output_to(..)`
pub struct FGlob;
impl SChain for FGlob {
    const BARE: bool = false;
    type S = FormattedEntryIoStream<MergeGlobals<RecFormat, Glob>, io::Sink>;
    fn build(cap: Cap) -> Self::S {
        RecFormat(cap).merge_globals(glob()).output_to(io::sink())
    }
    fn path(out: &mut Vec<Step>) {
        out.push(Step { name: "format:MergeGlobals", kind: "format:MergeGlobals", sem: Sem::GlobalsFirst });
    }
}

/// `format.merge_global_dimensions(dims, Some(deny)).output_to(..)`
pub struct FGdDeny;
impl SChain for FGdDeny {
    const BARE: bool = false;
    type S = FormattedEntryIoStream<MergeGlobalDimensions<RecFormat, 2>, io::Sink>;
    fn build(cap: Cap) -> Self::S {
        RecFormat(cap)
            .merge_global_dimensions::<2>(GD2.iter().map(|(k, v)| (Cow::Borrowed(*k), Cow::Borrowed(*v))).collect(), Some(deny_set()))
            .output_to(io::sink())
    }
    fn path(out: &mut Vec<Step>) {
        out.push(Step { name: "format:MergeGlobalDimensions+deny", kind: "format:MergeGlobalDimensions", sem: Sem::Dims { dims: GD2, deny: DENY } });
    }
}

impl<W: SW, R: SChain> SChain for (W, R) {
    const BARE: bool = false;
    type S = W::Out<R::S>;
    fn build(cap: Cap) -> Self::S {
        W::wrap(R::build(cap))
    }
    fn path(out: &mut Vec<Step>) {
        out.push(Step { name: W::NAME, kind: W::KIND, sem: W::sem() });
        R::path(out);
    }
}

macro_rules! sw {
    ($T:ident, $name:literal, $kind:literal, $sem:expr, <$S:ident> $out:ty, |$s:ident| $body:expr) => {
        pub struct $T;
        impl SW for $T {
            const NAME: &'static str = $name;
            const KIND: &'static str = $kind;
            fn sem() -> Sem {
                $sem
            }
            type Out<$S: EntryIoStream> = $out;
            fn wrap<$S: EntryIoStream>($s: $S) -> $out {
                $body
            }
        }
    };
}

sw!(SHigh, "stream:HighStorageResolution", "stream:ForceFlag", Sem::Flag(Fl::HighRes), <S> HighStorageResolution<S>, |s| HighStorageResolution::<S>::from(s));
sw!(SNoM, "stream:NoMetric", "stream:ForceFlag", Sem::Flag(Fl::NoMetric), <S> NoMetric<S>, |s| NoMetric::<S>::from(s));
sw!(SGlob, "stream:MergeGlobals", "stream:MergeGlobals", Sem::GlobalsFirst, <S> MergeGlobals<S, Glob>, |s| s.merge_globals(glob()));
sw!(SGd, "stream:MergeGlobalDimensions", "stream:MergeGlobalDimensions", Sem::Dims { dims: GD1, deny: &[] }, <S> MergeGlobalDimensions<S, 1>, |s| s
    .merge_global_dimensions::<1>(GD1.iter().map(|(k, v)| (Cow::Borrowed(*k), Cow::Borrowed(*v))).collect(), None));
sw!(SGdDeny, "stream:MergeGlobalDimensions+deny", "stream:MergeGlobalDimensions", Sem::Dims { dims: GD2, deny: DENY }, <S> MergeGlobalDimensions<S, 2>, |s| s
    .merge_global_dimensions::<2>(GD2.iter().map(|(k, v)| (Cow::Borrowed(*k), Cow::Borrowed(*v))).collect(), Some(deny_set())));
sw!(SGdNone, "stream:MergeGlobalDimensions(empty)", "stream:MergeGlobalDimensions", Sem::Id, <S> MergeGlobalDimensions<S, 1>, |s| s
    .merge_global_dimensions::<1>(std::iter::empty().collect(), Some(deny_set())));

// ------------------------------------------------------------------------------------------
// evaluation context and oracle

#[derive(Clone, Debug)]
pub struct Step {
    name: &'static str,
    kind: &'static str,
    sem: Sem,
}

struct BaseInfo {
    label: &'static str,
    c: &'static Compiled,
    plain: Log,
}

struct Fail {
    classes: BTreeSet<&'static str>,
    last_kind: &'static str,
    /// (expected, got); kept only when the composition without its last wrapper is not already
    /// known to fail in the same ways
    detail: Option<(Log, Log)>,
}

struct Cx {
    bases: Vec<BaseInfo>,
    globals: Log,
    /// value and entry steps of the current node, in action order
    path: Vec<Step>,
    only_depth: Option<usize>,
    filter: Option<(Vec<String>, Option<usize>)>,
    evaluations: u64,
    compositions: u64,
    by_depth: BTreeMap<usize, u64>,
    nontrivial: BTreeSet<String>,
    all: BTreeSet<String>,
    fails: BTreeMap<(Vec<&'static str>, usize), Fail>,
    samples: BTreeMap<usize, J>,
}

fn val_json(v: &Val) -> J {
    match v {
        Val::Nothing => json!("nothing"),
        Val::Str(s) => json!({ "string": s }),
        Val::Error(s) => json!({ "error": s }),
        Val::Metric { obs, unit, dims, flags } => json!({
            "obs": obs.iter().map(|(k, a, b)| match k {
                0 => format!("U{a}"),
                1 => format!("F{:?}", f64::from_bits(*a)),
                2 => format!("R{:?}x{b}", f64::from_bits(*a)),
                _ => "?".to_string(),
            }).collect::<Vec<_>>(),
            "unit": unit,
            "dims": dims,
            "flags": format!("{flags:?}"),
        }),
    }
}

fn log_json(l: &Log) -> J {
    json!({
        "calls": l.items.iter().map(|i| match i {
            Item::Ts(n) => json!({ "timestamp_ns": n.to_string() }),
            Item::Config(c) => json!({ "config": c }),
            Item::Value(n, v) => json!({ "value": n, "is": val_json(v) }),
            Item::StreamCalls(n) => json!({ "entries_seen_by_recording_stream": n }),
        }).collect::<Vec<_>>(),
        "sample_group": l.sg,
    })
}

/// the ways in which `got` differs from `exp`
fn diff(exp: &Log, got: &Log, denied: &BTreeSet<&str>) -> BTreeSet<&'static str> {
    let mut c = BTreeSet::new();
    if exp.items != got.items {
        if exp.items.len() != got.items.len() {
            let strip = |l: &Log, f: &dyn Fn(&Item) -> bool| l.items.iter().filter(|i| !f(i)).cloned().collect::<Vec<_>>();
            let is_cfg = |i: &Item| matches!(i, Item::Config(_));
            let is_ts = |i: &Item| matches!(i, Item::Ts(_));
            if strip(exp, &is_cfg) == strip(got, &is_cfg) {
                c.insert("config-calls-differ");
            } else if strip(exp, &is_ts) == strip(got, &is_ts) {
                c.insert("timestamp-calls-differ");
            } else {
                c.insert("log-differs");
            }
        } else {
            let key = |i: &Item| format!("{i:?}");
            let mut a: Vec<String> = exp.items.iter().map(key).collect();
            let mut b: Vec<String> = got.items.iter().map(key).collect();
            a.sort();
            b.sort();
            if a == b {
                c.insert("item-order");
            } else {
                for (e, g) in exp.items.iter().zip(&got.items) {
                    if e == g {
                        continue;
                    }
                    match (e, g) {
                        (
                            Item::Value(n1, Val::Metric { obs: o1, unit: u1, dims: d1, flags: f1 }),
                            Item::Value(n2, Val::Metric { obs: o2, unit: u2, dims: d2, flags: f2 }),
                        ) if n1 == n2 => {
                            if o1 != o2 || u1 != u2 {
                                c.insert("metric-payload-differs");
                            }
                            if f1 != f2 {
                                c.insert("flags-not-merged");
                            }
                            if d1 != d2 {
                                let (mut s1, mut s2) = (d1.clone(), d2.clone());
                                s1.sort();
                                s2.sort();
                                if s1 == s2 {
                                    c.insert("dimension-order");
                                } else if denied.contains(n1.as_str()) {
                                    c.insert("deny-list-ignored");
                                } else {
                                    c.insert("dimensions-differ");
                                }
                            }
                        }
                        _ => {
                            c.insert("log-differs");
                        }
                    }
                }
            }
        }
    }
    // "The order of (key, value) pairs in the group doesn't matter" (Entry::sample_group)
    let (mut a, mut b) = (exp.sg.clone(), got.sg.clone());
    a.sort();
    b.sort();
    if a != b {
        let mut rest = a.clone();
        let sub = b.iter().all(|x| match rest.iter().position(|y| y == x) {
            Some(i) => {
                rest.remove(i);
                true
            }
            None => false,
        });
        c.insert(if sub { "sample-group-dropped" } else { "sample-group-differs" });
    }
    c
}

impl Cx {
    /// Evaluate the composition `self.path ++ stream_steps` on every base entry.
    #[inline(never)]
    fn evaluate(&mut self, stream_steps: &[Step], run: &dyn Fn(&'static Compiled) -> Log) {
        let total = self.path.len() + stream_steps.len();
        if let Some(d) = self.only_depth
            && total != d
        {
            return;
        }
        let steps: Vec<Step> = self.path.iter().chain(stream_steps).cloned().collect();
        let names: Vec<&'static str> = steps.iter().map(|s| s.name).collect();
        if let Some((f, _)) = &self.filter
            && !(f.len() == names.len() && f.iter().zip(&names).all(|(a, b)| a == b))
        {
            return;
        }
        let id = names.join(" > ");
        if !self.all.insert(id.clone()) {
            eprintln!("C15 machinery: composition enumerated twice: {id}");
            std::process::exit(2);
        }
        self.compositions += 1;
        *self.by_depth.entry(total).or_default() += 1;
        let n_nontrivial = steps.iter().filter(|s| s.sem != Sem::Id).count();
        if n_nontrivial > 0 {
            self.nontrivial.insert(id);
        }
        let denied: BTreeSet<&str> = steps
            .iter()
            .flat_map(|s| match &s.sem {
                Sem::Dims { deny, .. } => deny.to_vec(),
                _ => vec![],
            })
            .collect();
        for bi in 0..self.bases.len() {
            if let Some((_, Some(only))) = &self.filter
                && *only != bi
            {
                continue;
            }
            let mut exp = self.bases[bi].plain.clone();
            for s in &steps {
                transform(&mut exp, &s.sem, &self.globals);
            }
            let got = run(self.bases[bi].c);
            self.evaluations += 1;
            let classes = diff(&exp, &got, &denied);
            if classes.is_empty() {
                if n_nontrivial == total
                    && (1..total).all(|i| (0..i).all(|j| std::mem::discriminant(&steps[i].sem) != std::mem::discriminant(&steps[j].sem))) && total > 0 && self.bases[bi].label == "mixed" && !self.samples.contains_key(&total) {
                    self.samples.insert(
                        total,
                        json!({ "composition": names, "base_entry": self.bases[bi].c.d.to_json(), "base_sample_group": self.bases[bi].c.sg, "observed_equals_expected": log_json(&got) }),
                    );
                }
                continue;
            }
            if names.is_empty() {
                eprintln!("C15 machinery: the plain entry does not produce the log its description denotes: base {} {:?} vs {:?}", self.bases[bi].label, exp, got);
                std::process::exit(2);
            }
            let parent: Vec<&'static str> = names[..names.len() - 1].to_vec();
            let covered = self.fails.get(&(parent, bi)).is_some_and(|p| classes.iter().all(|c| p.classes.contains(c)));
            let last_kind = steps.last().unwrap().kind;
            self.fails.insert((names.clone(), bi), Fail { classes, last_kind, detail: if covered { None } else { Some((exp, got)) } });
        }
    }
}

#[inline(never)]
fn eval_direct<E: Ent, F: Fn(&'static Compiled, &mut Arena) -> E>(cx: &mut Cx, make: &F) {
    cx.evaluate(&[], &|c| {
        let mut arena = Arena::default();
        let e = make(c, &mut arena);
        let log = record(&e);
        drop(e);
        drop(arena);
        log
    })
}

#[inline(never)]
fn eval_stream<E: Ent, F: Fn(&'static Compiled, &mut Arena) -> E, C: SChain>(cx: &mut Cx, make: &F) {
    let mut sp = Vec::new();
    C::path(&mut sp);
    cx.evaluate(&sp, &|c| {
        let cap: Cap = Cap::default();
        let mut stream = C::build(cap.clone());
        let mut arena = Arena::default();
        let e = make(c, &mut arena);
        // the same entry three times through ONE stream stack: a wrapper must not spend its
        // configuration (globals, dimensions, deny list) on the first entry
        // ... and the second of three is rejected by the stream below the wrappers (after it
        // has been recorded): the error must come back, and the third entry must be treated
        // like the first
        REJECT_WHEN_LOG_LEN.with(|c| c.set(2));
        let r1 = stream.next(&e);
        let r2 = stream.next(&e);
        let r3 = stream.next(&e);
        REJECT_WHEN_LOG_LEN.with(|c| c.set(0));
        let _ = stream.flush();
        drop(stream);
        drop(e);
        drop(arena);
        match (r1, r2, r3) {
            (Ok(()), Err(IoStreamError::Validation(_)), Ok(())) => {
                let mut v = cap.borrow_mut();
                if v.len() != 3 {
                    return Log { items: vec![Item::StreamCalls(v.len())], sg: vec![] };
                }
                let third = v.pop().unwrap();
                let second = v.pop().unwrap();
                let first = v.pop().unwrap();
                if first == second && first == third {
                    first
                } else {
                    // report the deviating entry's log, marked so that it cannot match by accident
                    let (mut l, n) = if first != second { (second, 2) } else { (third, 3) };
                    l.items.push(Item::StreamCalls(n));
                    l
                }
            }
            (r1, r2, r3) => Log { items: vec![Item::StreamCalls(usize::MAX - [r1.is_ok(), r2.is_ok(), r3.is_ok()].iter().filter(|b| **b).count())], sg: vec![] },
        }
    })
}

fn vstep<W: VW>() -> Step {
    Step { name: W::NAME, kind: W::KIND, sem: W::sem() }
}
fn estep<W: EW>() -> Step {
    Step { name: W::NAME, kind: W::KIND, sem: W::sem() }
}

// ------------------------------------------------------------------------------------------
// bounded generic recursion over an alphabet

macro_rules! explorer {
    ($m:ident, V: [$($v:ident),* $(,)?], E: [$($w:ident),* $(,)?], S: [$($s:ident),* $(,)?], F: [$($f:ident),* $(,)?]) => {
        pub mod $m {
            use super::*;

            /// `Self` = how many more wrappers may be added
            pub trait Depth: Sized + 'static {
                type Pred: Depth;

                /// node = value chain C on the base entry; then longer value chains
                fn values<C: VChain>(cx: &mut Cx) {
                    Self::entries::<Base<C>, _>(cx, &|c: &'static Compiled, _a: &mut Arena| Base::<C>::new(c));
                    $(
                        cx.path.push(vstep::<$v>());
                        <Self::Pred as Depth>::values::<(C, $v)>(cx);
                        cx.path.pop();
                    )*
                }

                /// node = entry composition E; its stream stacks; then one more entry wrapper
                fn entries<E: Ent, F: Fn(&'static Compiled, &mut Arena) -> E>(cx: &mut Cx, make: &F) {
                    eval_direct::<E, F>(cx, make);
                    Self::stream_ext::<E, F, SRec>(cx, make);
                    $(
                        cx.path.push(estep::<$w>());
                        <Self::Pred as Depth>::entries::<<$w as EW>::Out<E>, _>(cx, &|c: &'static Compiled, a: &mut Arena| {
                            <$w as EW>::apply(make(c, &mut *a), a)
                        });
                        cx.path.pop();
                    )*
                }

                /// put one more stream wrapper outside stack C (or start from a format-level one)
                fn stream_ext<E: Ent, F: Fn(&'static Compiled, &mut Arena) -> E, C: SChain>(cx: &mut Cx, make: &F) {
                    $( <Self::Pred as Depth>::stream_node::<E, F, ($s, C)>(cx, make); )*
                    if C::BARE {
                        $( <Self::Pred as Depth>::stream_node::<E, F, $f>(cx, make); )*
                    }
                }

                fn stream_node<E: Ent, F: Fn(&'static Compiled, &mut Arena) -> E, C: SChain>(cx: &mut Cx, make: &F) {
                    eval_stream::<E, F, C>(cx, make);
                    Self::stream_ext::<E, F, C>(cx, make);
                }
            }

            pub struct D0;
            pub struct D1;
            pub struct D2;
            pub struct D3;
            impl Depth for D0 {
                type Pred = D0;
                fn values<C: VChain>(cx: &mut Cx) {
                    Self::entries::<Base<C>, _>(cx, &|c: &'static Compiled, _a: &mut Arena| Base::<C>::new(c));
                }
                fn entries<E: Ent, F: Fn(&'static Compiled, &mut Arena) -> E>(cx: &mut Cx, make: &F) {
                    eval_direct::<E, F>(cx, make);
                }
                fn stream_ext<E: Ent, F: Fn(&'static Compiled, &mut Arena) -> E, C: SChain>(_cx: &mut Cx, _make: &F) {}
                fn stream_node<E: Ent, F: Fn(&'static Compiled, &mut Arena) -> E, C: SChain>(cx: &mut Cx, make: &F) {
                    eval_stream::<E, F, C>(cx, make);
                }
            }
            impl Depth for D1 {
                type Pred = D0;
            }
            impl Depth for D2 {
                type Pred = D1;
            }
            impl Depth for D3 {
                type Pred = D2;
            }

            pub fn alphabet() -> J {
                let mut p = Vec::new();
                $( <$f as SChain>::path(&mut p); )*
                json!({
                    "value": [$(<$v as VW>::NAME),*],
                    "entry": [$(<$w as EW>::NAME),*],
                    "stream": [$(<$s as SW>::NAME),*],
                    "format": p.iter().map(|s| s.name).collect::<Vec<_>>(),
                })
            }
        }
    };
}

explorer!(full,
    V: [VDim1, VDim2, VDim0, VHigh, VNoM, VOpt, VBox, VArc, VCow, VRef],
    E: [EBoxEntry, EMergeGF, EMergeGA, ERefGF, ERefGA, EDim1, EDim2, EGd, EGdDeny, EHigh, ENoM, ERoot, EOpt, EBoxed, EArc, ECow, ERef, ERootDim, ERootFlag, ERootCont],
    S: [SHigh, SNoM, SGlob, SGd, SGdDeny, SGdNone],
    F: [FGlob, FGdDeny]);

// depth 3 is enumerated over this restricted alphabet only
explorer!(sub,
    V: [VDim1, VHigh, VNoM, VCow],
    E: [EBoxEntry, EMergeGF, ERefGF, EDim1, EGdDeny, ENoM, ERoot, EOpt, EArc, ERef],
    S: [SHigh, SGlob, SGdDeny],
    F: [FGlob]);

// ------------------------------------------------------------------------------------------

// ------------------------------------------------------------------------------------------
// closed and rooted `#[metrics]` structs whose fields carry attached dimensions (round 14,
// `C15l`): "rooting a closed metric never alters what is reported" - the dimensions a format
// sees through `close()` + `RootEntry` are the attached ones, in order, repeats included.

#[metrique::unit_of_work::metrics]
struct ClosedDims {
    repeated_class: WithDimensions<u64, 3>,
    repeated_pair: WithDimensions<u64, 2>,
    same_pair_twice: WithDimensions<u64, 2>,
    distinct: WithDimensions<u64, 2>,
    nested: WithDimensions<WithDimensions<u64, 2>, 2>,
    one: WithDimensions<u64, 1>,
}

const CLOSED_DIMS: &[(&str, &[(&str, &str)])] = &[
    ("repeated_class", &[("Attempt", "1"), ("Attempt", "2"), ("Az", "a")]),
    ("repeated_pair", &[("Az", "a"), ("Az", "b")]),
    ("same_pair_twice", &[("Az", "a"), ("Az", "a")]),
    ("distinct", &[("Az", "a"), ("Op", "a")]),
    ("nested", &[("In", "x"), ("In", "y"), ("Out", "p"), ("Out", "q")]),
    ("one", &[("Az", "a")]),
];

fn closed_and_rooted(rep: &mut Report) -> u64 {
    fn w<const N: usize>(d: &[(&'static str, &'static str)]) -> WithDimensions<u64, N> {
        let mut w = WithDimensions::<u64, N>::from(7u64);
        for (k, v) in d {
            w.add_dimension(*k, *v);
        }
        w
    }
    let d = |n: &str| CLOSED_DIMS.iter().find(|(f, _)| *f == n).unwrap().1;
    let mut nested = WithDimensions::<WithDimensions<u64, 2>, 2>::from(w::<2>(&d("nested")[..2]));
    for (k, v) in &d("nested")[2..] {
        nested.add_dimension(*k, *v);
    }
    let m = ClosedDims {
        repeated_class: w::<3>(d("repeated_class")),
        repeated_pair: w::<2>(d("repeated_pair")),
        same_pair_twice: w::<2>(d("same_pair_twice")),
        distinct: w::<2>(d("distinct")),
        nested,
        one: w::<1>(d("one")),
    };
    let log = record(&RootEntry::new(metrique::CloseValue::close(m)));
    let mut n = 0;
    for (field, dims) in CLOSED_DIMS {
        n += 1;
        let want: Vec<(String, String)> = dims.iter().map(|(k, v)| (k.to_string(), v.to_string())).collect();
        let got: Vec<&Val> = log.items.iter().filter_map(|i| match i { Item::Value(name, v) if name == field => Some(v), _ => None }).collect();
        let ok = matches!(got.as_slice(), [Val::Metric { dims, obs, .. }] if *dims == want && obs.len() == 1);
        if !ok {
            rep.violation(
                format!("closed-and-rooted:dimensions-differ:{field}"),
                format!("a #[metrics] field `{field}` with the attached dimensions {want:?} is reported, closed and rooted, as {got:?}"),
                json!({"scenario": "closed-and-rooted", "field": field, "attached": format!("{want:?}"), "reported": format!("{got:?}")}),
            );
        }
    }
    n
}

fn main() {
    let mut rep = Report::from_args("C15", "exploration");
    let bases: Vec<BaseInfo> = base_entries().into_iter().map(|(label, c)| BaseInfo { label, c, plain: describe(c) }).collect();
    let filter = rep.replay.as_ref().map(|p| {
        let text = std::fs::read_to_string(p).unwrap_or_else(|e| {
            eprintln!("cannot read replay file {p:?}: {e}");
            std::process::exit(2)
        });
        let j: J = serde_json::from_str(&text).unwrap_or_else(|e| {
            eprintln!("replay file is not JSON: {e}");
            std::process::exit(2)
        });
        let r = j.get("replay").unwrap_or(&j);
        let comp: Vec<String> = r["composition"].as_array().map(|a| a.iter().filter_map(|x| x.as_str().map(String::from)).collect()).unwrap_or_default();
        let base = r["base"].as_str().and_then(|l| bases.iter().position(|b| b.label == l));
        (comp, base)
    });
    let mut cx = Cx {
        globals: describe(globals_compiled()),
        bases,
        path: Vec::new(),
        only_depth: None,
        filter,
        evaluations: 0,
        compositions: 0,
        by_depth: BTreeMap::new(),
        nontrivial: BTreeSet::new(),
        all: BTreeSet::new(),
        fails: BTreeMap::new(),
        samples: BTreeMap::new(),
    };
    // the three flag renderings must be distinguishable, or the flag oracle is blind
    let t = flag_table();
    if t[0].0 == t[1].0 || t[1].0 == t[2].0 || t[0].0 == t[2].0 {
        eprintln!("C15 machinery: flag values have indistinguishable Debug renderings: {t:?}");
        std::process::exit(2);
    }

    // all compositions of at most 2 wrappers over the full alphabet
    <full::D2 as full::Depth>::values::<()>(&mut cx);
    let depth = rep.tier.pick(2, 3);
    if rep.tier == Tier::Thorough || cx.filter.as_ref().is_some_and(|(c, _)| c.len() == 3) {
        // plus all compositions of exactly 3 wrappers over the restricted alphabet
        cx.only_depth = Some(3);
        <sub::D3 as sub::Depth>::values::<()>(&mut cx);
        cx.only_depth = None;
    }
    assert!(cx.path.is_empty());

    // attribute every failure to the wrapper whose addition introduces it: a (composition, base,
    // class) is derived when the composition without its last-acting wrapper fails the same way
    let mut derived = 0u64;
    let mut failing_evaluations = 0u64;
    for ((names, bi), f) in &cx.fails {
        failing_evaluations += 1;
        let parent: Vec<&'static str> = names[..names.len() - 1].to_vec();
        let pf = cx.fails.get(&(parent, *bi));
        for class in &f.classes {
            if pf.is_some_and(|p| p.classes.contains(class)) {
                derived += 1;
                continue;
            }
            let (exp, got) = f.detail.as_ref().expect("detail is kept for every non-derived failure");
            let what = match *class {
                "sample-group-dropped" => format!("{} does not forward sample_group(): the wrapped entry reports {:?} instead of {:?}", names.last().unwrap(), got.sg, exp.sg),
                "sample-group-differs" => format!("sample_group() through {} is {:?}, documented {:?}", names.last().unwrap(), got.sg, exp.sg),
                "dimension-order" => format!("{} does not append its dimensions after the existing ones", names.last().unwrap()),
                "deny-list-ignored" => format!("{}: a metric named in the deny list does not keep exactly its own dimensions", names.last().unwrap()),
                "dimensions-differ" => format!("{}: the dimensions of a metric are not the existing ones plus the documented additions", names.last().unwrap()),
                "flags-not-merged" => format!("{}: the flags of a metric are not the merge of its own flags and the forced ones", names.last().unwrap()),
                "metric-payload-differs" => format!("{} changes the observations or the unit of a metric", names.last().unwrap()),
                "item-order" => format!("{} reports the same items in a different order than documented", names.last().unwrap()),
                "config-calls-differ" => format!("{} drops or duplicates config() calls", names.last().unwrap()),
                "timestamp-calls-differ" => format!("{} drops or duplicates timestamp() calls", names.last().unwrap()),
                _ => format!("the call log through {} differs from the plain log plus the documented additions", names.last().unwrap()),
            };
            rep.violation(
                format!("{class}:{}", f.last_kind),
                what,
                json!({
                    "composition": names,
                    "base": cx.bases[*bi].label,
                    "base_entry": cx.bases[*bi].c.d.to_json(),
                    "base_sample_group": cx.bases[*bi].c.sg,
                    "class": class,
                    "expected": log_json(exp),
                    "got": log_json(got),
                }),
            );
        }
    }

    let closed_fields = if cx.filter.is_none() { closed_and_rooted(&mut rep) } else { 0 };
    rep.set("closed_and_rooted_fields_with_attached_dimensions", closed_fields);
    let restricted = rep.tier == Tier::Thorough;
    rep.set("evaluations", cx.evaluations);
    rep.set("compositions", cx.compositions);
    rep.set("compositions_by_depth", json!(cx.by_depth.iter().map(|(d, n)| (d.to_string(), json!(n))).collect::<serde_json::Map<_, _>>()));
    rep.set("distinct_nontrivial", cx.nontrivial.len() as u64);
    rep.set("base_entries", cx.bases.iter().map(|b| b.label).collect::<Vec<_>>());
    rep.set("depth", depth);
    rep.set("wrappers", full::alphabet());
    if restricted {
        rep.set("wrappers_at_depth_3", sub::alphabet());
    }
    rep.set("failing_evaluations", failing_evaluations);
    rep.set("failures_derived_from_a_shorter_failing_composition", derived);
    rep.set("skipped_undetermined", 0);
    rep.set(
        "rule",
        "composition = sequence (value wrappers)*(entry wrappers)*(stream wrappers)* in the order in which they act; every composition is applied to every base entry, the real types are driven by a recording EntryWriter/ValueWriter (streams: a recording EntryIoStream / Format below the wrappers) and the ordered call log + sample_group must equal the description's log transformed step by step by the reference (Sem: identity | globals' items and sample group first/after | dimensions appended after existing ones on metrics not deny-listed | flags merged by max(None<HighStorageResolution<NoMetric))); distinct_nontrivial = distinct compositions with at least one non-identity step; a failure is keyed by the wrapper type whose addition introduces it",
    );
    rep.set("exhaustive", true);
    rep.set(
        "exhaustive_scope",
        if restricted {
            "every sequence of at most 2 wrappers over the full alphabet `wrappers`, and every sequence of exactly 3 wrappers over the restricted alphabet `wrappers_at_depth_3` only (NOT over the full alphabet); x every base entry; format-level wrappers only directly above the recording format"
        } else {
            "every sequence of at most 2 wrappers over the full alphabet `wrappers` x every base entry; format-level wrappers only directly above the recording format"
        },
    );
    for (_, s) in std::mem::take(&mut cx.samples) {
        rep.sample(s);
    }
    rep.assume("sample groups are compared as multisets (Entry::sample_group: 'The order of (key, value) pairs in the group doesn't matter')");
    rep.assume("configs are compared by their Debug rendering, flags by their Debug rendering mapped onto {none, HighStorageResolution, NoMetric} (EmfOptions is private)");
    rep.assume("BoxEntry and RootEntry results are held in a harness pass-through (forwards write with the same writer and sample_group verbatim) so that the non-Clone / non-Sync types are accepted by every outer wrapper; by-reference wrappers point into a per-evaluation arena");
    rep.assume("Option is exercised as Some(..) only: the statement does not say what None reports");
    rep.assume("only the EMF flag family is forced: try_merge of unrelated flag families is documented to panic");
    rep.finish();
}
