//! C05: the sequential search over the real writer loop (see vh_seq::writer_model).
fn main() {
    vh_seq::writer_model::run("C05")
}
