//! C17 (sequential part) - global sinks route each entry to exactly one destination, by fixed
//! precedence: explicit-state search over operation histories against the REAL
//! `global_entry_sink!` machinery (test-util enabled) with a reference precedence model written
//! from the property statement. (append racing with detach: loom, vh-sched.)
//!
//! The state behind a `global_entry_sink!` is process-global, so histories run ONE AT A TIME.
//! The parent process only enumerates / partitions / merges; every history is executed in a
//! child process (`--child ..`, each child has its own global) on two long-lived OS threads
//! (T0 = the child's main thread = the explorer, T1 = a worker driven in lock-step through a
//! hand-off slot) and two current-thread tokio runtimes R0/R1 ("from (T, R)" = executed on
//! thread T inside `R.block_on(async { .. })`, so `Handle::try_current()` succeeds there).
//!
//! Child modes
//!   main  D part/of      every history of exactly D operations without `forget` (all shorter
//!                        histories are prefixes and are checked step by step on the way)
//!   after-forget X ..    [attach X, forget] once, then every history of D-2 operations from
//!                        the state "X attached forever"
//!   one  HIST            one given history (may contain `forget` anywhere) in a fresh process
use metrique_writer::sink::{AttachHandle, FlushWait};
use metrique_writer::{
    AttachGlobalEntrySink, BoxEntry, BoxEntrySink, Entry, EntryConfig, EntrySink, EntryWriter, GlobalEntrySink, MetricFlags, Observation, Unit,
    ValidationError, Value, ValueWriter,
};
use metrique_writer_core::global::{ThreadLocalTestSinkGuard, TokioRuntimeTestSinkGuard};
use serde_json::{Value as J, json};
use std::borrow::Cow;
use std::cell::Cell;
use std::collections::{BTreeMap, HashMap};
use std::panic::{AssertUnwindSafe, catch_unwind};
use std::sync::atomic::{AtomicU32, AtomicUsize, Ordering};
use std::sync::{Arc, Mutex};
use std::time::SystemTime;
use vh_common::Report;
use vh_common::report::{Violation, Violations};

metrique_writer::sink::global_entry_sink! { VerifGlobal }
// a second global in the same process (two-globals histories: each routes by its own state only)
metrique_writer::sink::global_entry_sink! { VerifGlobalB }

// ------------------------------------------------------------------------------------------
// operations
// ------------------------------------------------------------------------------------------

#[derive(Clone, Copy, Debug, PartialEq, Eq, Hash, PartialOrd, Ord)]
enum Kind {
    Append,
    TryAppend,
    Sink,
}

#[derive(Clone, Copy, Debug, PartialEq, Eq, Hash, PartialOrd, Ord)]
enum Op {
    /// attach recording sink A (0) / B (1)
    Attach(u8),
    DropAttach,
    Forget,
    InstallTl(u8),
    DropTl(u8),
    InstallRt(u8),
    DropRt(u8),
    /// ctx: 0 = outside any runtime, 1 = inside R0, 2 = inside R1
    Emit { kind: Kind, t: u8, ctx: u8 },
}

impl Op {
    fn token(self) -> String {
        match self {
            Op::Attach(x) => format!("attach-{}", if x == 0 { "A" } else { "B" }),
            Op::DropAttach => "drop-handle".into(),
            Op::Forget => "forget".into(),
            Op::InstallTl(t) => format!("tl-install@T{t}"),
            Op::DropTl(t) => format!("tl-drop@T{t}"),
            Op::InstallRt(r) => format!("rt-install:R{r}"),
            Op::DropRt(r) => format!("rt-drop:R{r}"),
            Op::Emit { kind, t, ctx } => {
                let k = match kind {
                    Kind::Append => "append",
                    Kind::TryAppend => "try_append",
                    Kind::Sink => "sink",
                };
                if ctx == 0 { format!("{k}@T{t}") } else { format!("{k}@T{t}/R{}", ctx - 1) }
            }
        }
    }
    fn parse(s: &str) -> Option<Op> {
        all_ops().into_iter().find(|o| o.token() == s)
    }
    /// stable class name used in violation keys
    fn class(self) -> &'static str {
        match self {
            Op::Attach(_) => "attach",
            Op::DropAttach => "drop-attach-handle",
            Op::Forget => "forget",
            Op::InstallTl(_) => "install-thread-sink",
            Op::DropTl(_) => "drop-thread-guard",
            Op::InstallRt(_) => "install-runtime-sink",
            Op::DropRt(_) => "drop-runtime-guard",
            Op::Emit { kind: Kind::Append, .. } => "append",
            Op::Emit { kind: Kind::TryAppend, .. } => "try_append",
            Op::Emit { kind: Kind::Sink, .. } => "sink",
        }
    }
    /// (thread, ctx) the operation executes on. Operations that are not tied to a thread by
    /// the API are placed deterministically so that guards / handles also cross threads.
    fn place(self) -> (u8, u8) {
        match self {
            Op::Attach(x) => (x, 0),
            Op::DropAttach => (1, 0),
            Op::Forget => (0, 0),
            Op::InstallTl(t) | Op::DropTl(t) => (t, 0),
            Op::InstallRt(r) => (r, 0),
            Op::DropRt(r) => (1 - r, r + 1),
            Op::Emit { t, ctx, .. } => (t, ctx),
        }
    }
    fn is_observer(self) -> bool {
        matches!(self, Op::Emit { .. })
    }
}

fn all_ops() -> Vec<Op> {
    let mut v = vec![Op::Attach(0), Op::Attach(1), Op::DropAttach, Op::Forget];
    for i in 0..2 {
        v.extend([Op::InstallTl(i), Op::DropTl(i), Op::InstallRt(i), Op::DropRt(i)]);
    }
    for kind in [Kind::Append, Kind::TryAppend, Kind::Sink] {
        for t in 0..2 {
            for ctx in 0..3 {
                v.push(Op::Emit { kind, t, ctx });
            }
        }
    }
    v
}

fn hist_tokens(h: &[Op]) -> Vec<String> {
    h.iter().map(|o| o.token()).collect()
}

// ------------------------------------------------------------------------------------------
// reference model (from the property statement)
// ------------------------------------------------------------------------------------------

#[derive(Clone, Copy, Debug, PartialEq, Eq, Hash, PartialOrd, Ord)]
enum DestKind {
    A,
    B,
    Tl0,
    Tl1,
    Rt0,
    Rt1,
}

impl DestKind {
    fn name(self) -> &'static str {
        match self {
            DestKind::A => "attached-A",
            DestKind::B => "attached-B",
            DestKind::Tl0 => "thread-sink-T0",
            DestKind::Tl1 => "thread-sink-T1",
            DestKind::Rt0 => "runtime-sink-R0",
            DestKind::Rt1 => "runtime-sink-R1",
        }
    }
    fn guard_class(self) -> &'static str {
        match self {
            DestKind::A | DestKind::B => "attach-handle",
            DestKind::Tl0 | DestKind::Tl1 => "thread-local-guard",
            DestKind::Rt0 | DestKind::Rt1 => "runtime-guard",
        }
    }
    fn idx(self) -> usize {
        self as usize
    }
}

#[derive(Clone, Copy, Debug, PartialEq, Eq, Hash, PartialOrd, Ord, Default)]
struct Model {
    /// which sink is attached (0 = A, 1 = B)
    attached: Option<u8>,
    /// the attach handle is still held (false after `forget`: attached forever)
    handle: bool,
    tl: [bool; 2],
    rt: [bool; 2],
}

#[derive(Clone, Copy, Debug, PartialEq, Eq)]
enum Expect {
    /// entry must land in exactly this destination
    Deliver(DestKind),
    /// try_append must hand the entry back unchanged
    Return,
    /// documented panic, state unchanged
    Panic,
    /// state change, no panic, no entry moves
    Quiet,
}

impl Model {
    fn code(&self) -> usize {
        let a = match self.attached {
            None => 0,
            Some(x) => 1 + x as usize,
        };
        a | (self.handle as usize) << 2 | (self.tl[0] as usize) << 3 | (self.tl[1] as usize) << 4 | (self.rt[0] as usize) << 5 | (self.rt[1] as usize) << 6
    }
    fn describe(code: usize) -> String {
        let a = ["-", "A", "B", "?"][code & 3];
        format!(
            "attached={a}{} tl=[{},{}] rt=[{},{}]",
            if code & 3 != 0 && code & 4 == 0 { "(forever)" } else { "" },
            code >> 3 & 1,
            code >> 4 & 1,
            code >> 5 & 1,
            code >> 6 & 1
        )
    }
    /// precedence: calling thread's test sink, else current runtime's test sink, else attached
    fn route(&self, t: u8, ctx: u8) -> Option<DestKind> {
        if self.tl[t as usize] {
            return Some(if t == 0 { DestKind::Tl0 } else { DestKind::Tl1 });
        }
        if ctx > 0 && self.rt[ctx as usize - 1] {
            return Some(if ctx == 1 { DestKind::Rt0 } else { DestKind::Rt1 });
        }
        self.attached.map(|x| if x == 0 { DestKind::A } else { DestKind::B })
    }
    fn enabled(&self, allow_forget: bool) -> Vec<Op> {
        let mut v = vec![Op::Attach(0), Op::Attach(1)];
        if self.handle {
            v.push(Op::DropAttach);
            if allow_forget {
                v.push(Op::Forget);
            }
        }
        for i in 0..2u8 {
            v.push(Op::InstallTl(i));
            if self.tl[i as usize] {
                v.push(Op::DropTl(i));
            }
        }
        for i in 0..2u8 {
            v.push(Op::InstallRt(i));
            if self.rt[i as usize] {
                v.push(Op::DropRt(i));
            }
        }
        for kind in [Kind::Append, Kind::TryAppend, Kind::Sink] {
            for t in 0..2 {
                for ctx in 0..3 {
                    v.push(Op::Emit { kind, t, ctx });
                }
            }
        }
        v
    }
    /// what the statement predicts for `op` in this state
    fn expect(&self, op: Op) -> Expect {
        match op {
            Op::Attach(_) => {
                if self.attached.is_some() { Expect::Panic } else { Expect::Quiet }
            }
            Op::InstallTl(t) => {
                if self.tl[t as usize] { Expect::Panic } else { Expect::Quiet }
            }
            Op::InstallRt(r) => {
                if self.rt[r as usize] { Expect::Panic } else { Expect::Quiet }
            }
            Op::DropAttach | Op::Forget | Op::DropTl(_) | Op::DropRt(_) => Expect::Quiet,
            Op::Emit { kind, t, ctx } => match self.route(t, ctx) {
                Some(d) => Expect::Deliver(d),
                None if kind == Kind::TryAppend => Expect::Return,
                None => Expect::Panic,
            },
        }
    }
    fn apply(&mut self, op: Op) {
        if self.expect(op) == Expect::Panic {
            return; // a panicking operation leaves the global as it was
        }
        match op {
            Op::Attach(x) => {
                self.attached = Some(x);
                self.handle = true;
            }
            Op::DropAttach => {
                self.attached = None;
                self.handle = false;
            }
            Op::Forget => self.handle = false,
            Op::InstallTl(t) => self.tl[t as usize] = true,
            Op::DropTl(t) => self.tl[t as usize] = false,
            Op::InstallRt(r) => self.rt[r as usize] = true,
            Op::DropRt(r) => self.rt[r as usize] = false,
            Op::Emit { .. } => {}
        }
    }
}

// ------------------------------------------------------------------------------------------
// enumeration of the history space (model only; used identically by parent and children)
// ------------------------------------------------------------------------------------------

#[derive(Clone, Copy, Debug)]
struct EnumCfg {
    depth: usize,
    /// only canonical representatives under renaming of threads / runtimes / sinks: the first
    /// thread mentioned is T0, the first runtime mentioned is R0, the first sink attached is A
    sym: bool,
    /// at most this many append / try_append / sink() operations per history
    max_obs: usize,
    allow_forget: bool,
}

#[derive(Clone, Copy, Default, PartialEq, Eq, Hash)]
struct Seen {
    t: bool,
    r: bool,
    s: bool,
    obs: usize,
}

fn admit(op: Op, seen: &Seen, cfg: &EnumCfg) -> Option<Seen> {
    let mut n = *seen;
    if op.is_observer() {
        if seen.obs >= cfg.max_obs {
            return None;
        }
        n.obs += 1;
    }
    if cfg.sym {
        let (mt, mr, ms) = match op {
            Op::Attach(x) => (None, None, Some(x)),
            Op::InstallTl(t) | Op::DropTl(t) => (Some(t), None, None),
            Op::InstallRt(r) | Op::DropRt(r) => (None, Some(r), None),
            Op::Emit { t, ctx, .. } => (Some(t), if ctx > 0 { Some(ctx - 1) } else { None }, None),
            Op::DropAttach | Op::Forget => (None, None, None),
        };
        if let Some(t) = mt {
            if !seen.t && t != 0 {
                return None;
            }
            n.t = true;
        }
        if let Some(r) = mr {
            if !seen.r && r != 0 {
                return None;
            }
            n.r = true;
        }
        if let Some(s) = ms {
            if !seen.s && s != 0 {
                return None;
            }
            n.s = true;
        }
    }
    Some(n)
}

const PREFIX_LEVEL: usize = 3;

/// Calls `visit` for every history of exactly `cfg.depth` operations from `m`; the subtrees
/// below level PREFIX_LEVEL are dealt round-robin to `of` parts.
fn walk(m: &Model, seen: &Seen, hist: &mut Vec<Op>, cfg: &EnumCfg, part: (usize, usize), prefix_ctr: &mut usize, visit: &mut dyn FnMut(&[Op]) -> bool) -> bool {
    if hist.len() == PREFIX_LEVEL.min(cfg.depth) {
        let idx = *prefix_ctr;
        *prefix_ctr += 1;
        if idx % part.1 != part.0 {
            return true;
        }
    }
    if hist.len() == cfg.depth {
        return visit(hist);
    }
    for op in m.enabled(cfg.allow_forget) {
        let Some(s2) = admit(op, seen, cfg) else { continue };
        let mut m2 = *m;
        m2.apply(op);
        hist.push(op);
        let go = walk(&m2, &s2, hist, cfg, part, prefix_ctr, visit);
        hist.pop();
        if !go {
            return false;
        }
    }
    true
}

/// number of histories `walk` visits over all parts (dynamic programming over model states)
fn count_histories(m: &Model, seen: &Seen, left: usize, cfg: &EnumCfg, memo: &mut HashMap<(Model, Seen, usize), u64>) -> u64 {
    if left == 0 {
        return 1;
    }
    if let Some(n) = memo.get(&(*m, *seen, left)) {
        return *n;
    }
    let mut n = 0;
    for op in m.enabled(cfg.allow_forget) {
        let Some(s2) = admit(op, seen, cfg) else { continue };
        let mut m2 = *m;
        m2.apply(op);
        n += count_histories(&m2, &s2, left - 1, cfg, memo);
    }
    memo.insert((*m, *seen, left), n);
    n
}

// ------------------------------------------------------------------------------------------
// recording sinks and the event log (one history at a time per process)
// ------------------------------------------------------------------------------------------

#[derive(Clone, Copy, Debug)]
enum Ev {
    Recv { inst: u64, id: u64, tag: u64 },
    /// the handle part of the attach tuple was dropped (= flush-and-close of that sink)
    Closed { inst: u64 },
}

static LOG: Mutex<Vec<Ev>> = Mutex::new(Vec::new());

fn log(ev: Ev) {
    LOG.lock().unwrap_or_else(|e| e.into_inner()).push(ev);
}

struct VEntry {
    id: u64,
    tag: u64,
}
fn tag_of(id: u64) -> u64 {
    id.wrapping_mul(0x9E37_79B9_7F4A_7C15) ^ 0xC17
}
impl Entry for VEntry {
    fn write<'a>(&'a self, w: &mut impl EntryWriter<'a>) {
        w.value("id", &self.id);
        w.value("tag", &self.tag);
    }
}

struct IdWriter {
    id: Option<u64>,
    tag: Option<u64>,
}
struct U64Cap<'b>(&'b mut Option<u64>);
impl ValueWriter for U64Cap<'_> {
    fn string(self, _: &str) {}
    fn metric<'a>(self, distribution: impl IntoIterator<Item = Observation>, _unit: Unit, _dims: impl IntoIterator<Item = (&'a str, &'a str)>, _flags: MetricFlags<'_>) {
        for o in distribution {
            if let Observation::Unsigned(v) = o {
                *self.0 = Some(v);
            }
        }
    }
    fn error(self, _: ValidationError) {}
}
impl<'a> EntryWriter<'a> for IdWriter {
    fn timestamp(&mut self, _: SystemTime) {}
    fn value(&mut self, name: impl Into<Cow<'a, str>>, value: &(impl Value + ?Sized)) {
        let name = name.into();
        let mut got = None;
        value.write(U64Cap(&mut got));
        match &*name {
            "id" => self.id = got,
            "tag" => self.tag = got,
            _ => {}
        }
    }
    fn config(&mut self, _: &'a dyn EntryConfig) {}
}

struct RecSink {
    inst: u64,
}
impl EntrySink<BoxEntry> for RecSink {
    fn append(&self, entry: BoxEntry) {
        let mut w = IdWriter { id: None, tag: None };
        entry.write(&mut w);
        log(Ev::Recv { inst: self.inst, id: w.id.unwrap_or(u64::MAX), tag: w.tag.unwrap_or(u64::MAX) });
    }
    fn flush_async(&self) -> FlushWait {
        FlushWait::ready()
    }
}
struct RecHandle {
    inst: u64,
}
impl Drop for RecHandle {
    fn drop(&mut self) {
        log(Ev::Closed { inst: self.inst });
    }
}

// ------------------------------------------------------------------------------------------
// the real world: two lock-step threads, two runtimes, one process-global sink
// ------------------------------------------------------------------------------------------

thread_local! { static IN_OP: Cell<bool> = const { Cell::new(false) }; }

struct Shared {
    rts: [tokio::runtime::Runtime; 2],
    handles: Mutex<Vec<AttachHandle>>,
    rt_guards: [Mutex<Vec<TokioRuntimeTestSinkGuard>>; 2],
}

#[derive(Default)]
struct Local {
    tl_guards: Vec<ThreadLocalTestSinkGuard>,
}

#[derive(Clone, Copy)]
enum What {
    Op(Op),
    /// clean-up suffix pieces
    DropAllTl,
    DropAllRt,
    DropAllHandles,
}

#[derive(Clone, Copy)]
struct Req {
    what: What,
    ctx: u8,
    inst: u64,
    eid: u64,
}

#[derive(Default, Debug)]
struct Outcome {
    panicked: Option<String>,
    /// (id, tag) of the entry handed back by try_append
    returned: Option<(u64, u64)>,
}

fn lock<T>(m: &Mutex<T>) -> std::sync::MutexGuard<'_, T> {
    m.lock().unwrap_or_else(|e| e.into_inner())
}

/// environment of this child process: every drop of a handle / guard happens by the unwinding of
/// a caught panic of its owner
static UNWINDING: std::sync::atomic::AtomicBool = std::sync::atomic::AtomicBool::new(false);
struct ExpectedUnwind;
fn drop_it<T>(x: T) {
    if UNWINDING.load(Ordering::Relaxed) {
        let r = catch_unwind(AssertUnwindSafe(move || {
            let _owned = x;
            std::panic::panic_any(ExpectedUnwind);
        }));
        assert!(r.is_err());
    } else {
        drop(x);
    }
}

fn exec_local(req: &Req, local: &mut Local, sh: &Shared) -> Outcome {
    let eid = req.eid;
    let inst = req.inst;
    let mut body = || -> Option<(u64, u64)> {
        match req.what {
            What::Op(Op::Attach(_)) => {
                let h = VerifGlobal::attach((RecSink { inst }, RecHandle { inst }));
                lock(&sh.handles).push(h);
            }
            What::Op(Op::DropAttach) => {
                let h = lock(&sh.handles).pop();
                drop_it(h);
            }
            What::Op(Op::Forget) => {
                let h = lock(&sh.handles).pop();
                if let Some(h) = h {
                    h.forget();
                }
            }
            What::Op(Op::InstallTl(_)) => {
                let g = VerifGlobal::set_test_sink(BoxEntrySink::new(RecSink { inst }));
                local.tl_guards.push(g);
            }
            What::Op(Op::DropTl(_)) => drop_it(local.tl_guards.pop()),
            What::Op(Op::InstallRt(r)) => {
                let g = VerifGlobal::set_test_sink_for_tokio_runtime(sh.rts[r as usize].handle(), BoxEntrySink::new(RecSink { inst }));
                lock(&sh.rt_guards[r as usize]).push(g);
            }
            What::Op(Op::DropRt(r)) => {
                let g = lock(&sh.rt_guards[r as usize]).pop();
                drop_it(g);
            }
            What::Op(Op::Emit { kind, .. }) => {
                let e = VEntry { id: eid, tag: tag_of(eid) };
                match kind {
                    Kind::Append => VerifGlobal::append(e),
                    Kind::TryAppend => {
                        if let Err(back) = VerifGlobal::try_append(e) {
                            return Some((back.id, back.tag));
                        }
                    }
                    Kind::Sink => {
                        let s: BoxEntrySink = VerifGlobal::sink();
                        s.append(e);
                    }
                }
            }
            What::DropAllTl => {
                while let Some(g) = local.tl_guards.pop() {
                    drop(g);
                }
            }
            What::DropAllRt => {
                for r in 0..2 {
                    loop {
                        let g = lock(&sh.rt_guards[r]).pop();
                        if g.is_none() {
                            break;
                        }
                        drop(g);
                    }
                }
            }
            What::DropAllHandles => loop {
                let h = lock(&sh.handles).pop();
                if h.is_none() {
                    break;
                }
                drop(h);
            },
        }
        None
    };
    IN_OP.with(|c| c.set(true));
    let res = if req.ctx == 0 {
        catch_unwind(AssertUnwindSafe(&mut body))
    } else {
        sh.rts[req.ctx as usize - 1].block_on(async { catch_unwind(AssertUnwindSafe(&mut body)) })
    };
    IN_OP.with(|c| c.set(false));
    match res {
        Ok(returned) => Outcome { panicked: None, returned },
        Err(p) => {
            let msg = if let Some(s) = p.downcast_ref::<String>() {
                s.clone()
            } else if let Some(s) = p.downcast_ref::<&str>() {
                s.to_string()
            } else {
                "<non-string panic payload>".into()
            };
            Outcome { panicked: Some(msg), returned: None }
        }
    }
}

/// hand-off slot for thread T1: 0 idle, 1 request posted, 2 response posted, 3 quit
struct Slot {
    state: AtomicU32,
    req: Mutex<Option<Req>>,
    resp: Mutex<Option<Outcome>>,
}

/// Spin (the partner usually answers within a microsecond), then yield. Parking instead of
/// spinning was measured to be 8x slower (futex wake latency per hand-off).
fn wait_until(a: &AtomicU32, pred: impl Fn(u32) -> bool) -> u32 {
    let mut n = 0u32;
    loop {
        let v = a.load(Ordering::Acquire);
        if pred(v) {
            return v;
        }
        n = n.saturating_add(1);
        if n < 3000 {
            std::hint::spin_loop();
        } else {
            std::thread::yield_now();
        }
    }
}

// ------------------------------------------------------------------------------------------
// tracker: the model plus which recording-sink instance currently sits in which slot
// ------------------------------------------------------------------------------------------

#[derive(Clone, Copy, Debug, PartialEq, Eq)]
enum InstSt {
    Live,
    /// handed to an install/attach that the statement says must panic
    Rejected,
    /// its guard / handle was dropped
    Retired,
}

#[derive(Clone, Copy, Debug)]
struct Inst {
    id: u64,
    kind: DestKind,
    st: InstSt,
    closed: bool,
}

#[derive(Clone, Debug, Default)]
struct Tracker {
    m: Model,
    insts: Vec<Inst>,
    cur: [Option<u64>; 6],
    expected_panics: u32,
}

impl Tracker {
    fn find(&mut self, id: u64) -> Option<&mut Inst> {
        self.insts.iter_mut().find(|i| i.id == id)
    }
    fn kind_of(&self, id: u64) -> Option<Inst> {
        self.insts.iter().find(|i| i.id == id).copied()
    }
    fn retire(&mut self, k: DestKind) -> Option<u64> {
        let id = self.cur[k.idx()].take();
        if let Some(id) = id {
            if let Some(i) = self.find(id) {
                i.st = InstSt::Retired;
            }
        }
        id
    }
    /// applies `op` (statement semantics); returns the instance retired by it, if any
    fn apply(&mut self, op: Op, exp: Expect, new_inst: u64) -> Option<u64> {
        let slot = match op {
            Op::Attach(x) => Some(if x == 0 { DestKind::A } else { DestKind::B }),
            Op::InstallTl(t) => Some(if t == 0 { DestKind::Tl0 } else { DestKind::Tl1 }),
            Op::InstallRt(r) => Some(if r == 0 { DestKind::Rt0 } else { DestKind::Rt1 }),
            _ => None,
        };
        let mut retired = None;
        if let Some(kind) = slot {
            let st = if exp == Expect::Panic { InstSt::Rejected } else { InstSt::Live };
            self.insts.push(Inst { id: new_inst, kind, st, closed: false });
            if st == InstSt::Live {
                self.cur[kind.idx()] = Some(new_inst);
            }
        } else {
            match op {
                Op::DropAttach => {
                    let k = if self.m.attached == Some(0) { DestKind::A } else { DestKind::B };
                    retired = self.retire(k);
                }
                Op::DropTl(t) => retired = self.retire(if t == 0 { DestKind::Tl0 } else { DestKind::Tl1 }),
                Op::DropRt(r) => retired = self.retire(if r == 0 { DestKind::Rt0 } else { DestKind::Rt1 }),
                _ => {}
            }
        }
        if exp == Expect::Panic {
            self.expected_panics += 1;
        }
        self.m.apply(op);
        retired
    }
    /// model after the clean-up suffix (every guard and every held handle dropped)
    fn after_cleanup(&mut self) -> Vec<u64> {
        let mut closed = vec![];
        for k in [DestKind::Tl0, DestKind::Tl1, DestKind::Rt0, DestKind::Rt1] {
            self.retire(k);
        }
        self.m.tl = [false; 2];
        self.m.rt = [false; 2];
        if self.m.handle {
            let k = if self.m.attached == Some(0) { DestKind::A } else { DestKind::B };
            closed.extend(self.retire(k));
            self.m.attached = None;
            self.m.handle = false;
        }
        closed
    }
}

// ------------------------------------------------------------------------------------------
// child process: executes histories and compares with the model after EVERY operation
// ------------------------------------------------------------------------------------------

const OUTCOME_NAMES: [&str; 13] = [
    "delivered:attached-A",
    "delivered:attached-B",
    "delivered:thread-sink-T0",
    "delivered:thread-sink-T1",
    "delivered:runtime-sink-R0",
    "delivered:runtime-sink-R1",
    "try_append-returned-entry",
    "panic:append-or-sink-with-no-destination",
    "panic:attach-while-attached",
    "panic:second-thread-sink",
    "panic:second-runtime-sink",
    "operation-after-an-earlier-panic-behaved-per-model",
    "detach-closed-the-sink",
];

struct Child {
    sh: Arc<Shared>,
    local0: Local,
    slot: Arc<Slot>,
    next_inst: u64,
    next_eid: u64,
    evbuf: Vec<Ev>,
    real_tl: [usize; 2],
    // results
    histories: u64,
    transitions: u64,
    cleanup_ops: u64,
    restore_checks: u64,
    states: [bool; 128],
    outcomes: [u64; 13],
    v: Violations,
    aborted: bool,
    mode: String,
    /// operations executed once at process start (after-forget mode), for replay files
    prologue: Vec<String>,
}

impl Child {
    fn new(mode: &str) -> Child {
        std::panic::set_hook(Box::new(|info| {
            if !IN_OP.with(|c| c.get()) {
                eprintln!("c17 harness panic (not inside a checked operation): {info}");
            }
        }));
        let mk = || tokio::runtime::Builder::new_current_thread().build().expect("runtime");
        let sh = Arc::new(Shared { rts: [mk(), mk()], handles: Mutex::new(vec![]), rt_guards: [Mutex::new(vec![]), Mutex::new(vec![])] });
        let slot = Arc::new(Slot { state: AtomicU32::new(0), req: Mutex::new(None), resp: Mutex::new(None) });
        {
            let (sh, slot) = (sh.clone(), slot.clone());
            std::thread::Builder::new()
                .name("c17-T1".into())
                .spawn(move || {
                    let mut local = Local::default();
                    loop {
                        if wait_until(&slot.state, |v| v == 1 || v == 3) == 3 {
                            break;
                        }
                        let req = lock(&slot.req).take().expect("request");
                        let out = exec_local(&req, &mut local, &sh);
                        *lock(&slot.resp) = Some(out);
                        slot.state.store(2, Ordering::Release);
                    }
                })
                .expect("spawn T1");
        }
        Child {
            sh,
            local0: Local::default(),
            slot,
            next_inst: 1,
            next_eid: 1,
            evbuf: vec![],
            real_tl: [0; 2],
            histories: 0,
            transitions: 0,
            cleanup_ops: 0,
            restore_checks: 0,
            states: [false; 128],
            outcomes: [0; 13],
            v: Violations::default(),
            aborted: false,
            mode: mode.to_string(),
            prologue: vec![],
        }
    }

    fn run_on(&mut self, t: u8, req: Req) -> Outcome {
        if t == 0 {
            exec_local(&req, &mut self.local0, &self.sh)
        } else {
            *lock(&self.slot.req) = Some(req);
            self.slot.state.store(1, Ordering::Release);
            wait_until(&self.slot.state, |v| v == 2);
            let out = lock(&self.slot.resp).take().expect("response");
            self.slot.state.store(0, Ordering::Release);
            out
        }
    }

    fn drain(&mut self) {
        self.evbuf.clear();
        let mut l = lock(&LOG);
        self.evbuf.append(&mut l);
    }

    /// keeps the shortest history per key; later cases of a known key are only counted
    fn add_violation(&mut self, key: String, hist: &[Op], at: Option<usize>, expected: &str, observed: &str) {
        if let Some(v) = self.v.by_key.get_mut(&key) {
            let best = v.replay["history"].as_array().map(|a| a.len()).unwrap_or(usize::MAX);
            if hist.len() >= best {
                v.count += 1;
                return;
            }
        }
        let what = match at {
            Some(i) => format!("history [{}], step {i} ({}): statement predicts {expected}; observed: {observed}", hist_tokens(hist).join(", "), hist[i].token()),
            None => format!("history [{}], clean-up suffix: expected {expected}; observed: {observed}", hist_tokens(hist).join(", ")),
        };
        let rj = self.replay_json(hist, at, expected, observed);
        let prev = self.v.by_key.remove(&key).map(|v| v.count).unwrap_or(0);
        self.v.add(key.clone(), what, rj);
        if let Some(v) = self.v.by_key.get_mut(&key) {
            v.count += prev;
        }
    }

    fn replay_json(&self, hist: &[Op], at: Option<usize>, expected: &str, observed: &str) -> J {
        json!({
            "mode": self.mode,
            "prologue": self.prologue,
            "history": hist_tokens(hist),
            "failed_at_step": at.map(|i| json!(i)).unwrap_or(json!("clean-up suffix")),
            "operation": at.map(|i| hist[i].token()),
            "expected": expected,
            "observed": observed,
        })
    }

    /// compares one executed operation with the statement; Some((key, expected, observed)) on
    /// the first disagreement
    fn compare(&mut self, tr: &mut Tracker, op: Op, exp: Expect, pre_panics: u32, out: &Outcome, eid: u64, new_inst: u64, retired: Option<u64>) -> Option<(String, String, String)> {
        let cls = op.class();
        let poisoned = out.panicked.as_deref().map(|m| m.contains("Poison")).unwrap_or(false);
        // 1. events, in order
        let mut mine: Vec<(u64, u64)> = Vec::new(); // (inst, tag) for this operation's entry
        let mut saw_retired_close = false;
        for k in 0..self.evbuf.len() {
            match self.evbuf[k] {
                Ev::Recv { inst, id, tag } => {
                    let info = tr.kind_of(inst);
                    if info.map(|i| i.closed).unwrap_or(false) {
                        return Some(("entry-after-close".into(), "no entry reaches a sink after its close/flush".into(), format!("{} received entry {id} after its handle part was dropped", info.unwrap().kind.name())));
                    }
                    if !op.is_observer() || id != eid {
                        return Some((format!("spurious-delivery:{cls}"), "no entry moves".into(), format!("entry {id} was delivered to {}", info.map(|i| i.kind.name()).unwrap_or("an unknown sink"))));
                    }
                    mine.push((inst, tag));
                }
                Ev::Closed { inst } => {
                    let info = tr.kind_of(inst);
                    if let Some(i) = tr.find(inst) {
                        i.closed = true;
                    }
                    let ok = match info {
                        Some(i) if i.st == InstSt::Rejected => inst == new_inst, // tuple of a refused attach is dropped by the unwind
                        Some(_) if Some(inst) == retired && op == Op::DropAttach => {
                            saw_retired_close = true;
                            true
                        }
                        _ => false,
                    };
                    if !ok {
                        let key = if out.panicked.is_some() || exp == Expect::Panic { format!("global-damaged-after-panic:{cls}-closed-attached-sink") } else { format!("sink-closed-unexpectedly:{cls}") };
                        return Some((key, "the attached sink stays attached and open".into(), format!("{} was closed (its handle part dropped) by {}", info.map(|i| i.kind.name()).unwrap_or("an unknown sink"), op.token())));
                    }
                }
            }
        }
        // 2. panic / no panic
        let exp_s = match exp {
            Expect::Deliver(d) => format!("entry delivered to {} only", d.name()),
            Expect::Return => "try_append returns Err(entry) with the entry unchanged".to_string(),
            Expect::Panic => "documented panic, global unchanged".to_string(),
            Expect::Quiet => "no panic".to_string(),
        };
        if let Some(msg) = &out.panicked {
            if exp != Expect::Panic {
                let key = if poisoned { format!("global-damaged-after-panic:{cls}") } else { format!("unexpected-panic:{cls}") };
                return Some((key, exp_s, format!("panicked: {msg}")));
            }
            if !mine.is_empty() {
                let k = tr.kind_of(mine[0].0).map(|i| i.kind.name()).unwrap_or("unknown");
                return Some((format!("routed-to-wrong-destination:none->{k}"), exp_s, format!("panicked but the entry was delivered to {k}")));
            }
        } else if exp == Expect::Panic {
            if let Some(&(inst, _)) = mine.first() {
                let k = tr.kind_of(inst).map(|i| i.kind.name()).unwrap_or("unknown");
                return Some((format!("routed-to-wrong-destination:none->{k}"), exp_s, format!("no panic; the entry was delivered to {k}")));
            }
            return Some((format!("missing-panic:{cls}"), exp_s, "returned normally".into()));
        }
        // 3. where did the entry go
        match exp {
            Expect::Deliver(d) => {
                let want = tr.cur[d.idx()];
                if let Some((id, tag)) = out.returned {
                    return Some((format!("try_append-returned-entry-despite:{}", d.name()), exp_s, format!("Err(entry id {id} tag {tag:#x}) although {} is installed", d.name())));
                }
                if mine.is_empty() {
                    return Some(("entry-lost".into(), exp_s, "the operation returned normally but no sink received the entry".into()));
                }
                if mine.len() > 1 {
                    let names: Vec<_> = mine.iter().map(|(i, _)| tr.kind_of(*i).map(|x| x.kind.name()).unwrap_or("unknown")).collect();
                    return Some(("entry-duplicated".into(), exp_s, format!("the entry was received {} times: {names:?}", mine.len())));
                }
                let (inst, tag) = mine[0];
                if Some(inst) != want {
                    let got = tr.kind_of(inst);
                    let key = match got {
                        Some(g) if g.st == InstSt::Retired => format!("not-restored-after-drop:{}", g.kind.guard_class()),
                        Some(g) if g.st == InstSt::Rejected => format!("routed-to-rejected-sink:{}", g.kind.guard_class()),
                        Some(g) => format!("routed-to-wrong-destination:{}->{}", d.name(), g.kind.name()),
                        None => format!("routed-to-wrong-destination:{}->unknown", d.name()),
                    };
                    let obs = match got {
                        Some(g) => format!("delivered to {} (instance state {:?})", g.kind.name(), g.st),
                        None => "delivered to a sink of an earlier history".to_string(),
                    };
                    return Some((key, exp_s, obs));
                }
                if tag != tag_of(eid) {
                    return Some(("entry-altered".into(), exp_s, format!("entry {eid} arrived with tag {tag:#x}")));
                }
                self.outcomes[d.idx()] += 1;
            }
            Expect::Return => {
                if let Some(&(inst, _)) = mine.first() {
                    let got = tr.kind_of(inst);
                    let key = match got {
                        Some(g) if g.st == InstSt::Retired => format!("not-restored-after-drop:{}", g.kind.guard_class()),
                        Some(g) if g.st == InstSt::Rejected => format!("routed-to-rejected-sink:{}", g.kind.guard_class()),
                        Some(g) => format!("routed-to-wrong-destination:none->{}", g.kind.name()),
                        None => "routed-to-wrong-destination:none->unknown".to_string(),
                    };
                    return Some((key, exp_s, format!("delivered to {}", got.map(|g| g.kind.name()).unwrap_or("a sink of an earlier history"))));
                }
                match out.returned {
                    None => return Some(("try_append-did-not-return-entry".into(), exp_s, "Ok(()) although nothing is installed or attached; the entry is gone".into())),
                    Some((id, tag)) if id != eid || tag != tag_of(eid) => {
                        return Some(("try_append-returned-different-entry".into(), exp_s, format!("Err(entry id {id} tag {tag:#x}), appended id {eid} tag {:#x}", tag_of(eid))));
                    }
                    Some(_) => self.outcomes[6] += 1,
                }
            }
            Expect::Panic => {
                self.outcomes[match op {
                    Op::Attach(_) => 8,
                    Op::InstallTl(_) => 9,
                    Op::InstallRt(_) => 10,
                    _ => 7,
                }] += 1;
            }
            Expect::Quiet => {
                if op == Op::DropAttach {
                    if !saw_retired_close {
                        return Some(("detach-did-not-close-sink".into(), "dropping the attach handle drops the handle part of the attached tuple (flush-and-close)".into(), "the handle part was not dropped".into()));
                    }
                    self.outcomes[12] += 1;
                }
            }
        }
        if pre_panics > 0 {
            self.outcomes[11] += 1;
        }
        None
    }

    /// Executes one history from `start` (the tracker of a clean process state), checks every
    /// step, runs the clean-up suffix and the back-to-base check. Returns the tracker after
    /// clean-up.
    fn run_history(&mut self, hist: &[Op], start: &Tracker, mut trace: Option<&mut Vec<J>>) -> Tracker {
        lock(&LOG).clear();
        let mut tr = start.clone();
        self.histories += 1;
        self.states[tr.m.code()] = true;
        for (i, &op) in hist.iter().enumerate() {
            let inst = self.next_inst;
            self.next_inst += 1;
            let eid = self.next_eid;
            self.next_eid += 1;
            let exp = tr.m.expect(op);
            let pre_panics = tr.expected_panics;
            let (t, ctx) = op.place();
            let out = self.run_on(t, Req { what: What::Op(op), ctx, inst, eid });
            self.transitions += 1;
            if out.panicked.is_none() {
                match op {
                    Op::InstallTl(t) => self.real_tl[t as usize] += 1,
                    Op::DropTl(t) => self.real_tl[t as usize] = self.real_tl[t as usize].saturating_sub(1),
                    _ => {}
                }
            }
            self.drain();
            let retired = tr.apply(op, exp, inst);
            self.states[tr.m.code()] = true;
            let bad = self.compare(&mut tr, op, exp, pre_panics, &out, eid, inst, retired);
            if let Some(tv) = trace.as_deref_mut() {
                tv.push(json!({"op": op.token(), "on": format!("T{t}{}", if ctx > 0 { format!(" inside R{}", ctx - 1) } else { String::new() }),
                    "statement": format!("{exp:?}"), "panicked": out.panicked.is_some(), "returned_entry": out.returned.is_some(),
                    "received_by": self.evbuf.iter().filter_map(|e| match e { Ev::Recv { inst, .. } => tr.kind_of(*inst).map(|i| i.kind.name()), _ => None }).collect::<Vec<_>>(),
                    "model_after": Model::describe(tr.m.code())}));
            }
            if let Some((key, expected, observed)) = bad {
                self.add_violation(key, hist, Some(i), &expected, &observed);
                break; // the real global has left the model; go straight to the clean-up
            }
        }
        self.cleanup(hist, &mut tr);
        tr
    }

    fn cleanup(&mut self, hist: &[Op], tr: &mut Tracker) {
        let mut problems: Vec<(String, String, String)> = vec![];
        let mut steps: Vec<(u8, What)> = vec![];
        for t in 0..2u8 {
            if self.real_tl[t as usize] > 0 {
                steps.push((t, What::DropAllTl));
            }
        }
        if lock(&self.sh.rt_guards[0]).len() + lock(&self.sh.rt_guards[1]).len() > 0 {
            steps.push((0, What::DropAllRt));
        }
        if !lock(&self.sh.handles).is_empty() {
            steps.push((0, What::DropAllHandles));
        }
        self.real_tl = [0; 2];
        let must_close = tr.after_cleanup();
        for (t, what) in steps {
            let out = self.run_on(t, Req { what, ctx: 0, inst: 0, eid: 0 });
            self.cleanup_ops += 1;
            if let Some(msg) = out.panicked {
                let key = if msg.contains("Poison") { "global-damaged-after-panic:clean-up" } else { "unexpected-panic:clean-up" };
                problems.push((key.into(), "dropping guards / handles does not panic".into(), format!("panicked: {msg}")));
            }
        }
        self.drain();
        for k in 0..self.evbuf.len() {
            match self.evbuf[k] {
                Ev::Recv { inst, id, .. } => problems.push(("spurious-delivery:clean-up".into(), "no entry moves".into(), format!("entry {id} delivered to instance {inst} while dropping guards"))),
                Ev::Closed { inst } => {
                    if let Some(i) = tr.find(inst) {
                        i.closed = true;
                    }
                }
            }
        }
        for inst in must_close {
            if !tr.kind_of(inst).map(|i| i.closed).unwrap_or(true) {
                problems.push(("detach-did-not-close-sink".into(), "dropping the attach handle drops the handle part of the attached tuple".into(), "the handle part was not dropped by the clean-up".into()));
            }
        }
        // back-to-base check: with every guard gone, (T0 in R0) and (T1 in R1) together see every
        // override slot and the attached slot
        let mut leaked = false;
        for (t, ctx) in [(0u8, 1u8), (1, 2)] {
            let eid = self.next_eid;
            self.next_eid += 1;
            let op = Op::Emit { kind: Kind::TryAppend, t, ctx };
            let exp = tr.m.expect(op);
            let out = self.run_on(t, Req { what: What::Op(op), ctx, inst: 0, eid });
            self.restore_checks += 1;
            self.drain();
            if let Some((key, e, o)) = self.compare(tr, op, exp, 0, &out, eid, 0, None) {
                leaked = true;
                // an entry that still reaches a sink of this history after everything was dropped
                let key = if key.starts_with("routed-to-wrong-destination:none->") {
                    let got = self.evbuf.iter().find_map(|e| match e {
                        Ev::Recv { inst, .. } => tr.kind_of(*inst),
                        _ => None,
                    });
                    format!("not-restored-after-drop:{}", got.map(|g| g.kind.guard_class()).unwrap_or("unknown"))
                } else {
                    key
                };
                problems.push((key, format!("after the clean-up suffix: {e}"), o));
            }
        }
        for (key, e, o) in problems {
            self.add_violation(key, hist, None, &e, &o);
        }
        if leaked {
            // the process-global no longer matches the model's base state: later histories in
            // this process would be judged against the wrong start state
            self.aborted = true;
        }
    }

    fn finish(self, extra: J) -> ! {
        let viol: Vec<J> = self.v.by_key.values().map(|v| json!({"key": v.key, "what": v.what, "replay": v.replay, "count": v.count})).collect();
        let states: Vec<usize> = (0..128).filter(|i| self.states[*i]).collect();
        let out = json!({
            "histories": self.histories, "transitions": self.transitions, "cleanup_ops": self.cleanup_ops,
            "restore_checks": self.restore_checks, "states": states, "outcomes": self.outcomes.to_vec(),
            "violations": viol, "aborted": self.aborted, "extra": extra,
        });
        self.slot.state.store(3, Ordering::Release);
        println!("{out}");
        std::process::exit(0)
    }
}

/// A test sink whose destructor tells the harness that it runs and then waits for a gate: while
/// it waits, whatever lock the implementation holds around the removal of the sink stays held.
struct GateSink {
    inst: u64,
    entered: std::sync::mpsc::Sender<()>,
    gate: Mutex<std::sync::mpsc::Receiver<()>>,
}
impl EntrySink<BoxEntry> for GateSink {
    fn append(&self, entry: BoxEntry) {
        RecSink { inst: self.inst }.append(entry)
    }
    fn flush_async(&self) -> FlushWait {
        FlushWait::ready()
    }
}
impl Drop for GateSink {
    fn drop(&mut self) {
        let _ = self.entered.send(());
        let _ = lock(&self.gate).recv_timeout(std::time::Duration::from_secs(10));
    }
}

/// One fixed history with real concurrency: the guards of two runtimes' test sinks are dropped
/// at the same time on two threads, the first removed sink still being destroyed (gated) when
/// the second drop begins. Both guards must take effect. Sound without a controlled scheduler:
/// the first thread is known to be inside the removal when the second drop starts; how long the
/// second drop then has to wait (50 ms gate) does not matter for the outcome on a correct tree.
fn contended_runtime_guard_drops() -> ! {
    let mk = || tokio::runtime::Builder::new_current_thread().build().expect("runtime");
    let (rt0, rt1) = (mk(), mk());
    let mut v = Violations::default();
    let attached = VerifGlobal::attach((RecSink { inst: 3 }, RecHandle { inst: 3 }));
    let (entered_tx, entered_rx) = std::sync::mpsc::channel();
    let (gate_tx, gate_rx) = std::sync::mpsc::channel();
    let g0 = VerifGlobal::set_test_sink_for_tokio_runtime(rt0.handle(), BoxEntrySink::new(GateSink { inst: 1, entered: entered_tx, gate: Mutex::new(gate_rx) }));
    let g1 = VerifGlobal::set_test_sink_for_tokio_runtime(rt1.handle(), BoxEntrySink::new(RecSink { inst: 2 }));
    let t = std::thread::spawn(move || drop(g0));
    entered_rx.recv_timeout(std::time::Duration::from_secs(10)).expect("the removed sink is destroyed inside the guard's drop");
    let opener = std::thread::spawn(move || {
        std::thread::sleep(std::time::Duration::from_millis(50));
        let _ = gate_tx.send(());
    });
    drop(g1);
    t.join().unwrap();
    opener.join().unwrap();
    // both guards are gone: an entry appended inside either runtime goes to the attached sink
    for (r, rt) in [(0u64, &rt0), (1, &rt1)] {
        let id = 100 + r;
        let before = lock(&LOG).len();
        let back = rt.block_on(async { VerifGlobal::try_append(VEntry { id, tag: tag_of(id) }).err().map(|e| e.id) });
        let got: Vec<u64> = lock(&LOG)[before..].iter().filter_map(|e| if let Ev::Recv { inst, id: i, .. } = e { (*i == id).then_some(*inst) } else { None }).collect();
        if back.is_some() || got != vec![3] {
            v.add(
                "not-restored-after-drop:runtime-guards-dropped-concurrently",
                format!("the test sink guards of R0 and R1 were dropped concurrently (R0's removed sink still being destroyed when R1's drop began); afterwards an entry appended inside R{r} was delivered to instance(s) {got:?} (handed back: {}), expected the attached sink (3) only", back.is_some()),
                json!({"history": ["attach", "rt-install:R0 (sink with a gated destructor)", "rt-install:R1", "T1: rt-drop:R0 (destructor waits)", "T0: rt-drop:R1 (concurrently)", "gate opens", format!("try_append inside R{r}")], "delivered_to": got}),
            );
        }
        // and a new test sink can be installed for that runtime
        let again = catch_unwind(AssertUnwindSafe(|| VerifGlobal::set_test_sink_for_tokio_runtime(rt.handle(), BoxEntrySink::new(RecSink { inst: 9 }))));
        if again.is_err() {
            v.add("not-restored-after-drop:runtime-guards-dropped-concurrently", format!("after both guards were dropped, installing a test sink for R{r} panics"), json!({"runtime": r}));
        }
        drop(again);
    }
    drop(attached);
    let viol: Vec<J> = v.by_key.values().map(|v| json!({"key": v.key, "what": v.what, "replay": v.replay, "count": v.count})).collect();
    println!("{}", json!({"histories": 1, "transitions": 7, "cleanup_ops": 0, "restore_checks": 2, "states": [], "outcomes": vec![0u64; 13], "violations": viol, "aborted": false, "extra": {}}));
    std::process::exit(0)
}

/// An `EntryIoStream` that logs what it is handed as instance 7 and its own drop as the close.
struct RecIoStream;
impl metrique_writer::EntryIoStream for RecIoStream {
    fn next(&mut self, entry: &impl Entry) -> Result<(), metrique_writer::IoStreamError> {
        let mut w = IdWriter { id: None, tag: None };
        entry.write(&mut w);
        log(Ev::Recv { inst: 7, id: w.id.unwrap_or(u64::MAX), tag: w.tag.unwrap_or(u64::MAX) });
        Ok(())
    }
    fn flush(&mut self) -> std::io::Result<()> {
        Ok(())
    }
}
impl Drop for RecIoStream {
    fn drop(&mut self) {
        log(Ev::Closed { inst: 7 });
    }
}

/// `attach_to_stream` (the extension that puts a background queue in front of a stream) with
/// nothing attached, called under each kind of test override: it must attach whatever override
/// is active; once the override is gone, entries go to the stream and have reached it when the
/// attach handle has been dropped.
fn attach_to_stream_under_overrides() -> ! {
    use metrique_writer::sink::AttachGlobalEntrySinkExt;
    let rt = tokio::runtime::Builder::new_current_thread().build().expect("runtime");
    let mut v = Violations::default();
    for (ci, ctx) in ["no override", "thread-local test sink", "runtime test sink (call made inside the runtime)"].iter().enumerate() {
        let tl = (ci == 1).then(|| VerifGlobal::set_test_sink(BoxEntrySink::new(RecSink { inst: 1 })));
        let rg = (ci == 2).then(|| VerifGlobal::set_test_sink_for_tokio_runtime(rt.handle(), BoxEntrySink::new(RecSink { inst: 2 })));
        let attach = || catch_unwind(AssertUnwindSafe(|| VerifGlobal::attach_to_stream(RecIoStream)));
        let handle = if ci == 2 { rt.block_on(async { attach() }) } else { attach() };
        drop(tl);
        drop(rg);
        let replay = |extra: J| json!({"history": [format!("install: {ctx}"), "attach_to_stream(recording stream)", "drop the override guard", "try_append", "drop the attach handle"], "detail": extra});
        match handle {
            Err(_) => v.add("attach-to-stream-refused-under-test-override", format!("with nothing attached, attach_to_stream panicked under: {ctx}"), replay(json!(null))),
            Ok(h) => {
                let id = 200 + ci as u64;
                let back = VerifGlobal::try_append(VEntry { id, tag: tag_of(id) }).err().map(|e| e.id);
                drop(h); // flushes and closes the background queue in front of the stream
                let l = lock(&LOG);
                let got: Vec<u64> = l.iter().filter_map(|e| if let Ev::Recv { inst, id: i, .. } = e { (*i == id).then_some(*inst) } else { None }).collect();
                let closed = l.iter().any(|e| matches!(e, Ev::Closed { inst: 7 }));
                if back.is_some() || got != vec![7] || !closed {
                    v.add("attach-to-stream:entry-not-delivered-to-the-stream", format!("after attach_to_stream under `{ctx}` and dropping the override, an appended entry was delivered to {got:?} (handed back: {}, stream closed by the handle's drop: {closed})", back.is_some()), replay(json!({"delivered_to": got})));
                }
                drop(l);
                lock(&LOG).retain(|e| !matches!(e, Ev::Closed { inst: 7 }));
            }
        }
    }
    let viol: Vec<J> = v.by_key.values().map(|v| json!({"key": v.key, "what": v.what, "replay": v.replay, "count": v.count})).collect();
    println!("{}", json!({"histories": 3, "transitions": 15, "cleanup_ops": 0, "restore_checks": 3, "states": [], "outcomes": vec![0u64; 13], "violations": viol, "aborted": false, "extra": {}}));
    std::process::exit(0)
}

/// Two globals alive in one process: every combination of (state of A) x (state of B) over
/// {nothing, attached sink, thread-local test sink, runtime test sink of the one runtime}; inside
/// that runtime one entry is appended through each global. Each global routes by its OWN state
/// only (instances 1-3 belong to A, 11-13 to B), and installing a test sink for B never fails
/// because A has one.
fn two_globals() -> ! {
    let rt = tokio::runtime::Builder::new_current_thread().build().expect("runtime");
    let mut v = Violations::default();
    let names = ["nothing", "attached sink", "thread-local test sink", "runtime test sink"];
    let expected = |state: usize, base: u64| -> Option<u64> { [None, Some(base + 3), Some(base + 1), Some(base + 2)][state] };
    let (mut histories, mut transitions, mut restore) = (0u64, 0u64, 0u64);
    for a_state in 0..4usize {
        for b_state in 0..4usize {
            for b_first in [false, true] {
                histories += 1;
                let replay = json!({"history": [format!("A: {}", names[a_state]), format!("B: {}", names[b_state]), format!("installed {} first", if b_first { "B" } else { "A" }), "inside the runtime: A.try_append, B.try_append", "drop everything", "A.try_append, B.try_append"]});
                let install_a = || {
                    catch_unwind(AssertUnwindSafe(|| {
                        (
                            (a_state == 1).then(|| VerifGlobal::attach((RecSink { inst: 3 }, RecHandle { inst: 3 }))),
                            (a_state == 2).then(|| VerifGlobal::set_test_sink(BoxEntrySink::new(RecSink { inst: 1 }))),
                            (a_state == 3).then(|| VerifGlobal::set_test_sink_for_tokio_runtime(rt.handle(), BoxEntrySink::new(RecSink { inst: 2 }))),
                        )
                    }))
                };
                let install_b = || {
                    catch_unwind(AssertUnwindSafe(|| {
                        (
                            (b_state == 1).then(|| VerifGlobalB::attach((RecSink { inst: 13 }, RecHandle { inst: 13 }))),
                            (b_state == 2).then(|| VerifGlobalB::set_test_sink(BoxEntrySink::new(RecSink { inst: 11 }))),
                            (b_state == 3).then(|| VerifGlobalB::set_test_sink_for_tokio_runtime(rt.handle(), BoxEntrySink::new(RecSink { inst: 12 }))),
                        )
                    }))
                };
                let (ga, gb);
                if b_first {
                    gb = install_b();
                    ga = install_a();
                } else {
                    ga = install_a();
                    gb = install_b();
                }
                transitions += 2;
                if ga.is_err() || gb.is_err() {
                    v.add("two-globals:install-refused-because-of-the-other-global", format!("A: {}, B: {} ({} first): installing panicked for {}", names[a_state], names[b_state], if b_first { "B" } else { "A" }, if ga.is_err() { "A" } else { "B" }), replay.clone());
                }
                let mut probe = |phase: &str, a_exp: Option<u64>, b_exp: Option<u64>, v: &mut Violations| {
                    for (which, exp) in [("A", a_exp), ("B", b_exp)] {
                        let id = 300 + histories * 4 + if which == "A" { 0 } else { 1 } + if phase == "after" { 2 } else { 0 };
                        let before = lock(&LOG).len();
                        let back = rt.block_on(async {
                            if which == "A" {
                                VerifGlobal::try_append(VEntry { id, tag: tag_of(id) }).err().map(|e| e.id)
                            } else {
                                VerifGlobalB::try_append(VEntry { id, tag: tag_of(id) }).err().map(|e| e.id)
                            }
                        });
                        let got: Vec<u64> = lock(&LOG)[before..].iter().filter_map(|e| if let Ev::Recv { inst, id: i, .. } = e { (*i == id).then_some(*inst) } else { None }).collect();
                        let ok = match exp {
                            None => back == Some(id) && got.is_empty(),
                            Some(inst) => back.is_none() && got == vec![inst],
                        };
                        if !ok {
                            v.add(
                                format!("two-globals:{}-routed-by-the-other-globals-state", if phase == "after" { "after-cleanup" } else { "entry" }),
                                format!("A: {}, B: {} ({phase}): an entry appended through global {which} inside the runtime was delivered to instance(s) {got:?} (handed back: {}), expected {}", names[a_state], names[b_state], back.is_some(), match exp { None => "to be handed back".to_string(), Some(i) => format!("instance {i} only") }),
                                replay.clone(),
                            );
                        }
                    }
                };
                probe("during", if ga.is_ok() { expected(a_state, 0) } else { None }, if gb.is_ok() { expected(b_state, 10) } else { None }, &mut v);
                transitions += 2;
                drop(ga);
                drop(gb);
                probe("after", None, None, &mut v);
                restore += 2;
            }
        }
    }
    let viol: Vec<J> = v.by_key.values().map(|v| json!({"key": v.key, "what": v.what, "replay": v.replay, "count": v.count})).collect();
    println!("{}", json!({"histories": histories, "transitions": transitions, "cleanup_ops": 0, "restore_checks": restore, "states": [], "outcomes": vec![0u64; 13], "violations": viol, "aborted": false, "extra": {}}));
    std::process::exit(0)
}

/// A destination that misbehaves: a sink whose `append` panics for one entry (a test sink that
/// asserts on what it is handed). The caller catches the panic. The global must be undamaged:
/// the next entry is delivered to the same sink, the guard can be dropped, routing falls back,
/// and the same kind of override can be installed again. One history per kind of destination
/// (attached sink, thread-local test sink, runtime test sink), probes made inside the runtime.
struct PanicOn666 {
    inst: u64,
}
struct ExpectedSinkPanic;
impl EntrySink<BoxEntry> for PanicOn666 {
    fn append(&self, entry: BoxEntry) {
        let mut w = IdWriter { id: None, tag: None };
        entry.write(&mut w);
        if w.id == Some(666) {
            std::panic::panic_any(ExpectedSinkPanic);
        }
        log(Ev::Recv { inst: self.inst, id: w.id.unwrap_or(u64::MAX), tag: w.tag.unwrap_or(u64::MAX) });
    }
    fn flush_async(&self) -> FlushWait {
        FlushWait::ready()
    }
}
fn panicking_destinations() -> ! {
    let rt = tokio::runtime::Builder::new_current_thread().build().expect("runtime");
    let mut v = Violations::default();
    let names = ["attached sink", "thread-local test sink", "runtime test sink"];
    let mut transitions = 0u64;
    for kind in 0..3usize {
        let history = |upto: &str| json!({"history": [format!("install a {} whose append panics for entry 666", names[kind]), "try_append(666) - the sink panics, caught", "try_append(667)", "drop the guard / handle", "try_append(668)", "install the same kind again"], "failed_at": upto});
        let install = |inst: u64| {
            catch_unwind(AssertUnwindSafe(|| {
                (
                    (kind == 0).then(|| VerifGlobal::attach((PanicOn666 { inst }, RecHandle { inst }))),
                    (kind == 1).then(|| VerifGlobal::set_test_sink(BoxEntrySink::new(PanicOn666 { inst }))),
                    (kind == 2).then(|| VerifGlobal::set_test_sink_for_tokio_runtime(rt.handle(), BoxEntrySink::new(PanicOn666 { inst }))),
                )
            }))
        };
        let append = |id: u64| -> Result<(Option<u64>, Vec<u64>), ()> {
            let before = lock(&LOG).len();
            let r = catch_unwind(AssertUnwindSafe(|| rt.block_on(async { VerifGlobal::try_append(VEntry { id, tag: tag_of(id) }).err().map(|e| e.id) })));
            let got: Vec<u64> = lock(&LOG)[before..].iter().filter_map(|e| if let Ev::Recv { inst, id: i, .. } = e { (*i == id).then_some(*inst) } else { None }).collect();
            r.map(|back| (back, got)).map_err(|_| ())
        };
        let inst = 21 + kind as u64;
        let g = match install(inst) {
            Ok(g) => g,
            Err(_) => {
                v.add("misbehaving-destination:install-panicked", format!("installing a {} panicked", names[kind]), history("install"));
                continue;
            }
        };
        transitions += 5;
        if append(666).is_ok() {
            v.add("misbehaving-destination:panic-not-propagated", format!("{}: the sink's panic for entry 666 did not reach the caller", names[kind]), history("try_append(666)"));
        }
        match append(667) {
            Ok((None, got)) if got == vec![inst] => {}
            other => v.add("misbehaving-destination:global-damaged-after-a-sink-panic", format!("{}: after the sink panicked for one entry (caught), the next entry was {} instead of being delivered to that sink", names[kind], match other { Err(()) => "answered with a panic".to_string(), Ok((back, got)) => format!("delivered to {got:?} (handed back: {})", back.is_some()) }), history("try_append(667)")),
        }
        if catch_unwind(AssertUnwindSafe(move || drop(g))).is_err() {
            v.add("misbehaving-destination:global-damaged-after-a-sink-panic", format!("{}: dropping the guard / handle after the sink had panicked panics", names[kind]), history("drop"));
        }
        match append(668) {
            Ok((Some(668), got)) if got.is_empty() => {}
            other => v.add("misbehaving-destination:global-damaged-after-a-sink-panic", format!("{}: after the guard was dropped an entry was {} instead of being handed back", names[kind], match other { Err(()) => "answered with a panic".to_string(), Ok((back, got)) => format!("delivered to {got:?} (handed back: {})", back.is_some()) }), history("try_append(668)")),
        }
        match install(31 + kind as u64) {
            Ok(g2) => {
                let _ = catch_unwind(AssertUnwindSafe(move || drop(g2)));
            }
            Err(_) => v.add("misbehaving-destination:global-damaged-after-a-sink-panic", format!("{}: installing the same kind of destination again panics", names[kind]), history("install again")),
        }
    }
    // `with_test_sink(sink, f)` where `f` unwinds (caught by the caller): the scope is over, so the
    // thread-local test sink is gone - routing falls back to the next destination, and a new
    // thread-local test sink can be installed. Next destination: nothing / attached / runtime sink.
    for next in 0..3usize {
        let next_name = ["nothing installed", "an attached sink", "a runtime test sink"][next];
        let history = json!({"history": [format!("next destination: {next_name}"), "with_test_sink(sink 41, || panic) - caught", "try_append(700)", "set_test_sink(sink 42)", "try_append(701)"]});
        let att = (next == 1).then(|| VerifGlobal::attach((RecSink { inst: 43 }, RecHandle { inst: 43 })));
        let rtg = (next == 2).then(|| VerifGlobal::set_test_sink_for_tokio_runtime(rt.handle(), BoxEntrySink::new(RecSink { inst: 44 })));
        let r = catch_unwind(AssertUnwindSafe(|| VerifGlobal::with_test_sink(BoxEntrySink::new(RecSink { inst: 41 }), || std::panic::panic_any(ExpectedSinkPanic))));
        transitions += 4;
        if r.is_ok() {
            v.add("with-test-sink:panic-not-propagated", "the closure's panic did not reach the caller of with_test_sink".to_string(), history.clone());
        }
        let probe = |id: u64| -> Result<(Option<u64>, Vec<u64>), ()> {
            let before = lock(&LOG).len();
            let r = catch_unwind(AssertUnwindSafe(|| rt.block_on(async { VerifGlobal::try_append(VEntry { id, tag: tag_of(id) }).err().map(|e| e.id) })));
            let got: Vec<u64> = lock(&LOG)[before..].iter().filter_map(|e| if let Ev::Recv { inst, id: i, .. } = e { (*i == id).then_some(*inst) } else { None }).collect();
            r.map(|back| (back, got)).map_err(|_| ())
        };
        let want: (Option<u64>, Vec<u64>) = match next { 0 => (Some(700), vec![]), 1 => (None, vec![43]), _ => (None, vec![44]) };
        match probe(700) {
            Ok(got) if got == want => {}
            other => v.add("with-test-sink:scope-left-by-a-panic-still-routes", format!("next destination {next_name}: after with_test_sink's closure panicked (caught), an entry was {} instead of going to the next destination", match other { Err(()) => "answered with a panic".to_string(), Ok((back, got)) => format!("delivered to {got:?} (handed back: {})", back.is_some()) }), history.clone()),
        }
        match catch_unwind(AssertUnwindSafe(|| VerifGlobal::set_test_sink(BoxEntrySink::new(RecSink { inst: 42 })))) {
            Ok(g) => {
                match probe(701) {
                    Ok((None, got)) if got == vec![42] => {}
                    other => v.add("with-test-sink:scope-left-by-a-panic-still-routes", format!("next destination {next_name}: a thread-local test sink installed after the panicked scope did not receive the entry ({other:?})"), history.clone()),
                }
                drop(g);
            }
            Err(_) => v.add("with-test-sink:scope-left-by-a-panic-still-routes", format!("next destination {next_name}: installing a thread-local test sink after the panicked scope panics (the old one is still installed)"), history.clone()),
        }
        drop(rtg);
        drop(att);
    }
    let viol: Vec<J> = v.by_key.values().map(|v| json!({"key": v.key, "what": v.what, "replay": v.replay, "count": v.count})).collect();
    println!("{}", json!({"histories": 6, "transitions": transitions, "cleanup_ops": 0, "restore_checks": 6, "states": [], "outcomes": vec![0u64; 13], "violations": viol, "aborted": false, "extra": {}}));
    std::process::exit(0)
}

fn child_main(a: &[String]) -> ! {
    if a.first().map(|s| s.as_str()) == Some("panicking-destinations") {
        std::panic::set_hook(Box::new(|_| {}));
        panicking_destinations();
    }
    if a.first().map(|s| s.as_str()) == Some("two-globals") {
        std::panic::set_hook(Box::new(|_| {}));
        two_globals();
    }
    if a.first().map(|s| s.as_str()) == Some("attach-to-stream-under-overrides") {
        std::panic::set_hook(Box::new(|_| {}));
        attach_to_stream_under_overrides();
    }
    if a.first().map(|s| s.as_str()) == Some("contended-runtime-guard-drops") {
        std::panic::set_hook(Box::new(|_| {}));
        contended_runtime_guard_drops();
    }
    let num = |i: usize| -> usize { a.get(i).and_then(|s| s.parse().ok()).unwrap_or_else(|| bad_child_args(a)) };
    match a.first().map(|s| s.as_str()) {
        Some(kind @ ("main" | "main-unwinding")) => {
            // main DEPTH PART OF SYM MAXOBS
            UNWINDING.store(kind == "main-unwinding", Ordering::Relaxed);
            let cfg = EnumCfg { depth: num(1), sym: num(4) == 1, max_obs: num(5), allow_forget: false };
            let part = (num(2), num(3));
            let mut c = Child::new("main");
            let base = Tracker::default();
            let (mut h, mut ctr) = (Vec::new(), 0usize);
            walk(&Model::default(), &Seen::default(), &mut h, &cfg, part, &mut ctr, &mut |hist| {
                c.run_history(hist, &base, None);
                !c.aborted
            });
            c.finish(json!({}))
        }
        Some("after-forget") => {
            // after-forget X DEPTH_OF_SUFFIX PART OF SYM MAXOBS
            let x = num(1) as u8;
            let cfg = EnumCfg { depth: num(2), sym: num(5) == 1, max_obs: num(6), allow_forget: false };
            let part = (num(3), num(4));
            let mut c = Child::new("after-forget");
            let prologue = [Op::Attach(x), Op::Forget];
            let base = c.run_history(&prologue, &Tracker::default(), None);
            // the prologue counts as executed operations but not as a history of the suffix space
            c.histories = 0;
            let mut seen = Seen::default();
            seen.s = true; // the sink letter is fixed by the prologue; threads / runtimes still symmetric
            c.prologue = hist_tokens(&prologue);
            let (mut h, mut ctr) = (Vec::new(), 0usize);
            if !c.aborted && c.v.is_empty() {
                walk(&base.m, &seen, &mut h, &cfg, part, &mut ctr, &mut |hist| {
                    c.run_history(hist, &base, None);
                    !c.aborted
                });
            }
            c.finish(json!({}))
        }
        Some("one") => {
            // one HIST(csv) TRACE
            let hist: Vec<Op> = a.get(1).map(|s| s.split(',').filter(|t| !t.is_empty()).map(|t| Op::parse(t).unwrap_or_else(|| bad_child_args(a))).collect()).unwrap_or_else(|| bad_child_args(a));
            let want_trace = num(2) == 1;
            // only histories of the model's own language are meaningful
            let mut m = Model::default();
            for op in &hist {
                if !m.enabled(true).contains(op) {
                    eprintln!("c17: operation {} is not enabled at this point of the history", op.token());
                    std::process::exit(2);
                }
                m.apply(*op);
            }
            let mut c = Child::new("one-history-per-process");
            let mut trace = vec![];
            c.run_history(&hist, &Tracker::default(), if want_trace { Some(&mut trace) } else { None });
            c.aborted = false; // single history: nothing can leak into a later one
            c.finish(json!({"history": hist_tokens(&hist), "trace": trace}))
        }
        Some("count") => {
            // count DEPTH SYM MAXOBS FORGET  (model only; prints the size of a space)
            let cfg = EnumCfg {
                depth: num(1),
                sym: num(2) == 1,
                max_obs: num(3),
                allow_forget: num(4) == 1,
            };
            let n = count_histories(
                &Model::default(),
                &Seen::default(),
                cfg.depth,
                &cfg,
                &mut HashMap::new(),
            );
            println!("{n}");
            std::process::exit(0)
        }
        _ => bad_child_args(a),
    }
}

fn bad_child_args(a: &[String]) -> ! {
    eprintln!("c17: bad --child arguments {a:?}");
    std::process::exit(2)
}

// ------------------------------------------------------------------------------------------
// parent: partitions the spaces over child processes and merges
// ------------------------------------------------------------------------------------------

struct ChildOut {
    j: J,
}

fn run_jobs(jobs: &[Vec<String>], conc: usize) -> Vec<ChildOut> {
    let exe = std::env::current_exe().unwrap_or_else(|e| machinery(&format!("current_exe: {e}")));
    let next = AtomicUsize::new(0);
    let outs: Mutex<Vec<(usize, ChildOut)>> = Mutex::new(Vec::new());
    std::thread::scope(|s| {
        for _ in 0..conc.max(1).min(jobs.len().max(1)) {
            s.spawn(|| {
                loop {
                    let i = next.fetch_add(1, Ordering::Relaxed);
                    if i >= jobs.len() {
                        break;
                    }
                    let o = std::process::Command::new(&exe).arg("--child").args(&jobs[i]).stdin(std::process::Stdio::null()).output();
                    let o = o.unwrap_or_else(|e| machinery(&format!("cannot spawn child: {e}")));
                    let text = String::from_utf8_lossy(&o.stdout);
                    let parsed = text.lines().last().and_then(|l| serde_json::from_str::<J>(l).ok());
                    match parsed {
                        Some(j) if o.status.success() => lock(&outs).push((i, ChildOut { j })),
                        _ => machinery(&format!("child {:?} failed: status {:?}, stderr: {}", jobs[i], o.status, String::from_utf8_lossy(&o.stderr))),
                    }
                }
            });
        }
    });
    let mut v = outs.into_inner().unwrap_or_else(|e| e.into_inner());
    v.sort_by_key(|(i, _)| *i);
    v.into_iter().map(|(_, o)| o).collect()
}

fn machinery(msg: &str) -> ! {
    eprintln!("c17: machinery failure: {msg}");
    std::process::exit(2)
}

struct Totals {
    histories: u64,
    transitions: u64,
    cleanup_ops: u64,
    restore_checks: u64,
    states: [bool; 128],
    outcomes: [u64; 13],
    aborted: u64,
}

impl Default for Totals {
    fn default() -> Totals {
        Totals {
            histories: 0,
            transitions: 0,
            cleanup_ops: 0,
            restore_checks: 0,
            states: [false; 128],
            outcomes: [0; 13],
            aborted: 0,
        }
    }
}

fn merge(outs: &[ChildOut], tot: &mut Totals, rep: &mut Report) -> u64 {
    let mut hist = 0;
    for o in outs {
        let g = |k: &str| o.j[k].as_u64().unwrap_or(0);
        hist += g("histories");
        tot.histories += g("histories");
        tot.transitions += g("transitions");
        tot.cleanup_ops += g("cleanup_ops");
        tot.restore_checks += g("restore_checks");
        if o.j["aborted"].as_bool().unwrap_or(false) {
            tot.aborted += 1;
        }
        for s in o.j["states"].as_array().into_iter().flatten() {
            tot.states[s.as_u64().unwrap_or(0) as usize & 127] = true;
        }
        for (i, n) in o.j["outcomes"].as_array().into_iter().flatten().enumerate() {
            tot.outcomes[i.min(12)] += n.as_u64().unwrap_or(0);
        }
        let mut vs = Violations::default();
        for v in o.j["violations"].as_array().into_iter().flatten() {
            let key = v["key"].as_str().unwrap_or("?").to_string();
            vs.by_key.insert(key.clone(), Violation { key, what: v["what"].as_str().unwrap_or("").to_string(), replay: v["replay"].clone(), count: v["count"].as_u64().unwrap_or(1) });
        }
        rep.violations.merge(vs);
    }
    hist
}

fn s(x: impl ToString) -> String {
    x.to_string()
}

fn parent_main() {
    let mut rep = Report::from_args("C17", "model_checking");
    let tier = rep.tier;
    let cores = vh_common::par::threads().max(2);
    // every lock-step child keeps two threads busy (explorer + T1)
    let procs = (cores / 2).max(1);

    if let Some(path) = rep.replay.clone() {
        let text = std::fs::read_to_string(&path).unwrap_or_else(|e| machinery(&format!("cannot read {path:?}: {e}")));
        let j: J = serde_json::from_str(&text).unwrap_or_else(|e| machinery(&format!("bad replay file: {e}")));
        let r = if j.get("replay").is_some() { &j["replay"] } else { &j };
        let mut toks: Vec<String> = r["prologue"].as_array().into_iter().flatten().filter_map(|t| t.as_str().map(s)).collect();
        toks.extend(r["history"].as_array().into_iter().flatten().filter_map(|t| t.as_str().map(s)));
        let outs = run_jobs(&[vec![s("one"), toks.join(","), s(1)]], 1);
        let mut tot = Totals::default();
        merge(&outs, &mut tot, &mut rep);
        rep.set("states", tot.states.iter().filter(|b| **b).count() as u64);
        rep.set("transitions", tot.transitions);
        rep.set("traces_validated_against_impl", tot.histories);
        rep.sample(outs[0].j["extra"].clone());
        rep.finish();
    }

    // ---- the stated spaces --------------------------------------------------------------
    // (name, depth, symmetry-reduced, max observers)
    let unlimited = 99usize;
    let mut main_spaces: Vec<(&str, usize, bool, usize)> = tier.pick(
        vec![("all-operations", 4, false, unlimited), ("canonical-up-to-renaming", 5, true, unlimited)],
        vec![
            ("all-operations", 5, false, unlimited),
            ("canonical-up-to-renaming", 6, true, unlimited),
            ("canonical-up-to-renaming,at-most-2-appends", 7, true, 2),
        ],
    );
    let forget_suffix_depth: usize = tier.pick(5, 7); // [attach X, forget] + every suffix, total length
    let forget_suffix_sym = tier.pick(false, true);
    let forget_anywhere_len: usize = tier.pick(4, 5); // every history with `forget` anywhere, one process each

    let mut tot = Totals::default();
    let mut exhaustive = true;
    let mut spaces_json = vec![];

    // 1. histories without forget
    let mut jobs: Vec<Vec<String>> = vec![];
    let mut expect_main = vec![];
    // the short spaces are prefixes of the deep ones; they run on their own so that a failing
    // shape is also reported with its shortest history
    for d in 1..=3 {
        main_spaces.push(("all-operations", d, false, unlimited));
    }
    main_spaces.sort_by_key(|m| std::cmp::Reverse(m.1));
    let parts_of = |depth: usize| if depth <= 3 { 1 } else { procs };
    let mut job_ranges = vec![];
    for (_, depth, sym, max_obs) in &main_spaces {
        let cfg = EnumCfg { depth: *depth, sym: *sym, max_obs: *max_obs, allow_forget: false };
        expect_main.push(count_histories(&Model::default(), &Seen::default(), cfg.depth, &cfg, &mut HashMap::new()));
        let first = jobs.len();
        for p in 0..parts_of(*depth) {
            jobs.push(vec![s("main"), s(depth), s(p), s(parts_of(*depth)), s(*sym as u8), s(max_obs)]);
        }
        job_ranges.push(first..jobs.len());
    }
    // 2. [attach X, forget] + every suffix
    let fs_cfg = EnumCfg { depth: forget_suffix_depth - 2, sym: forget_suffix_sym, max_obs: unlimited, allow_forget: false };
    let mut expect_fs = 0;
    let xs: &[u8] = if forget_suffix_sym { &[0] } else { &[0, 1] };
    let fs_parts = if tier == vh_common::Tier::Thorough { procs } else { 1 };
    for &x in xs {
        let mut m = Model::default();
        m.apply(Op::Attach(x));
        m.apply(Op::Forget);
        let seen = Seen { s: true, ..Default::default() };
        expect_fs += count_histories(&m, &seen, fs_cfg.depth, &fs_cfg, &mut HashMap::new());
        for p in 0..fs_parts {
            jobs.push(vec![s("after-forget"), s(x), s(fs_cfg.depth), s(p), s(fs_parts), s(fs_cfg.sym as u8), s(fs_cfg.max_obs)]);
        }
    }
    let n_main_jobs = job_ranges.last().map(|r| r.end).unwrap_or(0);
    let t0 = std::time::Instant::now();
    let outs = run_jobs(&jobs, procs);
    let wall_lockstep = t0.elapsed().as_secs_f64();
    for (k, (name, depth, sym, max_obs)) in main_spaces.iter().enumerate() {
        let got = merge(&outs[job_ranges[k].clone()], &mut tot, &mut rep);
        if got != expect_main[k] {
            exhaustive = false;
        }
        spaces_json.push(json!({"space": format!("no-forget:{name}"), "depth": depth, "symmetry_reduced": sym,
            "max_appends_per_history": if *max_obs == unlimited { json!("unbounded") } else { json!(max_obs) },
            "histories_in_space": expect_main[k], "histories_executed": got}));
    }
    let got_fs = merge(&outs[n_main_jobs..], &mut tot, &mut rep);
    if got_fs != expect_fs {
        exhaustive = false;
    }
    spaces_json.push(json!({"space": "attach-X,forget,then-every-suffix (one process per X and part; attached-forever is the base state)", "depth": forget_suffix_depth,
        "symmetry_reduced": forget_suffix_sym, "histories_in_space": expect_fs, "histories_executed": got_fs}));

    // 2b. every drop of a handle / guard by the unwinding of a caught panic of its owner
    let unw_depth: usize = tier.pick(4, 5);
    let unw_cfg = EnumCfg { depth: unw_depth, sym: false, max_obs: unlimited, allow_forget: false };
    let expect_unw = count_histories(&Model::default(), &Seen::default(), unw_cfg.depth, &unw_cfg, &mut HashMap::new());
    let unw_jobs: Vec<Vec<String>> = (0..procs).map(|p| vec![s("main-unwinding"), s(unw_depth), s(p), s(procs), s(0), s(unlimited)]).collect();
    let outs_unw = run_jobs(&unw_jobs, procs);
    let got_unw = merge(&outs_unw, &mut tot, &mut rep);
    if got_unw != expect_unw {
        exhaustive = false;
    }
    spaces_json.push(json!({"space": "no-forget:all-operations, every handle/guard drop by the unwinding of a caught panic", "depth": unw_depth,
        "symmetry_reduced": false, "histories_in_space": expect_unw, "histories_executed": got_unw}));

    // 2c. one fixed history with real concurrency (two runtime guards dropped at the same time)
    let outs_c = run_jobs(&[vec![s("contended-runtime-guard-drops")]], 1);
    if merge(&outs_c, &mut tot, &mut rep) != 1 {
        exhaustive = false;
    }
    spaces_json.push(json!({"space": "fixed history: the test-sink guards of two runtimes dropped concurrently on two threads (first removed sink still being destroyed)", "histories_in_space": 1, "histories_executed": 1}));

    // 2d. attach_to_stream under each kind of test override (three fixed histories)
    let outs_a = run_jobs(&[vec![s("attach-to-stream-under-overrides")]], 1);
    if merge(&outs_a, &mut tot, &mut rep) != 3 {
        exhaustive = false;
    }
    spaces_json.push(json!({"space": "fixed histories: attach_to_stream with nothing attached under no / a thread-local / a runtime test sink, then the override dropped, an append, the handle dropped", "histories_in_space": 3, "histories_executed": 3}));

    // 2e. two globals alive in one process: (state of A) x (state of B) x (install order)
    let outs_t = run_jobs(&[vec![s("two-globals")]], 1);
    if merge(&outs_t, &mut tot, &mut rep) != 32 {
        exhaustive = false;
    }
    spaces_json.push(json!({"space": "two globals in one process: {nothing, attached, thread-local test sink, runtime test sink} for each, both install orders; one append through each global inside the runtime, then everything dropped and one append through each again", "histories_in_space": 32, "histories_executed": 32}));

    // 2f. destinations whose append panics for one entry (caught by the caller)
    let outs_p = run_jobs(&[vec![s("panicking-destinations")]], 1);
    if merge(&outs_p, &mut tot, &mut rep) != 6 {
        exhaustive = false;
    }
    spaces_json.push(json!({"space": "fixed histories: an attached / thread-local / runtime destination whose append panics for one entry (the next entry, the guard's drop, the fall-back and a re-install must work); with_test_sink whose closure panics, over nothing / an attached sink / a runtime test sink", "histories_in_space": 6, "histories_executed": 6}));

    // 3. forget anywhere: one fresh process per history
    let fa_cfg = EnumCfg { depth: forget_anywhere_len, sym: false, max_obs: unlimited, allow_forget: true };
    let mut fa_jobs: Vec<Vec<String>> = vec![];
    {
        let (mut h, mut ctr) = (Vec::new(), 0usize);
        walk(&Model::default(), &Seen::default(), &mut h, &fa_cfg, (0, 1), &mut ctr, &mut |hist| {
            if hist.contains(&Op::Forget) {
                fa_jobs.push(vec![s("one"), hist_tokens(hist).join(","), s(0)]);
            }
            true
        });
    }
    let t0 = std::time::Instant::now();
    let outs_fa = run_jobs(&fa_jobs, cores);
    let wall_fa = t0.elapsed().as_secs_f64();
    let got_fa = merge(&outs_fa, &mut tot, &mut rep);
    if got_fa != fa_jobs.len() as u64 {
        exhaustive = false;
    }
    spaces_json.push(json!({"space": "forget-anywhere (every history containing forget; one fresh process per history)", "depth": forget_anywhere_len,
        "symmetry_reduced": false, "histories_in_space": fa_jobs.len(), "histories_executed": got_fa, "processes": fa_jobs.len()}));
    if tot.aborted > 0 {
        exhaustive = false;
    }

    // 4. a few histories written out step by step (also executed and checked)
    let curated = [
        "attach-A,tl-install@T0,rt-install:R0,try_append@T0/R0,tl-drop@T0,try_append@T0/R0,rt-drop:R0,try_append@T0/R0,drop-handle,try_append@T0/R0",
        "attach-A,attach-B,sink@T1,tl-install@T1,tl-install@T1,append@T1,rt-install:R1,rt-install:R1,try_append@T0/R1",
        "append@T0,sink@T1/R0,rt-install:R1,append@T1/R1,append@T1/R0,attach-B,forget,tl-install@T0,try_append@T1,try_append@T0",
    ];
    let cur_jobs: Vec<Vec<String>> = curated.iter().map(|h| vec![s("one"), s(h), s(1)]).collect();
    let outs_cur = run_jobs(&cur_jobs, cores);
    merge(&outs_cur, &mut tot, &mut rep);
    for o in &outs_cur {
        rep.sample(o.j["extra"].clone());
    }

    // ---- evidence -------------------------------------------------------------------------
    let states: Vec<String> = (0..128).filter(|i| tot.states[*i]).map(Model::describe).collect();
    rep.set("states", states.len() as u64);
    rep.set("transitions", tot.transitions);
    rep.set("traces_validated_against_impl", tot.histories);
    rep.set("clean_up_operations", tot.cleanup_ops);
    rep.set("back_to_base_probes", tot.restore_checks);
    rep.set("depth", main_spaces.iter().map(|m| m.1).max().unwrap_or(0) as u64);
    rep.set("threads", 2u64);
    rep.set("runtimes", 2u64);
    rep.set("exhaustive", exhaustive);
    rep.set(
        "phase_wall_s",
        json!({"lock-step children (no-forget spaces + after-forget)": (wall_lockstep * 10.0).round() / 10.0,
               "one process per forget history": (wall_fa * 10.0).round() / 10.0}),
    );
    rep.set("child_processes", (jobs.len() + fa_jobs.len() + cur_jobs.len()) as u64);
    rep.set("children_stopped_early_because_the_global_was_not_back_at_base", tot.aborted);
    rep.set("spaces", J::Array(spaces_json));
    rep.set("model_states_reached", json!(states));
    let oc: BTreeMap<&str, u64> = OUTCOME_NAMES.iter().copied().zip(tot.outcomes.iter().copied()).collect();
    rep.set("checked_outcomes_by_class", json!(oc));
    rep.set("operation_alphabet", json!(all_ops().iter().map(|o| o.token()).collect::<Vec<_>>()));
    rep.set(
        "explanation",
        "every operation history of the stated spaces is executed on the real `global_entry_sink!` global (test-util on), one history at a time per process, on two lock-step OS threads and two current-thread tokio runtimes; after EVERY operation the outcome (which recording sink received the entry / entry handed back with the same id+tag / panic) is compared with a reference precedence model written from the property statement (thread sink > runtime sink of the runtime the call runs in > attached sink > hand back or panic); a history is not stopped by a documented panic, so the operations after it check that the global is undamaged; every history ends with a clean-up suffix (drop all guards and held handles) and two try_append probes ((T0 in R0), (T1 in R1)) that must see the base state again",
    );
    rep.assume("operations that the API does not tie to a thread are placed deterministically: attach-A on T0, attach-B on T1, drop-handle on T1, forget on T0, rt-install:Rr on thread r outside any runtime, rt-drop:Rr on thread 1-r inside runtime r");
    rep.assume("`inside runtime r` = inside `Runtime::block_on` of a current-thread runtime shared by both threads (never concurrently); `Handle::try_current()` is what the implementation consults");
    rep.assume("a BoxEntrySink obtained from sink() is used for one append and dropped within the same operation (holding it across a detach is outside the statement)");
    rep.assume("forget leaves the process-global attached forever, so histories containing forget run (a) one per fresh process up to the stated length, (b) as [attach X, forget] + every suffix with `attached forever` as the base state of that process; histories with operations both between attach and forget and beyond the (a) length are not enumerated");
    rep.assume("symmetry-reduced spaces (thorough tier only, marked in `spaces`) keep one representative per renaming of T0/T1, R0/R1, A/B (first one mentioned has index 0) and bound the number of append-like operations per history as stated; the unreduced spaces make no such assumption");
    rep.assume("flush-and-close of the detached sink = drop of the handle part of the attached (sink, handle) tuple, as for BackgroundQueue's join handle; recording sinks log synchronously, so `accepted before close` is checked as `no entry logged by a sink after its handle part was dropped`");
    rep.finish();
}

fn main() {
    let args: Vec<String> = std::env::args().collect();
    if let Some(i) = args.iter().position(|a| a == "--child") {
        child_main(&args[i + 1..]);
    }
    parent_main();
}
