//! C19 - declaring or converting a unit never changes the physical quantity reported.
//!
//! Complete enumeration of every implemented `Convert` pair (measured with a compile-time probe
//! over the full 26 x 26 tag matrix) x a fixed value alphabet x every way a unit can be attached
//! (plain `WithUnit`, `Option`, `Distribution`, `Mean`, primitive chains, the `As*` aliases, the
//! `#[metrics(unit = ..)]` attribute), observed with a recording `ValueWriter`, and compared with
//! an independent table of scales written from the SI definitions and the CloudWatch unit names.
//! Nothing in the oracle reads a constant of `unit.rs`.

use std::collections::{BTreeMap, BTreeSet};
use std::marker::PhantomData;
use std::time::Duration;

use metrique::unit as mu;
use metrique::unit_of_work::metrics;
use metrique::{CloseValue, RootEntry};
use metrique_writer::value::{Distribution, Mean};
use metrique_writer_core::unit::{self as u, Convert, UnitTag, WithUnit};
use metrique_writer_core::value::{MetricFlags, MetricOptions};
use metrique_writer_core::{
    Entry, EntryConfig, EntryWriter, MetricValue, Observation, Unit, ValidationError, Value,
    ValueWriter,
};
use serde_json::{Value as J, json};
use vh_common::Report;
use vh_common::report::{Tier, Violations};

// ------------------------------------------------------------------------------------------
// Independent oracle: what one unit is worth, as an exact rational number of base units
// (second, bit, bit per second), and the CloudWatch name of the unit.
// Prefixes are decimal (kilo = 10^3 ... tera = 10^12) as documented on `PositiveScale`
// ("power-of-ten scales", "42 megabytes = 42_000_000 bytes"); a byte is 8 bits.
// ------------------------------------------------------------------------------------------

#[derive(Clone, Copy, PartialEq, Eq, Debug)]
enum Dim {
    Unitless,
    Count,
    Percent,
    Time,
    Data,
    Rate,
}

#[derive(Clone, Copy, Debug)]
struct Info {
    tag: &'static str,
    name: &'static str,
    dim: Dim,
    num: u128,
    den: u128,
}

const fn i(tag: &'static str, name: &'static str, dim: Dim, num: u128, den: u128) -> Info {
    Info { tag, name, dim, num, den }
}

const TABLE: [Info; 26] = [
    i("None", "None", Dim::Unitless, 1, 1),
    i("Count", "Count", Dim::Count, 1, 1),
    i("Percent", "Percent", Dim::Percent, 1, 1),
    i("Second", "Seconds", Dim::Time, 1, 1),
    i("Millisecond", "Milliseconds", Dim::Time, 1, 1_000),
    i("Microsecond", "Microseconds", Dim::Time, 1, 1_000_000),
    i("Byte", "Bytes", Dim::Data, 8, 1),
    i("Kilobyte", "Kilobytes", Dim::Data, 8_000, 1),
    i("Megabyte", "Megabytes", Dim::Data, 8_000_000, 1),
    i("Gigabyte", "Gigabytes", Dim::Data, 8_000_000_000, 1),
    i("Terabyte", "Terabytes", Dim::Data, 8_000_000_000_000, 1),
    i("Bit", "Bits", Dim::Data, 1, 1),
    i("Kilobit", "Kilobits", Dim::Data, 1_000, 1),
    i("Megabit", "Megabits", Dim::Data, 1_000_000, 1),
    i("Gigabit", "Gigabits", Dim::Data, 1_000_000_000, 1),
    i("Terabit", "Terabits", Dim::Data, 1_000_000_000_000, 1),
    i("BytePerSecond", "Bytes/Second", Dim::Rate, 8, 1),
    i("KilobytePerSecond", "Kilobytes/Second", Dim::Rate, 8_000, 1),
    i("MegabytePerSecond", "Megabytes/Second", Dim::Rate, 8_000_000, 1),
    i("GigabytePerSecond", "Gigabytes/Second", Dim::Rate, 8_000_000_000, 1),
    i("TerabytePerSecond", "Terabytes/Second", Dim::Rate, 8_000_000_000_000, 1),
    i("BitPerSecond", "Bits/Second", Dim::Rate, 1, 1),
    i("KilobitPerSecond", "Kilobits/Second", Dim::Rate, 1_000, 1),
    i("MegabitPerSecond", "Megabits/Second", Dim::Rate, 1_000_000, 1),
    i("GigabitPerSecond", "Gigabits/Second", Dim::Rate, 1_000_000_000, 1),
    i("TerabitPerSecond", "Terabits/Second", Dim::Rate, 1_000_000_000_000, 1),
];

fn info(tag: &str) -> Info {
    *TABLE.iter().find(|x| x.tag == tag).unwrap_or_else(|| {
        eprintln!("C19: tag {tag} missing from the oracle table");
        std::process::exit(2)
    })
}

fn gcd(a: u128, b: u128) -> u128 {
    if b == 0 { a } else { gcd(b, a % b) }
}

/// The number by which a quantity expressed in `from` must be multiplied to express the SAME
/// quantity in `to`, as a reduced fraction. A unitless number keeps its value when a unit is
/// attached (documented on `Convert`).
fn ref_ratio(from: &Info, to: &Info) -> (u128, u128) {
    if from.dim == Dim::Unitless {
        return (1, 1);
    }
    let p = from.num * to.den;
    let q = from.den * to.num;
    let g = gcd(p, q);
    (p / g, q / g)
}

#[derive(PartialEq, Eq, Debug, Clone, Copy)]
enum Convertible {
    Yes,
    No,
    /// the property statement does not say (data size <-> data rate, identity of Count/Percent,
    /// anything -> None)
    Undetermined,
}

fn oracle_convertible(from: &Info, to: &Info) -> Convertible {
    use Dim::*;
    match (from.dim, to.dim) {
        (Unitless, _) => Convertible::Yes,
        (Time, Time) | (Data, Data) | (Rate, Rate) => Convertible::Yes,
        (Data, Rate) | (Rate, Data) => Convertible::Undetermined,
        (Count, Count) | (Percent, Percent) => Convertible::Undetermined,
        (_, Unitless) => Convertible::Undetermined,
        _ => Convertible::No,
    }
}

// ------------------------------------------------------------------------------------------
// Compile-time probe: is `A: Convert<B>` implemented?  (inherent const shadows the trait const
// exactly when the bounds of the inherent impl hold)
// ------------------------------------------------------------------------------------------

struct Probe<A, B>(PhantomData<(A, B)>);
trait NotConvertible {
    const CONVERTIBLE: bool = false;
}
impl<T> NotConvertible for T {}
impl<A: Convert<B>, B: UnitTag> Probe<A, B> {
    const CONVERTIBLE: bool = true;
}

macro_rules! probe_matrix {
    ($out:expr; [$($a:ident)*] x $bs:tt) => { $( probe_matrix!(@row $out; $a $bs); )* };
    (@row $out:expr; $a:ident [$($b:ident)*]) => {
        $( $out.push((stringify!($a), stringify!($b), <Probe<u::$a, u::$b>>::CONVERTIBLE)); )*
    };
}

macro_rules! cross {
    ($f:ident, $st:expr; [$($a:ident)*] x $bs:tt) => { $( cross!(@row $f, $st; $a $bs); )* };
    (@row $f:ident, $st:expr; $a:ident [$($b:ident)*]) => {
        $( $f::<u::$a, u::$b>($st, stringify!($a), stringify!($b)); )*
    };
}

// ------------------------------------------------------------------------------------------
// Recording writers
// ------------------------------------------------------------------------------------------

#[derive(Debug, Clone, PartialEq)]
enum Call {
    Str(String),
    Metric { obs: Vec<Observation>, unit: Unit, dims: Vec<(String, String)>, flagged: bool },
    Error(String),
}

#[derive(Debug)]
struct Opt;
impl MetricOptions for Opt {}
static OPT: Opt = Opt;

struct Rec<'r>(&'r mut Vec<Call>);
impl ValueWriter for Rec<'_> {
    fn string(self, value: &str) {
        self.0.push(Call::Str(value.to_string()));
    }
    fn metric<'a>(
        self,
        distribution: impl IntoIterator<Item = Observation>,
        unit: Unit,
        dimensions: impl IntoIterator<Item = (&'a str, &'a str)>,
        flags: MetricFlags<'_>,
    ) {
        self.0.push(Call::Metric {
            obs: distribution.into_iter().collect(),
            unit,
            dims: dimensions.into_iter().map(|(k, v)| (k.to_string(), v.to_string())).collect(),
            flagged: flags.downcast::<Opt>().is_some(),
        });
    }
    fn error(self, error: ValidationError) {
        self.0.push(Call::Error(error.to_string()));
    }
}

fn record(v: &(impl Value + ?Sized)) -> Vec<Call> {
    let mut calls = Vec::new();
    v.write(Rec(&mut calls));
    calls
}

#[derive(Default)]
struct EW {
    fields: Vec<(String, Vec<Call>)>,
}
impl<'a> EntryWriter<'a> for EW {
    fn timestamp(&mut self, _timestamp: std::time::SystemTime) {}
    fn value(&mut self, name: impl Into<std::borrow::Cow<'a, str>>, value: &(impl Value + ?Sized)) {
        let name: std::borrow::Cow<'a, str> = name.into();
        self.fields.push((name.into_owned(), record(value)));
    }
    fn config(&mut self, _config: &'a dyn EntryConfig) {}
}
impl EW {
    fn field(&self, name: &str) -> Option<&Vec<Call>> {
        let mut it = self.fields.iter().filter(|(n, _)| n == name);
        let first = it.next();
        if it.next().is_some() {
            return None;
        }
        first.map(|(_, c)| c)
    }
}

// ------------------------------------------------------------------------------------------
// Source values with a declared unit (written here, so that the source side does not depend
// on the code under test)
// ------------------------------------------------------------------------------------------

struct Tagged<A> {
    obs: Observation,
    extra: bool,
    _a: PhantomData<A>,
}
impl<A> Tagged<A> {
    fn new(obs: Observation) -> Self {
        Tagged { obs, extra: false, _a: PhantomData }
    }
    fn with_extra(obs: Observation) -> Self {
        Tagged { obs, extra: true, _a: PhantomData }
    }
}
impl<A: UnitTag> Value for Tagged<A> {
    fn write(&self, w: impl ValueWriter) {
        if self.extra {
            w.metric([self.obs], A::UNIT, [("k", "v")], MetricFlags::upcast(&OPT))
        } else {
            w.metric([self.obs], A::UNIT, [], MetricFlags::empty())
        }
    }
}
impl<A: UnitTag> MetricValue for Tagged<A> {
    type Unit = A;
}
impl<A> CloseValue for Tagged<A> {
    type Closed = Self;
    fn close(self) -> Self {
        self
    }
}

/// promises unit `A`, writes a string
struct StrMetric<A>(PhantomData<A>);
impl<A: UnitTag> Value for StrMetric<A> {
    fn write(&self, w: impl ValueWriter) {
        w.string("text")
    }
}
impl<A: UnitTag> MetricValue for StrMetric<A> {
    type Unit = A;
}
impl<A> CloseValue for StrMetric<A> {
    type Closed = Self;
    fn close(self) -> Self {
        self
    }
}

/// promises unit `A`, writes `writes`
struct Liar<A> {
    writes: Unit,
    _a: PhantomData<A>,
}
impl<A> Liar<A> {
    fn new(writes: Unit) -> Self {
        Liar { writes, _a: PhantomData }
    }
}
impl<A: UnitTag> Value for Liar<A> {
    fn write(&self, w: impl ValueWriter) {
        w.metric([Observation::Unsigned(3)], self.writes, [], MetricFlags::empty())
    }
}
impl<A: UnitTag> MetricValue for Liar<A> {
    type Unit = A;
}
impl<A> CloseValue for Liar<A> {
    type Closed = Self;
    fn close(self) -> Self {
        self
    }
}

/// promises unit `A`, reports an error of its own
struct ErrVal<A>(PhantomData<A>);
impl<A: UnitTag> Value for ErrVal<A> {
    fn write(&self, w: impl ValueWriter) {
        w.invalid("own-error")
    }
}
impl<A: UnitTag> MetricValue for ErrVal<A> {
    type Unit = A;
}

// ------------------------------------------------------------------------------------------
// Comparison of observations
// ------------------------------------------------------------------------------------------

const EPS: f64 = f64::EPSILON;

fn close(got: f64, exp: f64, k: f64) -> bool {
    if got == exp {
        return true;
    }
    if !got.is_finite() || !exp.is_finite() {
        return false;
    }
    (got - exp).abs() <= k * EPS * exp.abs() + 2.0 * f64::from_bits(1)
}

fn obs_json(o: &Observation) -> J {
    match *o {
        Observation::Unsigned(n) => json!({"unsigned": n.to_string()}),
        Observation::Floating(f) => json!({"floating": format!("{f:e}")}),
        Observation::Repeated { total, occurrences } => {
            json!({"repeated": {"total": format!("{total:e}"), "occurrences": occurrences.to_string()}})
        }
        _ => json!("unknown-observation-kind"),
    }
}

fn calls_json(calls: &[Call]) -> J {
    J::Array(
        calls
            .iter()
            .map(|c| match c {
                Call::Str(s) => json!({"string": s}),
                Call::Metric { obs, unit, dims, flagged } => json!({
                    "metric": obs.iter().map(obs_json).collect::<Vec<_>>(),
                    "unit": unit.name(), "dimensions": dims, "flags": flagged}),
                Call::Error(e) => json!({"error": e}),
            })
            .collect(),
    )
}

fn same_bits(a: &Observation, b: &Observation) -> bool {
    match (*a, *b) {
        (Observation::Unsigned(x), Observation::Unsigned(y)) => x == y,
        (Observation::Floating(x), Observation::Floating(y)) => x.to_bits() == y.to_bits(),
        (
            Observation::Repeated { total: x, occurrences: n },
            Observation::Repeated { total: y, occurrences: m },
        ) => x.to_bits() == y.to_bits() && n == m,
        _ => false,
    }
}

enum Exp {
    /// the conversion ratio is exactly one: nothing may change, not even the kind
    Exact(Observation),
    Approx { v: f64, occ: Option<u64> },
    /// the exact result is beyond the range of f64: the statement does not say what to emit,
    /// except that a finite number would be a wrongly scaled one
    Unrepresentable { occ: Option<u64> },
}

fn expect(o: Observation, p: u128, q: u128, identity_is_exact: bool) -> Exp {
    if p == q && identity_is_exact {
        return Exp::Exact(o);
    }
    let r = p as f64 / q as f64; // p or q is 1 after reduction for every pair of the table
    let fl = |x: f64, occ: Option<u64>| {
        let v = x * r;
        if x.is_finite() && !v.is_finite() { Exp::Unrepresentable { occ } } else { Exp::Approx { v, occ } }
    };
    match o {
        Observation::Unsigned(n) => Exp::Approx { v: (n as u128 * p) as f64 / q as f64, occ: None },
        Observation::Floating(x) => fl(x, None),
        Observation::Repeated { total, occurrences } => fl(total, Some(occurrences)),
        _ => Exp::Exact(o),
    }
}

enum Mismatch {
    Value(String),
    Occurrences(String),
}

/// Ok(true) = compared, Ok(false) = unrepresentable (only partially determined)
fn match_obs(exp: &Exp, got: &Observation, k: f64) -> Result<bool, Mismatch> {
    let (gv, gocc) = match *got {
        Observation::Unsigned(n) => (n as f64, None),
        Observation::Floating(f) => (f, None),
        Observation::Repeated { total, occurrences } => (total, Some(occurrences)),
        _ => return Err(Mismatch::Value("unknown observation kind emitted".into())),
    };
    match exp {
        Exp::Exact(o) => {
            if same_bits(o, got) {
                Ok(true)
            } else {
                Err(Mismatch::Value(format!("ratio is exactly 1 but {} became {}", obs_json(o), obs_json(got))))
            }
        }
        Exp::Approx { v, occ } => {
            if *occ != gocc {
                return Err(Mismatch::Occurrences(format!("occurrences {occ:?} became {gocc:?}")));
            }
            if close(gv, *v, k) {
                Ok(true)
            } else {
                Err(Mismatch::Value(format!("expected {v:e} (+-{k} eps), emitted {gv:e}")))
            }
        }
        Exp::Unrepresentable { occ } => {
            if *occ != gocc {
                return Err(Mismatch::Occurrences(format!("occurrences {occ:?} became {gocc:?}")));
            }
            if gv.is_finite() {
                Err(Mismatch::Value(format!("exact result exceeds f64 but a finite {gv:e} was emitted")))
            } else {
                Ok(false)
            }
        }
    }
}

// ------------------------------------------------------------------------------------------
// State
// ------------------------------------------------------------------------------------------

struct St {
    tier: Tier,
    v: Violations,
    alphabet: Vec<Observation>,
    durations: Vec<Duration>,
    evals: u64,
    by_kind: BTreeMap<String, u64>,
    pairs: BTreeSet<(&'static str, &'static str)>,
    nontrivial: BTreeSet<(&'static str, &'static str)>,
    nontrivial_attr: BTreeSet<(&'static str, &'static str)>,
    bad_ratio: BTreeSet<(&'static str, &'static str)>,
    inverse_pairs: u64,
    no_inverse: Vec<String>,
    unrepresentable: u64,
    validation_cases: u64,
    samples: Vec<J>,
}

impl St {
    fn tick(&mut self, kind: &str, n: u64) {
        self.evals += n;
        *self.by_kind.entry(kind.to_string()).or_insert(0) += n;
    }
}

/// The one place where a recorded write is compared with the oracle.
#[allow(clippy::too_many_arguments)]
fn check_metric(
    st: &mut St,
    kind: &str,
    from: &Info,
    to: &Info,
    ratio: (u128, u128),
    identity_is_exact: bool,
    orig: &[Observation],
    calls: &[Call],
    extra: bool,
    k: f64,
) {
    let pair = format!("{}->{}", from.tag, to.tag);
    let replay = || {
        json!({"kind": kind, "from": from.tag, "to": to.tag,
               "written": orig.iter().map(obs_json).collect::<Vec<_>>(), "received": calls_json(calls)})
    };
    st.tick(kind, orig.len().max(1) as u64);
    let [Call::Metric { obs, unit, dims, flagged }] = calls else {
        st.v.add(
            format!("not-one-metric:{kind}:{pair}"),
            format!("{kind} {pair}: expected exactly one metric call, got {}", calls_json(calls)),
            replay(),
        );
        return;
    };
    if unit.name() != to.name {
        st.v.add(
            format!("unit-name:{}", to.tag),
            format!("{kind} {pair}: the writer received unit `{}` but `{}` was declared", unit.name(), to.name),
            replay(),
        );
    }
    if obs.len() != orig.len() {
        st.v.add(
            format!("observation-count:{kind}"),
            format!("{kind} {pair}: {} observations written, {} received", orig.len(), obs.len()),
            replay(),
        );
        return;
    }
    let wanted_dims: Vec<(String, String)> = if extra { vec![("k".into(), "v".into())] } else { vec![] };
    if *dims != wanted_dims || *flagged != extra {
        st.v.add(
            format!("dimensions-or-flags-changed:{kind}"),
            format!("{kind} {pair}: dimensions/flags of the wrapped value were not passed through unchanged"),
            replay(),
        );
    }
    for (o, g) in orig.iter().zip(obs) {
        match match_obs(&expect(*o, ratio.0, ratio.1, identity_is_exact), g, k) {
            Ok(true) => {}
            Ok(false) => st.unrepresentable += 1,
            Err(Mismatch::Occurrences(m)) => {
                st.v.add(format!("occurrences:{pair}"), format!("{kind} {pair} {}: {m}", obs_json(o)), replay())
            }
            Err(Mismatch::Value(m)) => {
                // a wrong RATIO constant is reported once, under its own key
                let key = if st.bad_ratio.contains(&(from.tag, to.tag)) { format!("ratio:{pair}") } else { format!("value:{pair}") };
                st.v.add(key, format!("{kind} {pair} {}: {m}", obs_json(o)), replay())
            }
        }
    }
}

fn expect_nothing(st: &mut St, kind: &str, from: &Info, to: &Info, calls: &[Call]) {
    st.tick(kind, 1);
    if !calls.is_empty() {
        st.v.add(
            format!("absent-value-written:{kind}"),
            format!("{kind} {}->{}: nothing should be written, got {}", from.tag, to.tag, calls_json(calls)),
            json!({"kind": kind, "from": from.tag, "to": to.tag, "received": calls_json(calls)}),
        );
    }
}

fn expect_error(st: &mut St, key: String, what: String, calls: &[Call], must_contain: Option<&str>) {
    st.validation_cases += 1;
    st.tick("validation", 1);
    let ok = match calls {
        [Call::Error(e)] => must_contain.is_none_or(|m| e.contains(m)),
        _ => false,
    };
    if !ok {
        st.v.add(key, format!("{what}: expected exactly one error call and no metric, got {}", calls_json(calls)), json!({"case": what, "received": calls_json(calls)}));
    }
}

fn num_parts(o: &Observation) -> (f64, u64) {
    match *o {
        Observation::Unsigned(n) => (n as f64, 1),
        Observation::Floating(f) => (f, 1),
        Observation::Repeated { total, occurrences } => (total, occurrences),
        _ => (f64::NAN, 0),
    }
}

// ------------------------------------------------------------------------------------------
// One convertible ordered pair
// ------------------------------------------------------------------------------------------

fn all_units() -> Vec<Unit> {
    macro_rules! units { ($($t:ident)*) => { vec![$(<u::$t as UnitTag>::UNIT,)* Unit::Custom("Furlongs")] }; }
    units!(None Count Percent Second Millisecond Microsecond
        Byte Kilobyte Megabyte Gigabyte Terabyte Bit Kilobit Megabit Gigabit Terabit
        BytePerSecond KilobytePerSecond MegabytePerSecond GigabytePerSecond TerabytePerSecond
        BitPerSecond KilobitPerSecond MegabitPerSecond GigabitPerSecond TerabitPerSecond)
}

/// Everything that depends on the two tag TYPES, behind one function pointer, so that the
/// comparison logic is compiled once and not once per pair.
#[derive(Clone, Copy, PartialEq, Eq, Debug)]
enum Op {
    ConvertFn,
    Plain,
    PlainExtra,
    UnitOverOption,
    OptionOfUnit,
    UnitOverDistribution,
    DistributionOfUnit,
    PrimitiveChain,
    ObservationChain,
    UnitOverMean,
    MeanOfUnit,
    UnitOverMeanFromIter,
    /// one long-lived Mean grown through every entry point in turn: record, try_extend,
    /// record_value, add(&other), try_extend again
    UnitOverMeanGrownStepwise,
    UnitOverNone,
    NoneOfUnit,
    UnitOverEmptyDistribution,
    UnitOverEmptyMean,
    StringPlain,
    StringOption,
    StringDistribution,
    Liar,
    LiarDistribution,
    /// honest values around a lying one: [honest, liar] and [honest, liar, honest]
    LiarLaterInDistribution,
    LiarInTheMiddleOfDistribution,
    LiarMean,
    InnerError,
}

struct PairFns {
    ratio: f64,
    from_unit: Unit,
    to_unit: Unit,
    /// (operation, observations written by the source, unit written by a lying source)
    emit: fn(Op, &[Observation], Unit) -> Vec<Call>,
}

fn mean_calls<M: Value>(r: Result<M, ValidationError>) -> Vec<Call> {
    match r {
        Ok(m) => record(&m),
        Err(e) => vec![Call::Str(format!("<Mean::try_new failed: {e}>"))],
    }
}

fn emit<A, B>(op: Op, xs: &[Observation], w: Unit) -> Vec<Call>
where
    A: Convert<B> + 'static,
    B: UnitTag + 'static,
{
    let x = xs.first().copied().unwrap_or(Observation::Unsigned(0));
    match op {
        Op::ConvertFn => vec![Call::Metric { obs: xs.iter().map(|x| <A as Convert<B>>::convert(*x)).collect(), unit: B::UNIT, dims: vec![], flagged: false }],
        Op::Plain => record(&Tagged::<A>::new(x).with_unit::<B>()),
        Op::PlainExtra => record(&Tagged::<A>::with_extra(x).with_unit::<B>()),
        Op::UnitOverOption => record(&Some(Tagged::<A>::new(x)).with_unit::<B>()),
        Op::OptionOfUnit => record(&Some(Tagged::<A>::new(x).with_unit::<B>())),
        Op::UnitOverDistribution => record(&Distribution::<Tagged<A>>::from_iter(xs.iter().map(|x| Tagged::new(*x))).with_unit::<B>()),
        Op::DistributionOfUnit => record(&Distribution::<WithUnit<Tagged<A>, B>, 2>::from_iter(xs.iter().map(|x| Tagged::new(*x).with_unit::<B>()))),
        // real primitives as the source: unitless -> A (ratio one) -> B
        Op::PrimitiveChain => match x {
            Observation::Unsigned(n) => record(&n.with_unit::<A>().with_unit::<B>()),
            Observation::Floating(f) => record(&f.with_unit::<A>().with_unit::<B>()),
            _ => record(&x.with_unit::<A>().with_unit::<B>()),
        },
        Op::ObservationChain => record(&x.with_unit::<A>().with_unit::<B>()),
        Op::UnitOverMean => mean_calls(Mean::<A>::try_new([&Tagged::<A>::new(x)]).map(|m| m.with_unit::<B>())),
        Op::MeanOfUnit => mean_calls(Mean::<B>::try_new([&Tagged::<A>::new(x).with_unit::<B>()])),
        Op::UnitOverMeanFromIter => {
            let (total, occurrences) = num_parts(&x);
            // (through an iterator with an exact size hint, and through one whose lower bound is 0)
            let items = std::iter::repeat_n(total / occurrences as f64, occurrences as usize);
            if occurrences % 2 == 0 {
                record(&Mean::<A>::from_iter(items).with_unit::<B>())
            } else {
                record(&Mean::<A>::from_iter(items.filter(|_| true)).with_unit::<B>())
            }
        }
        Op::UnitOverNone => record(&Option::<Tagged<A>>::None.with_unit::<B>()),
        Op::NoneOfUnit => record(&Option::<WithUnit<Tagged<A>, B>>::None),
        Op::UnitOverEmptyDistribution => record(&Distribution::<Tagged<A>>::from_iter(std::iter::empty()).with_unit::<B>()),
        Op::UnitOverEmptyMean => record(&Mean::<A>::default().with_unit::<B>()),
        Op::UnitOverMeanGrownStepwise => {
            let t = Tagged::<A>::new(x);
            let mut m = Mean::<A>::default();
            m.record(1.0);
            let r = m
                .try_extend([&t])
                .and_then(|()| m.record_value(&t))
                .map(|()| {
                    m.add(&Mean::<A>::from_iter([2.0, 3.0].into_iter().filter(|v| *v > 0.0)));
                })
                .and_then(|()| m.try_extend([&t, &t]))
                // values that write no observation / several observations
                .and_then(|()| m.record_value(&Option::<Tagged<A>>::None))
                .and_then(|()| m.record_value(&Distribution::<Tagged<A>>::from_iter([Tagged::new(x), Tagged::new(x)])));
            mean_calls(r.map(|()| m.with_unit::<B>()))
        }
        Op::StringPlain => record(&StrMetric::<A>(PhantomData).with_unit::<B>()),
        Op::StringOption => record(&Some(StrMetric::<A>(PhantomData)).with_unit::<B>()),
        Op::StringDistribution => record(&Distribution::<StrMetric<A>>::from_iter([StrMetric(PhantomData)]).with_unit::<B>()),
        Op::Liar => record(&Liar::<A>::new(w).with_unit::<B>()),
        Op::LiarDistribution => record(&Distribution::<Liar<A>>::from_iter([Liar::new(w)]).with_unit::<B>()),
        Op::LiarLaterInDistribution => record(&Distribution::<Liar<A>>::from_iter([Liar::new(A::UNIT), Liar::new(w)]).with_unit::<B>()),
        Op::LiarInTheMiddleOfDistribution => record(&Distribution::<Liar<A>, 4>::from_iter([Liar::new(A::UNIT), Liar::new(w), Liar::new(A::UNIT)]).with_unit::<B>()),
        Op::LiarMean => mean_calls(Mean::<A>::try_new([&Liar::<A>::new(w)])),
        Op::InnerError => record(&ErrVal::<A>(PhantomData).with_unit::<B>()),
    }
}

fn pair<A, B>(st: &mut St, an: &'static str, bn: &'static str)
where
    A: Convert<B> + 'static,
    B: UnitTag + 'static,
{
    pair_run(st, an, bn, PairFns { ratio: <A as Convert<B>>::RATIO, from_unit: A::UNIT, to_unit: B::UNIT, emit: emit::<A, B> });
}

fn pair_run(st: &mut St, an: &'static str, bn: &'static str, f: PairFns) {
    let (from, to) = (info(an), info(bn));
    if !st.pairs.insert((an, bn)) {
        eprintln!("C19: pair {an}->{bn} enumerated twice");
        std::process::exit(2);
    }
    let ratio = ref_ratio(&from, &to);
    let nontrivial = ratio != (1, 1);
    if nontrivial {
        st.nontrivial.insert((an, bn));
    }
    let emit = f.emit;
    let none = Unit::None;

    // the tags carry the CloudWatch names
    for (tag, unit) in [(&from, f.from_unit), (&to, f.to_unit)] {
        st.tick("tag-name", 1);
        if unit.name() != tag.name {
            st.v.add(format!("tag-name:{}", tag.tag), format!("tag {} has unit name `{}`, CloudWatch calls it `{}`", tag.tag, unit.name(), tag.name), json!({"tag": tag.tag, "name": unit.name()}));
        }
    }

    // the constant
    let r = f.ratio;
    let r_ref = ratio.0 as f64 / ratio.1 as f64;
    st.tick("ratio-constant", 1);
    let ratio_ok = if nontrivial { close(r, r_ref, 2.0) } else { r == 1.0 };
    if !ratio_ok {
        st.bad_ratio.insert((an, bn));
        st.v.add(
            format!("ratio:{an}->{bn}"),
            format!("<{an} as Convert<{bn}>>::RATIO = {r:e}, but one {} is {}/{} {}", from.name, ratio.0, ratio.1, to.name),
            json!({"from": an, "to": bn, "ratio": format!("{r:e}"), "reference": format!("{}/{}", ratio.0, ratio.1)}),
        );
    }

    let sampled = [
        ("Terabit", "Kilobyte", Observation::Unsigned(3)),
        ("Microsecond", "Second", Observation::Floating(1.5)),
        ("KilobytePerSecond", "MegabitPerSecond", Observation::Repeated { total: 9.0, occurrences: 3 }),
        ("None", "Percent", Observation::Unsigned(u64::MAX)),
    ];
    let alphabet = st.alphabet.clone();
    for x in &alphabet {
        let x = *x;
        let one = [x];
        for (op, kind, extra) in [
            (Op::ConvertFn, "convert-fn", false),
            (Op::Plain, "plain", false),
            (Op::PlainExtra, "plain+dimension+flags", true),
            (Op::UnitOverOption, "unit-over-option", false),
            (Op::OptionOfUnit, "option-of-unit", false),
            (Op::UnitOverDistribution, "unit-over-distribution", false),
            (Op::DistributionOfUnit, "distribution-of-unit", false),
            (Op::PrimitiveChain, "primitive-chain", false),
            (Op::ObservationChain, "observation-chain", false),
        ] {
            let calls = emit(op, &one, none);
            if op == Op::Plain && sampled.iter().any(|(a, b, v)| (*a, *b) == (an, bn) && *v == x) {
                st.samples.push(json!({"kind": "plain", "from": an, "to": bn, "reference_ratio": format!("{}/{}", ratio.0, ratio.1),
                    "written": obs_json(&x), "received": calls_json(&calls)}));
            }
            check_metric(st, kind, &from, &to, ratio, true, &one, &calls, extra, 4.0);
        }

        // Mean: a declared unit on a total/occurrences pair
        let (val, occ) = num_parts(&x);
        // a Mean starts from 0.0 and adds (so -0.0 is recorded as +0.0: the Mean's business, not the unit's)
        let as_repeated = [Observation::Repeated { total: 0.0 + val, occurrences: occ }];
        let calls = emit(Op::UnitOverMean, &one, none);
        if occ == 0 {
            expect_nothing(st, "unit-over-mean", &from, &to, &calls);
        } else {
            check_metric(st, "unit-over-mean", &from, &to, ratio, true, &as_repeated, &calls, false, 4.0);
        }
        let calls = emit(Op::MeanOfUnit, &one, none);
        if occ == 0 {
            expect_nothing(st, "mean-of-unit", &from, &to, &calls);
        } else {
            // the Mean adds the converted number to 0.0: Repeated, even when the ratio is 1
            check_metric(st, "mean-of-unit", &from, &to, ratio, false, &as_repeated, &calls, false, 4.0);
        }
        // (occurrence counts near u64::MAX would overflow the Mean's own counter when x is added
        // four times: the counter is not C19's subject)
        if occ < (1 << 60) {
            // the same mean grown step by step: 1.0, x, x, (2.0 + 3.0), x, x, nothing, (x, x)
            let total = ((((0.0 + 1.0) + val) + val) + (0.0 + 2.0 + 3.0)) + val + val + val + val;
            let calls = emit(Op::UnitOverMeanGrownStepwise, &one, none);
            check_metric(st, "unit-over-mean-grown-stepwise", &from, &to, ratio, true, &[Observation::Repeated { total, occurrences: 1 + occ + occ + 2 + occ + occ + occ + occ }], &calls, false, 8.0);
        }
        if let Observation::Repeated { total, occurrences } = x {
            if (1..=8).contains(&occurrences) {
                let part = total / occurrences as f64;
                let mut sum = 0.0f64;
                for _ in 0..occurrences {
                    sum += part;
                }
                let calls = emit(Op::UnitOverMeanFromIter, &one, none);
                check_metric(st, "unit-over-mean-from-iter", &from, &to, ratio, true, &[Observation::Repeated { total: sum, occurrences }], &calls, false, 4.0);
            }
        }
    }

    // the whole alphabet as one distribution
    let calls = emit(Op::UnitOverDistribution, &alphabet, none);
    check_metric(st, "unit-over-distribution-all", &from, &to, ratio, true, &alphabet, &calls, false, 4.0);
    let calls = emit(Op::DistributionOfUnit, &alphabet, none);
    check_metric(st, "distribution-of-unit-all", &from, &to, ratio, true, &alphabet, &calls, false, 4.0);

    // absent values stay absent
    for (op, kind) in [(Op::UnitOverNone, "unit-over-none"), (Op::NoneOfUnit, "none-of-unit"), (Op::UnitOverEmptyDistribution, "unit-over-empty-distribution"), (Op::UnitOverEmptyMean, "unit-over-empty-mean")] {
        let calls = emit(op, &[], none);
        expect_nothing(st, kind, &from, &to, &calls);
    }

    // validation: a unit on a string
    let calls = emit(Op::StringPlain, &[], none);
    expect_error(st, "string-with-unit-not-rejected".into(), format!("WithUnit<string-writing value promising {an}, {bn}>"), &calls, None);
    let calls = emit(Op::StringOption, &[], none);
    expect_error(st, "string-with-unit-not-rejected".into(), format!("WithUnit<Option<string-writing value promising {an}>, {bn}>"), &calls, None);
    let calls = emit(Op::StringDistribution, &[], none);
    expect_error(st, "string-in-distribution-with-unit-not-rejected".into(), format!("WithUnit<Distribution<string-writing value promising {an}>, {bn}>"), &calls, None);

    // validation: promised A, wrote something else
    for w in all_units() {
        let calls = emit(Op::Liar, &[], w);
        if w == f.from_unit {
            check_metric(st, "honest-custom-value", &from, &to, ratio, true, &[Observation::Unsigned(3)], &calls, false, 4.0);
            continue;
        }
        expect_error(st, format!("unit-mismatch-not-rejected:{an}->{bn}"), format!("value promising {an} wrote `{}` under WithUnit<_, {bn}>", w.name()), &calls, None);
        let calls = emit(Op::LiarDistribution, &[], w);
        expect_error(st, format!("unit-mismatch-in-distribution-not-rejected:{an}->{bn}"), format!("Distribution of a value promising {an} that wrote `{}`, under WithUnit<_, {bn}>", w.name()), &calls, None);
        for (op, pos) in [(Op::LiarLaterInDistribution, "second"), (Op::LiarInTheMiddleOfDistribution, "middle")] {
            let calls = emit(op, &[], w);
            expect_error(st, format!("unit-mismatch-in-distribution-not-rejected:{pos}-value:{an}->{bn}"), format!("Distribution whose {pos} value, promising {an}, wrote `{}` (the others are honest), under WithUnit<_, {bn}>", w.name()), &calls, None);
            st.validation_cases += 1;
        }
        st.validation_cases += 1;
        st.tick("validation", 1);
        let calls = emit(Op::LiarMean, &[], w);
        if !matches!(&calls[..], [Call::Str(s)] if s.starts_with("<Mean::try_new failed")) {
            st.v.add(format!("unit-mismatch-in-mean-not-rejected:{an}"), format!("Mean::<{an}>::try_new accepted a value that wrote `{}`", w.name()), json!({"promised": an, "wrote": w.name()}));
        }
    }
    // an error of the wrapped value stays an error
    let calls = emit(Op::InnerError, &[], none);
    expect_error(st, "inner-error-lost".into(), format!("WithUnit<value reporting its own error, {bn}> from {an}"), &calls, Some("own-error"));
}

// ------------------------------------------------------------------------------------------
// The `#[metrics(unit = ..)]` attribute, for every pair (generic struct through the real macro)
// ------------------------------------------------------------------------------------------

fn written<E: Entry>(entry: &E) -> EW {
    let mut ew = EW::default();
    entry.write(&mut ew);
    ew
}

/// `build` closes and roots one `#[metrics]` struct whose five fields all carry
/// `#[metrics(unit = <to>)]` over values promising `<from>`.
fn attr_run(st: &mut St, an: &'static str, bn: &'static str, build: &dyn Fn(Observation, Unit) -> EW) {
    let (from, to) = (info(an), info(bn));
    let (from, to) = (&from, &to);
    let ratio = ref_ratio(from, to);
    if ratio != (1, 1) {
        st.nontrivial_attr.insert((an, bn));
    }
    let wrong = Unit::Count; // no convertible source promises Count
    for x in st.alphabet.clone() {
        let ew = build(x, wrong);
        let missing = vec![Call::Str("<field not written exactly once>".into())];
        let get = |n: &str| ew.field(n).cloned().unwrap_or_else(|| missing.clone());
        check_metric(st, "attribute", from, to, ratio, true, &[x], &get("plain"), false, 4.0);
        check_metric(st, "attribute-option", from, to, ratio, true, &[x], &get("some"), false, 4.0);
        let none = ew.field("none").cloned().unwrap_or_default();
        expect_nothing(st, "attribute-none", from, to, &none);
        expect_error(st, "attribute:string-with-unit-not-rejected".into(), format!("#[metrics(unit = {})] on a string-writing value promising {}", to.tag, from.tag), &get("text"), None);
        expect_error(st, format!("attribute:unit-mismatch-not-rejected:{}->{}", from.tag, to.tag), format!("#[metrics(unit = {})] on a value promising {} that wrote `{}`", to.tag, from.tag, wrong.name()), &get("liar"), None);
    }
}

macro_rules! attr_cross {
    ($st:expr; [$($a:ident)*] x $bs:tt) => { $( attr_cross!(@row $st; $a $bs); )* };
    (@row $st:expr; $a:ident [$($b:ident)*]) => { $( {
        #[metrics]
        struct P {
            #[metrics(unit = u::$b)]
            plain: Tagged<u::$a>,
            #[metrics(unit = u::$b)]
            some: Option<Tagged<u::$a>>,
            #[metrics(unit = u::$b)]
            none: Option<Tagged<u::$a>>,
            #[metrics(unit = u::$b)]
            text: StrMetric<u::$a>,
            #[metrics(unit = u::$b)]
            liar: Liar<u::$a>,
        }
        attr_run($st, stringify!($a), stringify!($b), &|x, wrong| {
            let m = P { plain: Tagged::new(x), some: Some(Tagged::new(x)), none: None, text: StrMetric(PhantomData), liar: Liar::new(wrong) };
            written(&RootEntry::new(m.close()))
        });
    } )* };
}

/// A `format = ..` formatter that hands the value it is given to the writer unchanged: a unit
/// declared next to it has to be honoured all the same (round 14, `C19l`).
struct AsIs;

impl<T: metrique_writer_core::Value> metrique_writer_core::value::ValueFormatter<T, metrique_writer_core::value::NotLifted> for AsIs {
    fn format_value(writer: impl ValueWriter, value: &T) {
        value.write(writer)
    }
}

// concrete (non generic) structs, written the way users write them, through `metrique::unit`
#[metrics]
struct AttrConcrete {
    // a unit together with a value formatter
    #[metrics(unit = mu::Second, format = AsIs)]
    dur_s_fmt: Duration,
    #[metrics(format = AsIs, unit = mu::Megabyte)]
    size_fmt: u64,
    #[metrics(unit = mu::Kilobyte, format = AsIs)]
    tbit_as_kb_fmt: Tagged<mu::Terabit>,
    #[metrics(format = AsIs)]
    dur_default_fmt: Duration,
    #[metrics(unit = mu::Kilobyte)]
    tbit_as_kb: Tagged<mu::Terabit>,
    #[metrics(unit = mu::Second)]
    us_as_s: Tagged<mu::Microsecond>,
    #[metrics(unit = mu::MegabitPerSecond)]
    kbyteps_as_mbitps: Tagged<mu::KilobytePerSecond>,
    #[metrics(unit = mu::Megabyte)]
    size: u64,
    #[metrics(unit = mu::Percent)]
    pct: f64,
    #[metrics(unit = mu::Count)]
    n: Option<u32>,
    #[metrics(unit = mu::GigabitPerSecond)]
    flag: bool,
    dur_default: Duration,
    dur_default_opt: Option<Duration>,
    #[metrics(unit = mu::Second)]
    dur_s: Duration,
    #[metrics(unit = mu::Millisecond)]
    dur_ms: Duration,
    #[metrics(unit = mu::Microsecond)]
    dur_us: Option<Duration>,
    // a unit together with `no_close` (the field is written as it is, not closed first)
    #[metrics(unit = mu::Second, no_close)]
    dur_s_no_close: Duration,
    #[metrics(unit = mu::Kilobyte, no_close)]
    tbit_as_kb_no_close: Tagged<mu::Terabit>,
    #[metrics(unit = mu::Megabyte, no_close)]
    size_no_close: u64,
}

fn attr_concrete(st: &mut St) {
    let alphabet = st.alphabet.clone();
    let durations = st.durations.clone();
    for (ix, x) in alphabet.iter().enumerate() {
        let x = *x;
        let d = durations[ix % durations.len()];
        let (val, _) = num_parts(&x);
        let n = match x {
            Observation::Unsigned(n) => n,
            _ => 17,
        };
        let m = AttrConcrete {
            dur_s_fmt: d,
            size_fmt: n,
            tbit_as_kb_fmt: Tagged::new(x),
            dur_default_fmt: d,
            tbit_as_kb: Tagged::new(x),
            us_as_s: Tagged::new(x),
            kbyteps_as_mbitps: Tagged::new(x),
            size: n,
            pct: val,
            n: Some(n as u32),
            flag: n % 2 == 1,
            dur_default: d,
            dur_default_opt: Some(d),
            dur_s: d,
            dur_ms: d,
            dur_us: Some(d),
            dur_s_no_close: d,
            tbit_as_kb_no_close: Tagged::new(x),
            size_no_close: n,
        };
        let root = RootEntry::new(m.close());
        let ew = written(&root);
        let missing = vec![Call::Str("<field not written exactly once>".into())];
        let get = |n: &str| ew.field(n).cloned().unwrap_or_else(|| missing.clone());
        for (field, a, b) in [("tbit_as_kb", "Terabit", "Kilobyte"), ("us_as_s", "Microsecond", "Second"), ("kbyteps_as_mbitps", "KilobytePerSecond", "MegabitPerSecond")] {
            let (from, to) = (info(a), info(b));
            st.nontrivial_attr.insert((from.tag, to.tag));
            check_metric(st, "attribute-concrete", &from, &to, ref_ratio(&from, &to), true, &[x], &get(field), false, 4.0);
        }
        let none = info("None");
        check_metric(st, "attribute-concrete", &none, &info("Megabyte"), (1, 1), true, &[Observation::Unsigned(n)], &get("size"), false, 4.0);
        check_metric(st, "attribute-concrete", &none, &info("Percent"), (1, 1), true, &[Observation::Floating(val)], &get("pct"), false, 4.0);
        check_metric(st, "attribute-concrete", &none, &info("Count"), (1, 1), true, &[Observation::Unsigned((n as u32) as u64)], &get("n"), false, 4.0);
        check_metric(st, "attribute-concrete", &none, &info("GigabitPerSecond"), (1, 1), true, &[Observation::Unsigned(n % 2)], &get("flag"), false, 4.0);
        check_duration(st, "attribute-duration-default", "duration-default", &[d], &info("Millisecond"), false, &get("dur_default"), 4.0);
        check_duration(st, "attribute-duration-default-option", "duration-default", &[d], &info("Millisecond"), false, &get("dur_default_opt"), 4.0);
        check_duration(st, "attribute-duration", "duration", &[d], &info("Second"), false, &get("dur_s"), 4.0);
        check_duration(st, "attribute-duration", "duration", &[d], &info("Millisecond"), false, &get("dur_ms"), 4.0);
        check_duration(st, "attribute-duration", "duration", &[d], &info("Microsecond"), false, &get("dur_us"), 4.0);
        check_duration(st, "attribute-duration-no-close", "duration", &[d], &info("Second"), false, &get("dur_s_no_close"), 4.0);
        check_duration(st, "attribute-duration-with-format", "duration", &[d], &info("Second"), false, &get("dur_s_fmt"), 4.0);
        check_duration(st, "attribute-duration-default-with-format", "duration-default", &[d], &info("Millisecond"), false, &get("dur_default_fmt"), 4.0);
        check_metric(st, "attribute-concrete-with-format", &info("Terabit"), &info("Kilobyte"), ref_ratio(&info("Terabit"), &info("Kilobyte")), true, &[x], &get("tbit_as_kb_fmt"), false, 4.0);
        check_metric(st, "attribute-concrete-with-format", &none, &info("Megabyte"), (1, 1), true, &[Observation::Unsigned(n)], &get("size_fmt"), false, 4.0);
        check_metric(st, "attribute-concrete-no-close", &info("Terabit"), &info("Kilobyte"), ref_ratio(&info("Terabit"), &info("Kilobyte")), true, &[x], &get("tbit_as_kb_no_close"), false, 4.0);
        check_metric(st, "attribute-concrete-no-close", &none, &info("Megabyte"), (1, 1), true, &[Observation::Unsigned(n)], &get("size_no_close"), false, 4.0);
    }
}

// ------------------------------------------------------------------------------------------
// Inverse conversions
// ------------------------------------------------------------------------------------------

fn there_and_back<A, B>(x: Observation) -> Vec<Call>
where
    A: Convert<B> + 'static,
    B: Convert<A> + 'static,
{
    record(&Tagged::<A>::new(x).with_unit::<B>().with_unit::<A>())
}

fn inverse<A, B>(st: &mut St, an: &'static str, bn: &'static str)
where
    A: Convert<B> + 'static,
    B: Convert<A> + 'static,
{
    inverse_run(st, an, bn, <A as Convert<B>>::RATIO, <B as Convert<A>>::RATIO, there_and_back::<A, B>);
}

fn inverse_run(st: &mut St, an: &'static str, bn: &'static str, r1: f64, r2: f64, back: fn(Observation) -> Vec<Call>) {
    let (from, to) = (info(an), info(bn));
    let key = if an <= bn { format!("roundtrip:{an}<->{bn}") } else { format!("roundtrip:{bn}<->{an}") };
    st.inverse_pairs += 1;
    st.tick("ratio-inverse", 1);
    if !((r1 * r2 - 1.0).abs() <= 2.0 * EPS) {
        st.v.add(key.clone(), format!("RATIO({an}->{bn}) * RATIO({bn}->{an}) = {:e} * {:e} = {:e}, not 1 within 2 ulp", r1, r2, r1 * r2), json!({"a": an, "b": bn, "ab": format!("{r1:e}"), "ba": format!("{r2:e}")}));
    }
    let forward = ref_ratio(&from, &to);
    let r_ref = forward.0 as f64 / forward.1 as f64;
    for x in st.alphabet.clone() {
        let calls = back(x);
        // an intermediate beyond f64, or in the subnormal range, cannot come back
        let (val, _) = num_parts(&x);
        let mid = val * r_ref;
        if forward != (1, 1) && (!mid.is_finite() || (mid != 0.0 && mid.abs() < f64::MIN_POSITIVE)) {
            st.unrepresentable += 1;
            continue;
        }
        st.tick("there-and-back", 1);
        let ok = match &calls[..] {
            [Call::Metric { obs, unit, .. }] if obs.len() == 1 && unit.name() == from.name => {
                matches!(match_obs(&expect(x, 1, 1, forward == (1, 1)), &obs[0], 4.0), Ok(_))
            }
            _ => false,
        };
        if !ok {
            st.v.add(key.clone(), format!("{} in {an}, converted to {bn} and back to {an}, arrived as {}", obs_json(&x), calls_json(&calls)), json!({"a": an, "b": bn, "value": obs_json(&x), "received": calls_json(&calls)}));
        }
    }
}

// ------------------------------------------------------------------------------------------
// std::time::Duration
// ------------------------------------------------------------------------------------------

/// the duration expressed in `to` (a time unit): nanoseconds * 1e-9 s / (num/den s)
fn duration_in(d: Duration, to: &Info) -> f64 {
    (d.as_nanos() * to.den) as f64 / (1_000_000_000u128 * to.num) as f64
}

fn check_duration(st: &mut St, kind: &str, key_prefix: &str, ds: &[Duration], to: &Info, repeated: bool, calls: &[Call], k: f64) {
    st.tick(kind, ds.len().max(1) as u64);
    let replay = || json!({"kind": kind, "durations_ns": ds.iter().map(|d| d.as_nanos().to_string()).collect::<Vec<_>>(), "expected_unit": to.name, "received": calls_json(calls)});
    let [Call::Metric { obs, unit, dims, flagged }] = calls else {
        st.v.add(format!("{key_prefix}-not-one-metric:{kind}"), format!("{kind}: expected one metric call, got {}", calls_json(calls)), replay());
        return;
    };
    if unit.name() != to.name {
        st.v.add(format!("{key_prefix}-unit{}", if key_prefix == "duration-default" { String::new() } else { format!(":{}", to.tag) }),
            format!("{kind}: a Duration was reported in `{}`, expected `{}`", unit.name(), to.name), replay());
    }
    if !dims.is_empty() || *flagged || obs.len() != ds.len() {
        st.v.add(format!("{key_prefix}-shape:{kind}"), format!("{kind}: unexpected dimensions, flags or number of observations"), replay());
        return;
    }
    for (d, g) in ds.iter().zip(obs) {
        let exp = Exp::Approx { v: duration_in(*d, to), occ: if repeated { Some(1) } else { None } };
        match match_obs(&exp, g, k) {
            Ok(_) => {}
            Err(Mismatch::Occurrences(m)) | Err(Mismatch::Value(m)) => st.v.add(
                format!("{key_prefix}-value{}", if key_prefix == "duration-default" { String::new() } else { format!(":{}", to.tag) }),
                format!("{kind}: {} ns reported in {}: {m}", d.as_nanos(), to.name),
                replay(),
            ),
        }
    }
}

fn duration_default(st: &mut St) {
    let ms = info("Millisecond");
    let ds = st.durations.clone();
    st.tick("duration-promise", 1);
    if <<Duration as MetricValue>::Unit as UnitTag>::UNIT.name() != "Milliseconds" {
        st.v.add("duration-default-unit", "Duration promises a unit other than Milliseconds", json!({"promised": <<Duration as MetricValue>::Unit as UnitTag>::UNIT.name()}));
    }
    for d in &ds {
        let d = *d;
        let calls = record(&d);
        if st.samples.len() < 10 && d == Duration::new(1, 500_000_000) {
            st.samples.push(json!({"kind": "duration-default", "nanoseconds": d.as_nanos().to_string(), "received": calls_json(&calls)}));
        }
        check_duration(st, "duration-plain", "duration-default", &[d], &ms, false, &calls, 4.0);
        check_duration(st, "duration-option", "duration-default", &[d], &ms, false, &record(&Some(d)), 4.0);
        check_duration(st, "duration-reference", "duration-default", &[d], &ms, false, &record(&&d), 4.0);
        check_duration(st, "duration-distribution", "duration-default", &[d], &ms, false, &record(&Distribution::<Duration>::from_iter([d])), 4.0);
        match Mean::try_new([&d]) {
            Ok(mean) => check_duration(st, "duration-mean", "duration-default", &[d], &ms, true, &record(&mean), 4.0),
            Err(e) => st.v.add("duration-mean-rejected", format!("Mean::try_new rejected a Duration: {e}"), json!({"ns": d.as_nanos().to_string()})),
        }
    }
    check_duration(st, "duration-distribution-all", "duration-default", &ds, &ms, false, &record(&Distribution::<Duration>::from_iter(ds.iter().copied())), 4.0);
    st.tick("duration-none", 1);
    if !record(&Option::<Duration>::None).is_empty() {
        st.v.add("duration-none-written", "Option::<Duration>::None wrote something", json!({}));
    }
}

fn duration_as<M, T>(st: &mut St, _an: &'static str, tn: &'static str)
where
    u::Millisecond: Convert<T>,
    T: UnitTag + 'static,
{
    let to = info(tn);
    let ds = st.durations.clone();
    for d in &ds {
        let d = *d;
        let calls = record(&d.with_unit::<T>());
        if st.samples.len() < 10 && d == Duration::new(1, 500_000_000) && tn == "Microsecond" {
            st.samples.push(json!({"kind": "duration-as", "declared": tn, "nanoseconds": d.as_nanos().to_string(), "received": calls_json(&calls)}));
        }
        check_duration(st, "duration-as", "duration", &[d], &to, false, &calls, 4.0);
        check_duration(st, "duration-as-from-impl", "duration", &[d], &to, false, &record(&WithUnit::<Duration, T>::from(d)), 4.0);
        check_duration(st, "duration-option-as", "duration", &[d], &to, false, &record(&Some(d).with_unit::<T>()), 4.0);
        check_duration(st, "duration-distribution-as", "duration", &[d], &to, false, &record(&Distribution::<Duration>::from_iter([d]).with_unit::<T>()), 4.0);
        check_duration(st, "duration-distribution-of-as", "duration", &[d], &to, false, &record(&Distribution::<WithUnit<Duration, T>>::from_iter([d.with_unit::<T>()])), 4.0);
        match Mean::try_new([&d]) {
            Ok(mean) => check_duration(st, "duration-mean-as", "duration", &[d], &to, true, &record(&mean.with_unit::<T>()), 4.0),
            Err(_) => {}
        }
    }
    check_duration(st, "duration-distribution-all-as", "duration", &ds, &to, false, &record(&Distribution::<Duration>::from_iter(ds.iter().copied()).with_unit::<T>()), 4.0);
}

fn duration_chain<T1, T2>(st: &mut St, _an: &'static str, bn: &'static str)
where
    u::Millisecond: Convert<T1>,
    T1: Convert<T2> + 'static,
    T2: UnitTag + 'static,
{
    // two conversions: two more roundings of the ratio and of the product than the single step
    let to = info(bn);
    for d in st.durations.clone() {
        check_duration(st, "duration-as-as", "duration", &[d], &to, false, &record(&d.with_unit::<T1>().with_unit::<T2>()), 8.0);
    }
}

// ------------------------------------------------------------------------------------------
// The As* aliases and the unit-less primitives
// ------------------------------------------------------------------------------------------

fn alias_one(st: &mut St, alias: &'static str, tag: &'static str, calls: Vec<Call>) {
    let to = info(tag);
    st.tick("alias", 1);
    let ok = matches!(&calls[..], [Call::Metric { obs, unit, .. }] if unit.name() == to.name && obs[..] == [Observation::Unsigned(7)]);
    if !ok {
        st.v.add(format!("alias:{alias}"), format!("{alias}<u64>::from(7) should write 7 with unit `{}`, wrote {}", to.name, calls_json(&calls)), json!({"alias": alias, "received": calls_json(&calls)}));
    }
}

fn aliases(st: &mut St) {
    macro_rules! al { ($($alias:ident => $tag:ident),* $(,)?) => { $( { let v: u::$alias<u64> = 7u64.into(); alias_one(st, stringify!($alias), stringify!($tag), record(&v)); } )* }; }
    al!(AsNone => None, AsCount => Count, AsPercent => Percent,
        AsSeconds => Second, AsMilliseconds => Millisecond, AsMicroseconds => Microsecond,
        AsBytes => Byte, AsKilobytes => Kilobyte, AsMegabytes => Megabyte, AsGigabytes => Gigabyte, AsTerabytes => Terabyte,
        AsBits => Bit, AsKilobits => Kilobit, AsMegabits => Megabit, AsGigabits => Gigabit, AsTerabits => Terabit,
        AsBytesPerSecond => BytePerSecond, AsKilobytesPerSecond => KilobytePerSecond, AsMegabytesPerSecond => MegabytePerSecond,
        AsGigabytesPerSecond => GigabytePerSecond, AsTerabytesPerSecond => TerabytePerSecond,
        AsBitsPerSecond => BitPerSecond, AsKilobitsPerSecond => KilobitPerSecond, AsMegabitsPerSecond => MegabitPerSecond,
        AsGigabitsPerSecond => GigabitPerSecond, AsTerabitsPerSecond => TerabitPerSecond);
}

/// unit::None -> B for the remaining primitive types (u64 / f64 / Observation are covered in `pair`)
fn small_primitives<A, B>(st: &mut St, _an: &'static str, bn: &'static str)
where
    B: UnitTag + 'static,
{
    let (from, to) = (info("None"), info(bn));
    let mut go = |kind: &str, orig: Observation, calls: Vec<Call>| check_metric(st, kind, &from, &to, (1, 1), true, &[orig], &calls, false, 4.0);
    for n in [0u8, 1, u8::MAX] {
        go("primitive-u8", Observation::Unsigned(n as u64), record(&n.with_unit::<B>()));
    }
    for n in [0u16, 1000, u16::MAX] {
        go("primitive-u16", Observation::Unsigned(n as u64), record(&n.with_unit::<B>()));
    }
    for n in [0u32, 1000, u32::MAX] {
        go("primitive-u32", Observation::Unsigned(n as u64), record(&n.with_unit::<B>()));
    }
    for n in [0usize, 1000, usize::MAX] {
        go("primitive-usize", Observation::Unsigned(n as u64), record(&n.with_unit::<B>()));
    }
    for b in [false, true] {
        go("primitive-bool", Observation::Unsigned(b as u64), record(&b.with_unit::<B>()));
    }
    for f in [0.0f32, 1.5, -2.5, f32::MAX] {
        go("primitive-f32", Observation::Floating(f as f64), record(&f.with_unit::<B>()));
    }
}

// ------------------------------------------------------------------------------------------

fn alphabet(tier: Tier) -> Vec<Observation> {
    use Observation::*;
    let mut v = vec![
        Unsigned(0),
        Unsigned(1),
        Unsigned(3),
        Unsigned(1000),
        Unsigned((1u64 << 53) + 1),
        Unsigned(u64::MAX),
        Floating(1e-9),
        Floating(1.5),
        Floating(1e300),
        Floating(-2.5),
        Repeated { total: 9.0, occurrences: 3 },
        Repeated { total: 1e300, occurrences: 2 },
    ];
    if tier == Tier::Thorough {
        for n in [2u64, 7, 255, 1024, 1_000_000, 1_000_000_000, 1_000_000_000_000, 1 << 32, (1 << 53) - 1, 1 << 53, 1 << 63, u64::MAX - 1] {
            v.push(Unsigned(n));
        }
        for f in [0.0, -0.0, f64::MIN_POSITIVE, 1e-300, 0.1, 1.0, 1e15, 1e308, f64::MAX, -1e300, 123456.789e-3] {
            v.push(Floating(f));
        }
        for (total, occurrences) in [(0.0, 0u64), (5.0, 0), (-2.5, 1), (1.0, u64::MAX), (f64::MAX, 7), (0.3, 8)] {
            v.push(Repeated { total, occurrences });
        }
    }
    v
}

fn durations(tier: Tier) -> Vec<Duration> {
    let mut v = vec![
        Duration::ZERO,
        Duration::from_nanos(1),
        Duration::from_micros(1),
        Duration::from_millis(1),
        Duration::from_millis(42),
        Duration::new(1, 500_000_000),
        Duration::from_secs(1000),
        Duration::from_nanos((1u64 << 53) + 1),
        Duration::MAX,
    ];
    if tier == Tier::Thorough {
        v.extend([
            Duration::from_nanos(999),
            Duration::from_nanos(999_999_999),
            Duration::new(1, 1),
            Duration::from_secs(86_400 * 365),
            Duration::new((1u64 << 53) + 1, 1),
            Duration::new(u64::MAX, 0),
            Duration::from_secs_f64(0.1),
            Duration::new(123_456_789, 123_456_789),
        ]);
    }
    v
}

/// the `#[metrics(unit = ..)]` attribute for every pair: one real macro expansion per pair
fn attribute_pairs(st: &mut St) {
    attr_cross!(st; [Second Millisecond Microsecond] x [Second Millisecond Microsecond]);
    // a representative part of the 400 bit/byte pairs (each expansion of the real macro costs
    // about a second of compile time): two full rows and two full columns of the matrix, which
    // puts every one of the 20 tags in the source and in the target position at least twice
    attr_cross!(st; [Terabit KilobytePerSecond] x
        [Byte Kilobyte Megabyte Gigabyte Terabyte Bit Kilobit Megabit Gigabit Terabit
         BytePerSecond KilobytePerSecond MegabytePerSecond GigabytePerSecond TerabytePerSecond
         BitPerSecond KilobitPerSecond MegabitPerSecond GigabitPerSecond TerabitPerSecond]);
    attr_cross!(st;
        [Byte Kilobyte Megabyte Gigabyte Terabyte Bit Kilobit Megabit Gigabit
         BytePerSecond MegabytePerSecond GigabytePerSecond TerabytePerSecond
         BitPerSecond KilobitPerSecond MegabitPerSecond GigabitPerSecond TerabitPerSecond]
        x [Kilobyte MegabitPerSecond]);
    attr_cross!(st; [None] x
        [None Count Percent Second Millisecond Microsecond
         Byte Kilobyte Megabyte Gigabyte Terabyte Bit Kilobit Megabit Gigabit Terabit
         BytePerSecond KilobytePerSecond MegabytePerSecond GigabytePerSecond TerabytePerSecond
         BitPerSecond KilobitPerSecond MegabitPerSecond GigabitPerSecond TerabitPerSecond]);
}

// ---- units declared on fields of `#[aggregate(direct)]` structs, however the field's
// `#[metrics(..)]` options are spread over attributes
mod aggregated_units {
    use metrique::unit::{Microsecond, Second};
    use metrique::unit_of_work::metrics;
    use metrique_aggregation::aggregate;
    use metrique_aggregation::aggregator::Aggregate;
    use metrique_aggregation::value::Sum;
    use std::time::Duration;

    #[aggregate(direct)]
    #[metrics]
    #[derive(Clone)]
    pub struct Calls {
        #[aggregate(strategy = Sum)]
        #[metrics(name = "one_attr", unit = Second)]
        pub a: Duration,
        #[aggregate(strategy = Sum)]
        #[metrics(name = "name_then_unit")]
        #[metrics(unit = Second)]
        pub b: Duration,
        #[aggregate(strategy = Sum)]
        #[metrics(unit = Microsecond)]
        #[metrics(name = "unit_then_name")]
        pub c: Duration,
        #[aggregate(strategy = Sum)]
        pub plain: Duration,
    }

    #[metrics]
    pub struct Request {
        #[metrics(flatten)]
        pub calls: Aggregate<Calls>,
    }

    /// (name, unit as written by the entry, value) of every metric of the aggregated entry
    pub fn observe(durations_ms: &[u64]) -> Vec<(String, String, f64)> {
        let mut r = Request { calls: Aggregate::default() };
        for ms in durations_ms {
            let d = Duration::from_millis(*ms);
            r.calls.insert_direct(Calls { a: d, b: d, c: d, plain: d });
        }
        let e = metrique_writer::test_util::test_metric(r);
        let mut v: Vec<(String, String, f64)> = e.metrics.iter().map(|(k, m)| (k.clone(), format!("{:?}", m.unit), m.as_f64())).collect();
        v.sort_by(|x, y| x.0.cmp(&y.0));
        v
    }
}

fn aggregated_units(v: &mut Violations) -> u64 {
    let mut n = 0;
    for ds in [vec![1500u64], vec![1500, 2500], vec![1, 2, 3997]] {
        n += 1;
        let total_ms: u64 = ds.iter().sum();
        let got = aggregated_units::observe(&ds);
        let want = [("name_then_unit", "Second", total_ms as f64 / 1e3), ("one_attr", "Second", total_ms as f64 / 1e3), ("plain", "Millisecond", total_ms as f64), ("unit_then_name", "Microsecond", total_ms as f64 * 1e3)];
        for (name, unit, value) in want {
            let found = got.iter().find(|g| g.0 == name);
            let ok = matches!(found, Some((_, u, x)) if u.contains(unit) && (x - value).abs() <= value.abs() * 1e-9);
            if !ok {
                v.add(
                    format!("aggregate-direct:declared-unit:{name}"),
                    format!("#[aggregate(direct)] field `{name}` (durations {ds:?} ms summed): expected {value} in {unit}s, the aggregated entry wrote {found:?}"),
                    json!({"durations_ms": ds, "field": name, "expected_unit": unit, "expected_value": value, "written": format!("{got:?}")}),
                );
            }
        }
    }
    n
}

fn main() {
    let mut rep = Report::from_args("C19", "exploration");
    let tier = rep.tier;
    let agg_cases = aggregated_units(&mut rep.violations);
    rep.set("aggregate_direct_unit_cases", agg_cases);
    let mut st = St {
        tier,
        v: Violations::default(),
        alphabet: alphabet(tier),
        durations: durations(tier),
        evals: 0,
        by_kind: BTreeMap::new(),
        pairs: BTreeSet::new(),
        nontrivial: BTreeSet::new(),
        nontrivial_attr: BTreeSet::new(),
        bad_ratio: BTreeSet::new(),
        inverse_pairs: 0,
        no_inverse: Vec::new(),
        unrepresentable: 0,
        validation_cases: 0,
        samples: Vec::new(),
    };
    let _ = st.tier;

    // which ordered pairs of the 26 tags are convertible at all (measured)
    let mut matrix: Vec<(&'static str, &'static str, bool)> = Vec::new();
    probe_matrix!(matrix;
        [None Count Percent Second Millisecond Microsecond
         Byte Kilobyte Megabyte Gigabyte Terabyte Bit Kilobit Megabit Gigabit Terabit
         BytePerSecond KilobytePerSecond MegabytePerSecond GigabytePerSecond TerabytePerSecond
         BitPerSecond KilobitPerSecond MegabitPerSecond GigabitPerSecond TerabitPerSecond]
        x
        [None Count Percent Second Millisecond Microsecond
         Byte Kilobyte Megabyte Gigabyte Terabyte Bit Kilobit Megabit Gigabit Terabit
         BytePerSecond KilobytePerSecond MegabytePerSecond GigabytePerSecond TerabytePerSecond
         BitPerSecond KilobitPerSecond MegabitPerSecond GigabitPerSecond TerabitPerSecond]);
    if matrix.len() != TABLE.len() * TABLE.len() {
        eprintln!("C19: probe matrix has {} cells, expected {}", matrix.len(), TABLE.len() * TABLE.len());
        std::process::exit(2);
    }

    // every convertible pair
    cross!(pair, &mut st; [Second Millisecond Microsecond] x [Second Millisecond Microsecond]);
    let time_pairs = st.pairs.len();
    cross!(pair, &mut st;
        [Byte Kilobyte Megabyte Gigabyte Terabyte Bit Kilobit Megabit Gigabit Terabit
         BytePerSecond KilobytePerSecond MegabytePerSecond GigabytePerSecond TerabytePerSecond
         BitPerSecond KilobitPerSecond MegabitPerSecond GigabitPerSecond TerabitPerSecond]
        x
        [Byte Kilobyte Megabyte Gigabyte Terabyte Bit Kilobit Megabit Gigabit Terabit
         BytePerSecond KilobytePerSecond MegabytePerSecond GigabytePerSecond TerabytePerSecond
         BitPerSecond KilobitPerSecond MegabitPerSecond GigabitPerSecond TerabitPerSecond]);
    let bit_pairs = st.pairs.len() - time_pairs;
    cross!(pair, &mut st; [None] x
        [None Count Percent Second Millisecond Microsecond
         Byte Kilobyte Megabyte Gigabyte Terabyte Bit Kilobit Megabit Gigabit Terabit
         BytePerSecond KilobytePerSecond MegabytePerSecond GigabytePerSecond TerabytePerSecond
         BitPerSecond KilobitPerSecond MegabitPerSecond GigabitPerSecond TerabitPerSecond]);
    let none_pairs = st.pairs.len() - time_pairs - bit_pairs;
    cross!(small_primitives, &mut st; [None] x
        [None Count Percent Second Millisecond Microsecond
         Byte Kilobyte Megabyte Gigabyte Terabyte Bit Kilobit Megabit Gigabit Terabit
         BytePerSecond KilobytePerSecond MegabytePerSecond GigabytePerSecond TerabytePerSecond
         BitPerSecond KilobitPerSecond MegabitPerSecond GigabitPerSecond TerabitPerSecond]);

    // inverses, wherever both directions exist
    cross!(inverse, &mut st; [Second Millisecond Microsecond] x [Second Millisecond Microsecond]);
    cross!(inverse, &mut st;
        [Byte Kilobyte Megabyte Gigabyte Terabyte Bit Kilobit Megabit Gigabit Terabit
         BytePerSecond KilobytePerSecond MegabytePerSecond GigabytePerSecond TerabytePerSecond
         BitPerSecond KilobitPerSecond MegabitPerSecond GigabitPerSecond TerabitPerSecond]
        x
        [Byte Kilobyte Megabyte Gigabyte Terabyte Bit Kilobit Megabit Gigabit Terabit
         BytePerSecond KilobytePerSecond MegabytePerSecond GigabytePerSecond TerabytePerSecond
         BitPerSecond KilobitPerSecond MegabitPerSecond GigabitPerSecond TerabitPerSecond]);
    cross!(inverse, &mut st; [None] x [None]);

    // the convertible set, measured, against the enumeration and the oracle
    let mut convertible = 0u64;
    let mut cross_dimension = Vec::new();
    for (a, b, yes) in &matrix {
        let (from, to) = (info(a), info(b));
        st.tick("convertible-matrix", 1);
        if *yes {
            convertible += 1;
            if !st.pairs.contains(&(*a, *b)) {
                st.v.add(format!("pair-not-enumerated:{a}->{b}"), format!("{a}: Convert<{b}> is implemented but the check does not enumerate it"), json!({"from": a, "to": b}));
            }
            match oracle_convertible(&from, &to) {
                Convertible::No => st.v.add(format!("convertible-across-dimensions:{a}->{b}"), format!("{a} ({:?}) converts to {b} ({:?}): no factor can preserve the quantity", from.dim, to.dim), json!({"from": a, "to": b})),
                Convertible::Undetermined => cross_dimension.push(format!("{a}->{b}")),
                Convertible::Yes => {}
            }
            if !matrix.iter().any(|(x, y, z)| x == b && y == a && *z) {
                st.no_inverse.push(format!("{a}->{b}"));
            }
        } else {
            if st.pairs.contains(&(*a, *b)) {
                eprintln!("C19: probe says {a}->{b} is not convertible but it was instantiated");
                std::process::exit(2);
            }
            if oracle_convertible(&from, &to) == Convertible::Yes {
                st.v.add(format!("not-convertible:{a}->{b}"), format!("{a} and {b} measure the same kind of quantity but {a}: Convert<{b}> is missing"), json!({"from": a, "to": b}));
            }
        }
    }

    // durations
    duration_default(&mut st);
    cross!(duration_as, &mut st; [Millisecond] x [Second Millisecond Microsecond]);
    cross!(duration_chain, &mut st; [Second Millisecond Microsecond] x [Second Millisecond Microsecond]);

    aliases(&mut st);
    attr_concrete(&mut st);
    attribute_pairs(&mut st);

    let St { v, evals, by_kind, pairs, nontrivial, nontrivial_attr, inverse_pairs, no_inverse, unrepresentable, validation_cases, samples, alphabet, durations, .. } = st;
    rep.violations.merge(v);
    for s in samples {
        rep.sample(s);
    }
    rep.set("evaluations", evals);
    rep.set("evaluations_by_kind", json!(by_kind));
    rep.set("distinct_nontrivial", nontrivial.len() as u64);
    rep.set("distinct_nontrivial_through_attribute", nontrivial_attr.len() as u64);
    rep.set("rule", "every ordered pair (A,B) of the 26 unit tags with `A: Convert<B>` implemented (set measured by a compile-time probe over the full 26x26 matrix and required to equal the enumerated set) x the whole value alphabet x every attachment kind listed in evaluations_by_kind, each write observed by a recording ValueWriter and compared with an independent rational scale table; distinct_nontrivial = distinct enumerated (from,to) pairs whose reference ratio differs from 1");
    rep.set("exhaustive", true);
    rep.set("unit_tags", TABLE.iter().map(|x| json!({"tag": x.tag, "name": x.name, "base_units": format!("{}/{}", x.num, x.den)})).collect::<Vec<_>>());
    rep.set("pair_count", pairs.len() as u64);
    rep.set("pairs_by_family", json!({"time": time_pairs, "bit_byte_and_per_second": bit_pairs, "from_None": none_pairs}));
    rep.set("convertible_cells_of_26x26_matrix", convertible);
    rep.set("pairs_with_inverse_checked", inverse_pairs);
    rep.set("pairs_without_inverse_impl", no_inverse.len() as u64);
    rep.set("size_rate_cross_pairs_checked_numerically", cross_dimension.len() as u64);
    rep.set("unrepresentable_results_skipped", unrepresentable);
    rep.set("validation_cases", validation_cases);
    rep.set("alphabet", alphabet.iter().map(obs_json).collect::<Vec<_>>());
    rep.set("durations_ns", durations.iter().map(|d| d.as_nanos().to_string()).collect::<Vec<_>>());
    rep.assume("prefixes are decimal (kilo = 10^3 .. tera = 10^12, milli = 10^-3, micro = 10^-6) and one byte is 8 bits, as documented on PositiveScale / NegativeScale; CloudWatch itself does not define the prefixes");
    rep.assume("a unitless number keeps its value when a unit is attached (documented on Convert for unit::None)");
    rep.assume("number equality: when the reference ratio is 1 the observation must be bit-identical (u64::MAX stays Unsigned(u64::MAX)); otherwise |emitted - reference| <= 4 * f64::EPSILON * |reference| where the reference is computed from exact integers (u128) with at most two roundings; 8 * EPSILON for a Duration converted twice; an emitted Unsigned is accepted when numerically equal");
    rep.assume("results whose exact value exceeds f64::MAX are only required not to be finite, and a there-and-back conversion whose intermediate overflows or falls in the subnormal range is not compared (both counted in unrepresentable_results_skipped); a subnormal result is compared with an absolute slack of two least subnormals");
    rep.assume("the 200 conversions between a data size and a data rate (e.g. Byte -> BytePerSecond) are implemented by the repository because both share one private scale table; whether they should exist is not determined by the property; they are checked numerically (bits against bits per second) and counted in size_rate_cross_pairs_checked_numerically");
    rep.assume("#[metrics(unit = ..)] on a String field is rejected at compile time (String is not a MetricValue), so the string clause is exercised with a MetricValue that writes a string");
    rep.assume("user-defined UnitTag types (an open set: unit::None converts to any of them) are outside the enumeration");
    rep.finish();
}
