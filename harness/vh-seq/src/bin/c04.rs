//! C04 (explicit-state part) - the flush-waker counter protocol: the REAL `WakerTracker`
//! (through the cfg(metrique_verif) `__verif_waker` accessor) is driven as the transition
//! function of a search over pushes, flush requests, pops and the calls the writer loop can make
//! (Drained / HitDeadline), against an abstract displace-oldest ring buffer. This is where the
//! clause "completes after a bounded amount of writer progress even if producers never stop
//! appending and the queue never becomes empty" is decided (a never-idle producer cannot be
//! expressed in a terminating thread harness).
use metrique_writer::sink::__verif_waker::{Handle, Request, Requester, Status};
use serde_json::json;
use std::cell::Cell;
use std::collections::{HashMap, VecDeque};
use vh_common::report::Violations;
use vh_common::{Report, par};

#[derive(Clone, Copy, Debug, PartialEq, Eq, Hash, PartialOrd, Ord)]
enum Ev {
    Push,
    Request,
    Pop,
    /// the writer's drain loop ends because it found the queue empty: status `Drained` and the
    /// count are latched now; the call to handle_waiting_wakers is a later event, so pushes and
    /// flush requests can arrive in between
    DrainEndsEmpty,
    /// handle_waiting_wakers(latched status, latched count). The argument says what arrives while
    /// the tracker's flush callback (stream.flush()) runs: 0 nothing, 1 a push followed by a flush
    /// request, 2 a flush request only
    Call(u8),
    /// push until the queue is full (a macro step, so that large capacities are reachable)
    Fill,
    /// 32 pops with a producer re-filling the queue after each (it never becomes empty)
    Burst32,
    /// the drain loop's deadline check (every 32 pops) fires: status HitDeadline is latched
    DrainHitsDeadline,
}

#[derive(Clone, Debug)]
struct Req {
    /// ids that were in the queue when the request was made
    pending_ids: Vec<u64>,
    collected: bool,
    pops_since_collected: u64,
    calls_since_collected: u64,
    complete: bool,
}

struct World {
    cap: usize,
    h: Handle,
    queue: VecDeque<u64>,
    next_id: u64,
    pops_since_call: usize,
    /// (drained?, count) latched by the end of the drain loop, consumed by the next Call
    latched: Option<(bool, usize)>,
    reqs: Vec<(Req, Request)>,
    flushes: u64,
}

impl World {
    fn new(cap: usize) -> World {
        World { cap, h: Handle::new(), queue: VecDeque::new(), next_id: 0, pops_since_call: 0, latched: None, reqs: Vec::new(), flushes: 0 }
    }
    fn enabled(&self, max_reqs: usize) -> Vec<Ev> {
        let mut v = vec![Ev::Push];
        if self.queue.len() + 1 < self.cap {
            v.push(Ev::Fill);
        }
        if self.reqs.iter().filter(|(r, _)| !r.complete).count() < max_reqs {
            v.push(Ev::Request);
        }
        match self.latched {
            // the drain loop has ended: the writer's next step is the call
            Some(_) => {
                v.push(Ev::Call(0));
                if self.reqs.iter().filter(|(r, _)| !r.complete).count() < max_reqs {
                    v.push(Ev::Call(1));
                    v.push(Ev::Call(2));
                }
            }
            None => {
                if !self.queue.is_empty() {
                    v.push(Ev::Pop);
                    if self.pops_since_call < 64 {
                        v.push(Ev::Burst32);
                    }
                    // the real drain loop looks at the clock after every 32nd pop
                    if self.pops_since_call > 0 && self.pops_since_call % 32 == 0 {
                        v.push(Ev::DrainHitsDeadline);
                    }
                } else {
                    v.push(Ev::DrainEndsEmpty);
                }
            }
        }
        v
    }
    fn pop_one(&mut self) {
        if let Some(id) = self.queue.pop_front() {
            for (r, _) in &mut self.reqs {
                r.pending_ids.retain(|x| *x != id);
                if r.collected && !r.complete {
                    r.pops_since_collected += 1;
                }
            }
            self.pops_since_call += 1;
        }
    }
    fn push_one(&mut self) {
        if self.queue.len() == self.cap {
            let id = self.queue.pop_front().unwrap(); // displaced by overflow
            for (r, _) in &mut self.reqs {
                r.pending_ids.retain(|x| *x != id);
            }
        }
        self.queue.push_back(self.next_id);
        self.next_id += 1;
    }
    /// returns a violation (key, text) if an invariant broke at this step
    fn apply(&mut self, ev: Ev) -> Option<(String, String)> {
        match ev {
            Ev::Push => {
                self.push_one();
                None
            }
            Ev::Request => {
                let rq = self.h.request_flush();
                self.add_request(rq);
                None
            }
            Ev::Pop => {
                self.pop_one();
                None
            }
            Ev::Fill => {
                while self.queue.len() < self.cap {
                    self.push_one();
                }
                None
            }
            Ev::DrainEndsEmpty => {
                self.latched = Some((true, std::mem::take(&mut self.pops_since_call)));
                None
            }
            Ev::DrainHitsDeadline => {
                self.latched = Some((false, std::mem::take(&mut self.pops_since_call)));
                None
            }
            Ev::Call(inject) => {
                let (drained, count) = self.latched.take().expect("enabled only when latched");
                self.call(if drained { Status::Drained } else { Status::HitDeadline }, count, inject)
            }
            Ev::Burst32 => {
                for _ in 0..32 {
                    self.pop_one();
                    self.push_one();
                }
                None
            }
        }
    }
    fn add_request(&mut self, rq: Request) {
        self.reqs.push((Req { pending_ids: self.queue.iter().copied().collect(), collected: false, pops_since_collected: 0, calls_since_collected: 0, complete: false }, rq));
    }
    fn call(&mut self, status: Status, count: usize, inject: u8) -> Option<(String, String)> {
        let flushed = Cell::new(false);
        let waiting_before = self.h.waiting();
        let requester: Requester = self.h.requester();
        let arrived: std::cell::RefCell<Option<Request>> = std::cell::RefCell::new(None);
        self.h.handle_waiting_wakers(
            self.cap,
            || {
                // stream.flush() is running: producers are free to append and to request flushes
                flushed.set(true);
                if inject >= 1 {
                    *arrived.borrow_mut() = Some(requester.request_flush());
                }
            },
            status,
            count,
        );
        // book-keeping for what arrived during the flush (only if the callback ran)
        let arrived = arrived.into_inner();
        if let Some(rq) = arrived {
            if inject == 1 {
                self.push_one();
            }
            self.add_request(rq);
        }
        if flushed.get() {
            self.flushes += 1;
        }
        let mut out = None;
        // requests in the channel are collected by this call unless older ones were still waiting
        let collected_now = self.h.waiting();
        let mut newly_complete = 0;
        for (r, rq) in &mut self.reqs {
            if r.complete {
                continue;
            }
            let done = rq.is_complete();
            if done {
                newly_complete += 1;
                r.complete = true;
                // S1: everything pushed before the request has left the queue, flushed afterwards
                if !r.pending_ids.is_empty() {
                    out = Some(("S1:completed-with-entries-still-queued".to_string(), format!("a flush request completed while entries {:?} appended before it are still in the queue", r.pending_ids)));
                }
                if !flushed.get() {
                    out = out.or(Some(("S1:completed-without-stream-flush".to_string(), "a flush request completed in a call that did not flush the stream".to_string())));
                }
            } else if r.collected {
                r.calls_since_collected += 1;
            }
        }
        // S2: a Drained call completes every request that had been collected before it
        if status == Status::Drained && waiting_before > 0 && newly_complete < waiting_before {
            out = out.or(Some(("S2:drained-call-left-collected-request-waiting".to_string(), format!("{waiting_before} requests were waiting, the queue was drained, only {newly_complete} completed"))));
        }
        // mark the ones collected by this call
        let mut uncollected: Vec<&mut Req> = self.reqs.iter_mut().map(|(r, _)| r).filter(|r| !r.complete && !r.collected).collect();
        if collected_now > 0 && waiting_before == newly_complete {
            for r in uncollected.iter_mut() {
                r.collected = true;
            }
        } else if !uncollected.is_empty() && collected_now == 0 {
            out = out.or(Some(("L1:request-not-collected".to_string(), "a call returned with requests in the channel but none waiting".to_string())));
        }
        // L1: bounded response
        for (r, _) in &self.reqs {
            if !r.complete && r.collected && (r.pops_since_collected as usize >= self.cap + 96 || r.calls_since_collected > (self.cap as u64 + 2)) {
                out = out.or(Some(("L1:flush-not-completed-after-bounded-progress".to_string(), format!("a collected flush request is still pending after {} pops and {} calls (capacity {})", r.pops_since_collected, r.calls_since_collected, self.cap))));
            }
        }
        // the writer must not park while a collected request waits
        let waiting = self.reqs.iter().any(|(r, _)| !r.complete && r.collected);
        if waiting != self.h.will_progress_on_drained_queue() {
            out = out.or(Some(("will-progress-flag-wrong".to_string(), format!("will_progress_on_drained_queue() = {} but collected requests waiting = {waiting}", !waiting))));
        }
        out
    }
    fn key(&self) -> (usize, usize, Option<(bool, usize)>, usize, usize, Vec<(Vec<u64>, bool, u64, bool)>) {
        let base = self.queue.front().copied().unwrap_or(self.next_id);
        (
            self.queue.len(),
            self.pops_since_call,
            self.latched,
            self.h.waiting(),
            self.h.entries_before_wake(),
            self.reqs.iter().filter(|(r, _)| !r.complete).map(|(r, _)| (r.pending_ids.iter().map(|x| x - base).collect(), r.collected, r.pops_since_collected, r.complete)).collect(),
        )
    }
}

#[derive(Default)]
struct St {
    states: u64,
    transitions: u64,
    completed_requests: u64,
    v: Violations,
    max_pops_to_complete: u64,
}

fn replay(cap: usize, hist: &[Ev]) -> (World, Option<(String, String)>) {
    let mut w = World::new(cap);
    let mut bad = None;
    for e in hist {
        let r = w.apply(*e);
        if bad.is_none() {
            bad = r;
        }
    }
    (w, bad)
}

fn main() {
    let mut rep = Report::from_args("C04", "model_checking");
    let depth: usize = rep.tier.pick(16, 22);
    let max_reqs = 3;
    let caps: Vec<usize> = vec![1, 2, 3, 4, 5, 6, 33];
    let states = par::for_each_index(caps.len() as u64, 1, St::default, |st, ci| {
        let cap = caps[ci as usize];
        // DFS with dedup on (canonical key -> largest remaining depth explored)
        let mut seen: HashMap<_, usize> = HashMap::new();
        let mut stack: Vec<Vec<Ev>> = vec![vec![]];
        while let Some(hist) = stack.pop() {
            let (w, _) = replay(cap, &hist);
            let remaining = depth - hist.len();
            let k = w.key();
            if let Some(r) = seen.get(&k) {
                if *r >= remaining {
                    continue;
                }
            }
            seen.insert(k, remaining);
            st.states += 1;
            if remaining == 0 {
                continue;
            }
            for ev in w.enabled(max_reqs) {
                let mut h2 = hist.clone();
                h2.push(ev);
                let (w2, bad) = replay(cap, &h2);
                st.transitions += h2.len() as u64;
                if let Some((key, what)) = bad {
                    st.v.add(format!("tracker:{key}"), format!("capacity {cap}: {what} after {h2:?}"), json!({"capacity": cap, "history": h2.iter().map(|e| format!("{e:?}")).collect::<Vec<_>>()}));
                    continue;
                }
                st.completed_requests += w2.reqs.iter().filter(|(r, _)| r.complete).count() as u64;
                for (r, _) in &w2.reqs {
                    if r.complete {
                        st.max_pops_to_complete = st.max_pops_to_complete.max(r.pops_since_collected);
                    }
                }
                stack.push(h2);
            }
        }
    });
    let (mut s, mut t, mut c, mut mp) = (0, 0, 0, 0);
    for x in states {
        s += x.states; t += x.transitions; c += x.completed_requests; mp = mp.max(x.max_pops_to_complete);
        rep.violations.merge(x.v);
    }
    rep.set("states", s);
    rep.set("transitions", t);
    rep.set("traces_validated_against_impl", s);
    rep.set("depth", depth as u64);
    rep.set("capacities", json!(caps));
    rep.set("max_outstanding_requests", max_reqs as u64);
    rep.set("histories_with_completed_requests", c);
    rep.set("max_pops_between_collection_and_completion", mp);
    rep.set("exhaustive", true);
    rep.set("explanation", "DFS with a canonical state key (queue length, pops since the last call, the real tracker's waiting count and entries_before_wake, per-request bookkeeping) over push / fill / flush-request / pop / 32-pop burst with a refilling producer / end of the drain loop (status Drained latched when the queue is empty, HitDeadline after a positive multiple of 32 pops) / the later call handle_waiting_wakers(latched status, count) with nothing, a push+request or a request arriving during its stream flush; the real WakerTracker is rebuilt by replaying the history for every transition. Invariants S1 (completion only after everything pushed before the request left the queue, with a stream flush), S2 (a Drained call completes collected requests), L1 (bounded response without the queue ever becoming empty; requests get collected), and will_progress_on_drained_queue() == 'a collected request waits'.");
    rep.sample(json!({"capacity": 2, "history": ["Fill", "Burst32", "DrainHitsDeadline", "Request", "Call(0)", "Burst32", "DrainHitsDeadline", "Call(0)"], "expect": "request collected by the first call and completed by the second although the queue never became empty"}));
    rep.assume("the abstract ring buffer (displace-oldest) stands in for crossbeam's ArrayQueue; the tracker only sees counts, as in the real writer loop");
    rep.finish();
}
