//! Part B (E3 draws): `FixedFractionSample` over every possible f32 draw, and the `SampledEmf`
//! weight choice bound to the public path through the `Counts` of real EMF output.
use crate::rates::{Inverse, TWO53_U, below_pow2, decompose, draws_below, rate_json};
use crate::script::{IdEntry, RecState, Recorder, Script, TWO24};
use metrique_writer::sample::FixedFractionSample;
use metrique_writer_core::format::Format;
use metrique_writer_core::sample::SampledFormat;
use metrique_writer_format_emf::{__verif_rate_to_n_alpha, Emf};
use serde_json::{Value, json};
use std::collections::BTreeSet;
use std::rc::Rc;
use vh_common::report::Violations;
use vh_seq::emfx::reference::{MemberP, parse_output};
use vh_seq::emfx::{EntryD, Obs, OpD, UnitD, ValD, FlagD};

pub const DRAWS: u64 = 1 << 24;
pub const CHUNK: u64 = 1 << 16;

fn pow2(k: i32) -> f32 {
    let v = 2f64.powi(k) as f32;
    assert!(v > 0.0);
    v
}
fn up(x: f32) -> f32 {
    f32::from_bits(x.to_bits() + 1)
}
fn down(x: f32) -> f32 {
    f32::from_bits(x.to_bits() - 1)
}

/// 64 rates: 1.0 and its predecessor, 2^-k with both neighbours for k = 1..=16, the region of the
/// smallest non-zero draw (2^-24), values no draw but 0 can reach, ordinary fractions.
pub fn fixed_fraction_rates() -> Vec<f32> {
    let mut v = vec![1.0, down(1.0)];
    for k in 1..=16 {
        let p = pow2(-k);
        v.extend([down(p), p, up(p)]);
    }
    v.extend([pow2(-23), down(pow2(-24)), pow2(-24), up(pow2(-24)), pow2(-25), f32::MIN_POSITIVE, f32::from_bits(1), f32::from_bits(0x007F_FFFF)]);
    v.extend([0.1, 0.3, 1.0 / 3.0, 0.75, 0.9, 0.999]);
    let set: BTreeSet<u32> = v.iter().map(|r| r.to_bits()).collect();
    assert_eq!(set.len(), v.len(), "rates are distinct");
    v
}

#[derive(Default)]
pub struct FSt {
    pub draws: u64,
    pub emitted: u64,
    pub dropped: u64,
    pub draw_equals_rate: u64,
    pub v: Violations,
}

/// one (rate, chunk of 2^16 draws): a fresh real sampler over a recording format
pub fn fixed_fraction_chunk(st: &mut FSt, rates: &[f32], index: u64) {
    let chunks = DRAWS / CHUNK;
    let rate = rates[(index / chunks) as usize];
    let first = (index % chunks) * CHUNK;
    let script = Script::default();
    let rec = Rc::new(RecState::default());
    let mut sampler = FixedFractionSample::with_rng(Recorder(rec.clone()), rate, script.clone());
    let threshold = rate as f64 * TWO24; // exact: k/2^24 <= rate  <=>  k <= rate * 2^24
    let mut sink = std::io::sink();
    for k in first..first + CHUNK {
        let k32 = k as u32;
        script.set_f32_draw(k32, (k32 ^ k32 >> 8) & 0xFF);
        let before = rec.calls.get();
        let res = sampler.format(&IdEntry { id: k, group: None, flip: false }, &mut sink);
        let emitted = rec.calls.get() - before;
        let expect = rate == 1.0 || (k as f64) <= threshold;
        st.draws += 1;
        if k as f64 == threshold { st.draw_equals_rate += 1 }
        let replay = || json!({"part": "fixed-fraction", "rate": rate_json(rate), "draw": format!("{k}/2^24"), "calls_reaching_inner_format": emitted,
            "rate_passed_on_bits": format!("0x{:08X}", rec.last_rate_bits.get())});
        if res.is_err() {
            vadd!(st.v, "fixed-fraction:error-from-infallible-inner-format", "format returned Err although the inner format cannot fail", replay());
        }
        if emitted != expect as u64 {
            let rel = if k as f64 == threshold { "draw == rate" } else if (k as f64) < threshold { "draw < rate" } else { "draw > rate" };
            vadd!(st.v, format!("fixed-fraction:emit-decision:{}", rel.replace(' ', "")), format!("rate {rate:e}, draw {k}/2^24 ({rel}): entry reached the inner format {emitted} times, expected {}", expect as u64), replay());
        }
        if emitted > 0 {
            st.emitted += 1;
            if rec.last_rate_bits.get() != rate.to_bits() {
                vadd!(st.v, "fixed-fraction:rate-passed-on", format!("configured rate {rate:e} but the inner format was handed {:e}", f32::from_bits(rec.last_rate_bits.get())), replay());
            }
            if rec.last_id.get() != k {
                vadd!(st.v, "fixed-fraction:entry-passed-on", "the inner format saw a different entry than the one formatted", replay());
            }
        } else {
            st.dropped += 1;
        }
    }
}

// ------------------------------------------------------------------------------------------
// SampledEmf: weight on the public path

/// rates whose weight choice is bound to real EMF output: 2^-k with both neighbours for
/// k = 0..=70 (crossing 2^-53, 2^-63 and 2^-64), the smallest normal, subnormals, ordinary fractions
pub fn emf_rates() -> Vec<f32> {
    let mut v = vec![1.0, down(1.0)];
    for k in 1..=70 {
        let p = pow2(-k);
        v.extend([down(p), p, up(p)]);
    }
    v.extend([pow2(-100), f32::MIN_POSITIVE, up(f32::MIN_POSITIVE), f32::from_bits(0x007F_FFFF), f32::from_bits(1), f32::from_bits(2)]);
    v.extend([0.1, 0.225, 0.3, 1.0 / 3.0, 0.4, 0.75, 0.9, 0.999, 1e-3, 1e-9, 3e-17, 1.5e-38]);
    let set: BTreeSet<u32> = v.iter().map(|r| r.to_bits()).collect();
    assert_eq!(set.len(), v.len(), "rates are distinct");
    v
}

pub const OCCURRENCES: [u64; 7] = [1, 1, 3, 0, 1000, 1, 1];

fn emf_entry() -> EntryD {
    let m = |obs: Vec<Obs>| ValD::Metric { obs, unit: UnitD::Count, dims: vec![], flag: FlagD::None };
    EntryD {
        ops: vec![
            OpD::Timestamp(1_700_000_000_000_000_000),
            OpD::Value("D".into(), m(vec![Obs::U(7), Obs::F(2.5), Obs::R(9.0, 3), Obs::R(0.0, 0), Obs::R(500.0, 1000)])),
            OpD::Value("S".into(), m(vec![Obs::U(1)])),
            // a single occurrence in the repeated form, alone in its metric
            OpD::Value("L".into(), m(vec![Obs::R(4.0, 1)])),
            OpD::Value("Text".into(), ValD::Str("x".into())),
        ],
    }
}

#[derive(Default)]
pub struct ESt {
    pub rates: u64,
    pub formats: u64,
    pub counts_checked: u64,
    pub weights_seen: BTreeSet<u64>,
    pub saturated_products: u64,
    pub v: Violations,
    pub sample: Option<Value>,
}

/// sequential (a few hundred formats)
pub fn emf_public_path(st: &mut ESt) {
    let entry_d = emf_entry();
    let entry = entry_d.compile();
    for rate in emf_rates() {
        st.rates += 1;
        let (m, e) = decompose(rate);
        let saturating = below_pow2(m, e, -63);
        // (draw k, expected weight)
        let mut cases: Vec<(u64, u64)> = Vec::new();
        let mut split = None;
        if saturating {
            cases.extend([(0, u64::MAX), (TWO53_U - 1, u64::MAX)]);
        } else {
            let (n, alpha) = __verif_rate_to_n_alpha(rate);
            let cnt = draws_below(alpha);
            split = Some((n, alpha, cnt));
            let mut ks = BTreeSet::new();
            ks.extend([0, TWO53_U - 1]);
            if cnt > 0 { ks.insert(cnt - 1); }
            if cnt < TWO53_U { ks.insert(cnt); }
            for k in ks {
                cases.push((k, if k < cnt { n } else { n.saturating_add(1) }));
            }
        }
        for (k, expect_w) in cases {
            // the generator handed over directly, and through the library's `DefaultRng<R>` adapter
            // (the route of `with_sampling()`, there over the thread's real generator)
            for (low, through_adapter) in [(0u64, false), (0x7FF, false), (0x7FF, true)] {
                let script = Script::default();
                script.set_f64_draw(k, low);
                let mut out = Vec::new();
                let res = if through_adapter {
                    crate::script::TLS_SCRIPT.with(|s| *s.borrow_mut() = script.clone());
                    let mut f = Emf::all_validations("NS".into(), vec![vec![]]).with_sampling_and_rng(metrique_writer::sample::DefaultRng::<crate::script::TlsScript>::default());
                    f.format_with_sample_rate(&entry, &mut out, rate)
                } else {
                    let mut f = Emf::all_validations("NS".into(), vec![vec![]]).with_sampling_and_rng(script.clone());
                    f.format_with_sample_rate(&entry, &mut out, rate)
                };
                st.formats += 1;
                let text = String::from_utf8_lossy(&out).to_string();
                let replay = |extra: Value| json!({"part": "emf-public-path", "rate": rate_json(rate), "draw": format!("{k}/2^53"), "generator_through_DefaultRng_adapter": through_adapter,
                    "split": split.map(|(n, a, c)| json!({"n": n.to_string(), "alpha": format!("{a:e}"), "draws_selecting_n": c.to_string()})),
                    "expected_weight": expect_w.to_string(), "output": text, "detail": extra});
                if let Err(e) = res {
                    vadd!(st.v, "emf-sampled-format-failed", format!("format_with_sample_rate({rate:e}) failed: {e}"), replay(json!(null)));
                    continue;
                }
                let recs = match parse_output(&out) {
                    Ok(r) if r.len() == 1 => r,
                    Ok(r) => { vadd!(st.v, "emf-sampled-format-output", format!("{} records for one entry", r.len()), replay(json!(null))); continue }
                    Err(msg) => { vadd!(st.v, "emf-sampled-format-output", format!("unparseable output: {msg}"), replay(json!(null))); continue }
                };
                let mut counts: Vec<u64> = Vec::new();
                let mut bad = None;
                for name in ["D", "S", "L"] {
                    match recs[0].members.iter().find(|(n, _)| n == name) {
                        Some((_, MemberP::Dist(d))) => for (_, c) in d {
                            match c.parse::<u64>() { Ok(c) => counts.push(c), Err(_) => bad = Some(format!("count {c:?} of {name} is not a u64")) }
                        },
                        _ => bad = Some(format!("member {name} missing or not a distribution")),
                    }
                }
                if bad.is_none() && counts.len() != OCCURRENCES.len() {
                    bad = Some(format!("{} counts, expected {}", counts.len(), OCCURRENCES.len()));
                }
                if let Some(msg) = bad {
                    vadd!(st.v, "emf-sampled-format-output", msg, replay(json!(null)));
                    continue;
                }
                // the weight is what a single occurrence is counted as
                let w = counts[0];
                st.weights_seen.insert(w);
                if w != expect_w {
                    let class = if saturating { "emf-weight-choice:not-saturating" } else { "emf-weight-choice" };
                    vadd!(st.v, class, format!("rate {rate:e}, draw {k}/2^53: single observations are counted {w} times, expected {expect_w}"), replay(json!({"counts": counts.iter().map(|c| c.to_string()).collect::<Vec<_>>()})));
                }
                // independent of the accessor: floor/ceil by exact arithmetic when 1/rate < 2^53
                if !saturating {
                    let inv = Inverse::of(rate);
                    if inv.below_2_53() && w as u128 != inv.floor() && w as u128 != inv.ceil() {
                        vadd!(st.v, "emf-weight-not-floor-or-ceil", format!("rate {rate:e}: count {w} in the output, 1/rate = {}", inv.describe()), replay(json!(null)));
                    }
                }
                for (c, occ) in counts.iter().zip(OCCURRENCES) {
                    st.counts_checked += 1;
                    let exact = occ as u128 * w as u128;
                    if exact <= u64::MAX as u128 {
                        if *c as u128 != exact {
                            vadd!(st.v, "emf-counts-not-weighted", format!("rate {rate:e}: an observation with {occ} occurrences has count {c}, the record's weight is {w}"), replay(json!({"counts": counts.iter().map(|c| c.to_string()).collect::<Vec<_>>()})));
                        }
                    } else {
                        st.saturated_products += 1;
                        if *c != u64::MAX {
                            vadd!(st.v, "emf-counts-not-weighted:product-overflow", format!("rate {rate:e}: {occ} occurrences x weight {w} exceeds 64 bits; count is {c}, expected the largest 64-bit value"), replay(json!({"counts": counts.iter().map(|c| c.to_string()).collect::<Vec<_>>()})));
                        }
                    }
                }
                if st.sample.is_none() && rate == 0.4 && k > 0 {
                    st.sample = Some(replay(json!({"counts": counts.iter().map(|c| c.to_string()).collect::<Vec<_>>()})));
                }
            }
        }
    }
}
