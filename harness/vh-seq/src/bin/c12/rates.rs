//! Part A (E3 rates): every f32 rate in (0,1] against the real rate -> weight split, decided in
//! exact integer arithmetic.
//!
//! An f32 rate is `m * 2^e` with an integer `m < 2^24`; `1/rate = 2^s / m` with `s = -e`. For rates
//! at or above 2^-63, `s <= 86`, so `2^s`, its quotient and remainder by `m` and every product below
//! fit in 128 bits. The only floating-point operation behind a verdict is the exact scaling
//! `alpha * 2^53` (and its ceiling) that counts the draws below alpha.
use crate::script::Fixed64;
use metrique_writer_format_emf::{__verif_rate_to_n, __verif_rate_to_n_alpha};
use serde_json::{Value, json};
use std::collections::BTreeMap;

pub const FIRST_BITS: u32 = 0x0000_0001;
pub const LAST_BITS: u32 = 0x3F80_0000; // 1.0
pub const TWO53_U: u64 = 1 << 53;

/// relative tolerance of the expectation clause = 2^-51 (2 ulp of an f64)
pub const EXPECTATION_TOL_LOG2: i32 = -51;

/// rate = m * 2^e exactly
pub fn decompose(rate: f32) -> (u32, i32) {
    let bits = rate.to_bits();
    debug_assert!(bits >> 31 == 0);
    let exp = (bits >> 23) & 0xFF;
    let frac = bits & 0x7F_FFFF;
    debug_assert!(exp != 0xFF);
    if exp == 0 { (frac, -149) } else { (frac | 1 << 23, exp as i32 - 150) }
}

/// m * 2^e < 2^k, exactly
pub fn below_pow2(m: u32, e: i32, k: i32) -> bool {
    let d = k - e; // m < 2^d
    if d <= 0 { false } else if d >= 32 { true } else { (m as u64) < (1u64 << d) }
}

/// #{ k in 0..2^53 : k / 2^53 < alpha }: the number of 53-bit draws that select the lower weight.
/// `alpha * 2^53` is exact (scaling by a power of two), so is its ceiling.
pub fn draws_below(alpha: f64) -> u64 {
    if !(alpha > 0.0) {
        0 // also NaN
    } else if alpha >= 1.0 {
        TWO53_U
    } else {
        (alpha * 9_007_199_254_740_992.0).ceil() as u64
    }
}

/// exact 1/rate = q + rem/m for a rate >= 2^-63
#[derive(Clone, Copy, Debug)]
pub struct Inverse {
    pub m: u32,
    pub s: u32,
    pub q: u128,
    pub rem: u32,
}

impl Inverse {
    pub fn of(rate: f32) -> Inverse {
        let (m, e) = decompose(rate);
        let s = (-e) as u32;
        assert!(s <= 86, "Inverse::of is for rates >= 2^-63");
        // 2^s / m by two 64-bit steps (m < 2^24): 2^s = 2^(s-40) * 2^40, and r1 * 2^40 < 2^64
        let m64 = m as u64;
        if s <= 63 {
            let p = 1u64 << s;
            Inverse { m, s, q: (p / m64) as u128, rem: (p % m64) as u32 }
        } else {
            let hi = 1u64 << (s - 40);
            let (q1, r1) = (hi / m64, hi % m64);
            let lo = r1 << 40;
            let inv = Inverse { m, s, q: ((q1 as u128) << 40) + (lo / m64) as u128, rem: (lo % m64) as u32 };
            debug_assert!(inv.q * m as u128 + inv.rem as u128 == 1u128 << s);
            inv
        }
    }
    pub fn floor(&self) -> u128 {
        self.q
    }
    pub fn ceil(&self) -> u128 {
        self.q + (self.rem != 0) as u128
    }
    /// 1/rate < 2^53
    pub fn below_2_53(&self) -> bool {
        (1u128 << self.s) < (self.m as u128) << 53
    }
    /// |w - 1/rate| <= 1  <=>  |w*m - 2^s| <= m
    pub fn within_1(&self, w: u64) -> bool {
        // w*m < 2^88: a widening 64x64 multiplication
        let d = (w as u128 * self.m as u128) as i128 - (1i128 << self.s);
        d.abs() <= self.m as i128
    }
    /// |w - 1/rate| <= 1 + half an f64 ulp of 1/rate (the best an f64 reciprocal plus one can do)
    pub fn within_1_plus_f64_rounding(&self, w: u64) -> bool {
        let b = 127 - self.q.leading_zeros() as i32; // 2^b <= 1/rate < 2^(b+1)
        let half_ulp_log2 = b - 53;
        let d = (w as u128 * self.m as u128) as i128 - (1i128 << self.s);
        let bound = if half_ulp_log2 >= 0 { (self.m as i128) + ((self.m as i128) << half_ulp_log2) } else { 2 * self.m as i128 };
        d.abs() <= bound
    }
    pub fn describe(&self) -> String {
        format!("2^{}/{} = {} + {}/{}", self.s, self.m, self.q, self.rem, self.m)
    }
}

/// Exact relative deviation of the expectation from 1/rate.
/// E = (n*cnt + w1*(2^53-cnt)) / 2^53 with cnt = draws_below(alpha);
/// (E - 1/rate) / (1/rate) = num / 2^(53+s) with
/// num = m*((n-q)*cnt + (w1-q)*(2^53-cnt)) - rem*2^53.   None = |n-q| absurdly large (> 2^40).
pub fn expectation_deviation_num(inv: &Inverse, n: u64, w1: u64, cnt: u64) -> Option<i128> {
    let dn = n as i128 - inv.q as i128;
    if dn.abs() > 1 << 40 {
        return None;
    }
    // w1 - n is 0 or 1, so (n-q)*cnt + (w1-q)*(2^53-cnt) = (n-q)*2^53 + (w1-n)*(2^53-cnt); |mix| < 2^95,
    // m < 2^24: the product cannot wrap
    let step = (w1 - n) as i128;
    let mix = (dn << 53) + step * (TWO53_U - cnt) as i128;
    Some((inv.m as i128).wrapping_mul(mix) - ((inv.rem as i128) << 53))
}

/// one violation class of the sweep: how many rates fail and the LARGEST failing rate (the one
/// closest to ordinary use); its description is rendered once, at the end (`explain`)
#[derive(Clone, Copy)]
pub struct KeyBest {
    pub key: &'static str,
    pub count: u64,
    pub best_bits: u32,
}

#[derive(Default)]
pub struct ASt {
    pub rates: u64,
    pub saturating: u64,
    pub split: u64,
    pub below_2_53: u64,
    pub at_or_above_2_53: u64,
    pub integer_inverse: u64,
    pub two_weights_possible: u64,
    pub threshold_draws: u64,
    pub expectation_exact: u64,
    /// per s (1/rate = 2^s/m): largest |num| and where, for 1/rate < 2^53 and >= 2^53; the relative
    /// deviation is |num| / 2^(53+s)
    pub max_num_small: Vec<(u128, u32)>,
    pub max_num_large: Vec<(u128, u32)>,
    pub n_changes: u64,
    pub n_not_monotone: u64,
    last: Option<(u64, u64)>, // (index, n)
    /// rates with 1/rate >= 2^53 where some selectable weight is more than 1 away from 1/rate
    pub rates_not_within_1: u64,
    /// largest |weight - 1/rate| among those, as the exact fraction d/m (and the rate's bits)
    pub max_abs_dev: (u128, u32, u32),
    pub viol: Vec<KeyBest>,
    /// explain mode: render the descriptions of this one rate instead of counting
    pub render: bool,
    pub rendered: Vec<(&'static str, String, Value)>,
}

impl ASt {
    fn fail(&mut self, key: &'static str, bits: u32, what: impl FnOnce() -> String, replay: impl FnOnce() -> Value) {
        if self.render {
            self.rendered.push((key, what(), replay()));
            return;
        }
        match self.viol.iter_mut().find(|k| k.key == key) {
            Some(k) => {
                k.count += 1;
                k.best_bits = k.best_bits.max(bits);
            }
            None => self.viol.push(KeyBest { key, count: 1, best_bits: bits }),
        }
    }
    pub fn merge_viol(into: &mut BTreeMap<&'static str, KeyBest>, from: &[KeyBest]) {
        for v in from {
            match into.get_mut(v.key) {
                Some(mine) => {
                    mine.count += v.count;
                    mine.best_bits = mine.best_bits.max(v.best_bits);
                }
                None => {
                    into.insert(v.key, *v);
                }
            }
        }
    }
    /// description and replay of what fails at one rate under one key
    pub fn explain(key: &str, bits: u32) -> Option<(String, Value)> {
        let mut st = ASt { render: true, ..Default::default() };
        check_rate(&mut st, (bits - FIRST_BITS) as u64);
        st.rendered.into_iter().find(|(k, _, _)| *k == key).map(|(_, w, r)| (w, r))
    }
    /// (largest relative deviation rounded to f64 for display, rate bits) out of per-exponent maxima
    pub fn max_rel(tabs: &[&Vec<(u128, u32)>]) -> (f64, u32) {
        let mut best = (0.0, 1);
        for tab in tabs {
            for (s, &(a, bits)) in tab.iter().enumerate() {
                let rel = a as f64 / 2f64.powi(53 + s as i32);
                if rel > best.0 { best = (rel, bits) }
            }
        }
        best
    }
}

pub fn rate_json(rate: f32) -> Value {
    let (m, e) = decompose(rate);
    json!({"bits": format!("0x{:08X}", rate.to_bits()), "value": format!("{rate:e}"), "exact": format!("{m}*2^{e}")})
}

/// the weight `rate_to_n` picks when the 53-bit draw is k/2^53
pub fn weight_for_draw(rate: f32, k: u64) -> u64 {
    __verif_rate_to_n(rate, &mut Fixed64(k << 11 | (k & 0x7FF)))
}

/// what the accessor says for a rate >= 2^-63 (below that `rate_to_n_alpha` is never reached: it
/// would overflow `inv_rate_int + 1`, the caller guards it)
fn split_n(rate: f32) -> u64 {
    __verif_rate_to_n_alpha(rate).0
}

/// "a single integer within 1 of 1/rate - its floor or ceiling whenever 1/rate is below 2^53";
/// returns true when the weight is more than 1 away in the >= 2^53 range
fn check_weight(st: &mut ASt, bits: u32, rate: f32, inv: &Inverse, small: bool, w: u64, ctx: &dyn Fn(u64) -> Value) -> bool {
    if small {
        if w as u128 != inv.floor() && w as u128 != inv.ceil() {
            st.fail("weight-not-floor-or-ceil", bits, || format!("rate {rate:e}: weight {w} can be chosen but 1/rate = {} (< 2^53)", inv.describe()), || ctx(w));
        }
        false
    } else if !inv.within_1(w) {
        let d = ((w as u128 * inv.m as u128) as i128 - (1i128 << inv.s)).unsigned_abs(); // |w - 1/rate| = d/m
        let (bd, bm, _) = st.max_abs_dev;
        if bm == 0 || d * bm as u128 > bd * inv.m as u128 { st.max_abs_dev = (d, inv.m, bits) }
        let key = if inv.within_1_plus_f64_rounding(w) { "weight-not-within-1:f64-rounding-of-inverse" } else { "weight-not-within-1:beyond-f64-rounding" };
        st.fail(key, bits, || format!("rate {rate:e}: weight {w} can be chosen but 1/rate = {} (>= 2^53), more than 1 away", inv.describe()), || ctx(w));
        true
    } else {
        false
    }
}

pub fn check_rate(st: &mut ASt, index: u64) {
    let bits = FIRST_BITS + index as u32;
    let rate = f32::from_bits(bits);
    let (m, e) = decompose(rate);
    st.rates += 1;
    if below_pow2(m, e, -63) {
        // "saturating at the largest 64-bit value for rates below 2^-63", whatever the draw
        st.saturating += 1;
        for k in [0u64, TWO53_U - 1] {
            let w = weight_for_draw(rate, k);
            if w != u64::MAX {
                st.fail("weight-not-saturating", bits, || format!("rate {rate:e} < 2^-63 got weight {w} with draw {k}/2^53, expected {}", u64::MAX),
                    || json!({"part": "rates", "rate": rate_json(rate), "draw_k_of_2^53": k.to_string(), "weight": w.to_string()}));
            }
        }
        st.last = None;
        return;
    }
    st.split += 1;
    let (n, alpha) = __verif_rate_to_n_alpha(rate);
    let inv = Inverse::of(rate);
    let cnt = draws_below(alpha);
    let w1 = n.saturating_add(1);
    let small = inv.below_2_53();
    if small { st.below_2_53 += 1 } else { st.at_or_above_2_53 += 1 }
    if inv.rem == 0 { st.integer_inverse += 1 }
    if cnt > 0 && cnt < TWO53_U { st.two_weights_possible += 1 }
    let ctx = |w: u64| json!({"part": "rates", "rate": rate_json(rate), "inverse_exact": inv.describe(), "n": n.to_string(), "alpha": format!("{alpha:e}"),
        "draws_selecting_n_of_2^53": cnt.to_string(), "offending_weight": w.to_string()});

    // distinct n: n is monotone in the rate, so distinct values = runs
    let prev_n = match st.last {
        Some((i, pn)) if i + 1 == index => Some(pn),
        _ if index > 0 => {
            let pr = f32::from_bits(bits - 1);
            let (pm, pe) = decompose(pr);
            if below_pow2(pm, pe, -63) { None } else { Some(split_n(pr)) }
        }
        _ => None,
    };
    match prev_n {
        Some(pn) => {
            if pn != n { st.n_changes += 1 }
            if pn < n { st.n_not_monotone += 1 }
        }
        None => st.n_changes += 1,
    }
    st.last = Some((index, n));

    // every weight some draw can select
    let mut achievable = [None, None];
    if cnt > 0 { achievable[0] = Some(n) }
    if cnt < TWO53_U { achievable[1] = Some(w1) }
    let mut off_by_more_than_1 = false;
    for w in achievable.into_iter().flatten() {
        off_by_more_than_1 |= check_weight(st, bits, rate, &inv, small, w, &ctx);
    }
    if off_by_more_than_1 { st.rates_not_within_1 += 1 }

    // expectation over the 2^53 equally likely draws
    match expectation_deviation_num(&inv, n, w1, cnt) {
        None => st.fail("weight-expectation-biased", bits, || format!("rate {rate:e}: n = {n} is nowhere near 1/rate = {}", inv.describe()), || ctx(n)),
        Some(num) => {
            if num == 0 { st.expectation_exact += 1 }
            let a = num.unsigned_abs();
            // relative deviation a / 2^(53+s) <= 2^-51  <=>  a <= 2^(s+2)
            if a > 1u128 << ((inv.s as i32 + 53 + EXPECTATION_TOL_LOG2) as u32) {
                let rel = a as f64 / 2f64.powi(53 + inv.s as i32);
                st.fail("weight-expectation-biased", bits,
                    || format!("rate {rate:e}: E[weight] = n+1-P with n={n}, P={cnt}/2^53 deviates from 1/rate = {} by {rel:e} relative (> 2^{EXPECTATION_TOL_LOG2})", inv.describe()),
                    || { let mut c = ctx(n); c["relative_deviation"] = json!(format!("{rel:e}")); c });
            }
            // for the evidence: exact maximum per exponent
            let tab = if small { &mut st.max_num_small } else { &mut st.max_num_large };
            if tab.is_empty() { tab.resize(87, (0, 0)) }
            let slot = &mut tab[inv.s as usize];
            if a > slot.0 { *slot = (a, bits) }
        }
    }

    // the choice is the threshold draw < alpha: its two neighbours decide all 2^53 draws
    if cnt > 0 {
        st.threshold_draws += 1;
        let w = weight_for_draw(rate, cnt - 1);
        if w != n {
            st.fail("weight-choice-not-threshold", bits, || format!("rate {rate:e}: draw {}/2^53 < alpha={alpha:e} picked {w}, expected n={n}", cnt - 1), || ctx(w));
            check_weight(st, bits, rate, &inv, small, w, &ctx); // the weight really applied
        }
    }
    if cnt < TWO53_U {
        st.threshold_draws += 1;
        let w = weight_for_draw(rate, cnt);
        if w != w1 {
            st.fail("weight-choice-not-threshold", bits, || format!("rate {rate:e}: draw {cnt}/2^53 >= alpha={alpha:e} picked {w}, expected n+1={w1}"), || ctx(w));
            check_weight(st, bits, rate, &inv, small, w, &ctx);
        }
    }
}
