//! Part C (E2 congress): every history of per-interval group volumes on the REAL congressional
//! sampler, intervals ended by hand, invariants of the property statement after every interval.
use crate::script::{IdEntry, RATE_VIA_PLAIN_FORMAT, RecState, Recorder, Script, TWO24};
use metrique_writer::sample::CongressSampleBuilder;
use metrique_writer_core::format::Format;
use serde_json::{Value, json};
use std::collections::HashSet;
use std::rc::Rc;
use std::time::{Duration, Instant};
use vh_common::report::Violations;

pub const TARGET: u32 = 10;
/// "up to floating-point rounding": relative slack on the budget and on the rate ordering.
/// The sampler's arithmetic is f32 (eps = 6e-8) with a handful of operations per rate.
pub const REL_TOL: f64 = 1e-5;
pub const GROUP_NAMES: [&str; 3] = ["A", "B", "C"];

#[derive(Clone)]
pub struct Space {
    pub name: &'static str,
    pub groups: usize,
    pub volumes: Vec<u32>,
    pub depth: u32,
}

impl Space {
    pub fn vectors(&self) -> u64 {
        (self.volumes.len() as u64).pow(self.groups as u32)
    }
    pub fn histories(&self) -> u64 {
        self.vectors().pow(self.depth)
    }
    /// history index -> per interval, per group volume
    pub fn decode(&self, mut idx: u64) -> Vec<Vec<u32>> {
        let nv = self.volumes.len() as u64;
        (0..self.depth)
            .map(|_| {
                (0..self.groups)
                    .map(|_| {
                        let v = self.volumes[(idx % nv) as usize];
                        idx /= nv;
                        v
                    })
                    .collect()
            })
            .collect()
    }
}

/// canonical state of one group slot: (present, average bits, rate bits, idle intervals)
pub type Canon = [(u32, u32, u32); 3];

#[derive(Default)]
pub struct CSt {
    pub histories: u64,
    pub intervals: u64,
    pub entries: u64,
    pub emitted: u64,
    pub dropped: u64,
    pub decisions_by_draw: u64,
    pub draw_equals_rate: u64,
    pub intervals_over_target: u64,
    pub intervals_at_or_below_target: u64,
    pub groups_expired: u64,
    pub groups_idle_in_state: u64,
    pub max_budget_ratio: f64,
    pub max_inversion: f64,
    pub min_rate: f64,
    pub ordered_pairs: u64,
    pub states: HashSet<Canon>,
    pub rate_vectors_not_all_one: HashSet<[u32; 3]>,
    pub v: Violations,
    pub sample: Option<Value>,
}

impl CSt {
    pub fn new() -> CSt {
        CSt { min_rate: 1.0, ..Default::default() }
    }
}

fn state_json(state: &[Option<(f32, f32, u8)>]) -> Value {
    Value::Array(
        state
            .iter()
            .enumerate()
            .filter_map(|(g, s)| s.map(|(avg, rate, idle)| json!({"group": GROUP_NAMES[g], "average": format!("{avg:e}"), "rate": format!("{rate:e}"), "rate_bits": format!("0x{:08X}", rate.to_bits()), "idle_intervals": idle})))
            .collect(),
    )
}

pub fn run_history(st: &mut CSt, sp: &Space, index: u64) {
    let hist = sp.decode(index);
    let script = Script::default();
    let rec = Rc::new(RecState::default());
    let mut sampler = CongressSampleBuilder::default()
        .target_entries_per_interval(TARGET)
        .interval(Duration::from_secs(86_400 * 365_000))
        .build_with_rng(Recorder(rec.clone()), script.clone());
    // a second sampler whose intervals end by the clock (hook: a per-thread offset on the clock it
    // reads): between two hand-made intervals of the first one, the clock jumps over 1, 2 or 5
    // of its one-hour intervals - an idle gap. It sees the same entries and the same draws and
    // must treat every entry exactly like the first sampler.
    let script2 = Script::default();
    let rec2 = Rc::new(RecState::default());
    let mut by_clock = CongressSampleBuilder::default()
        .target_entries_per_interval(TARGET)
        .interval(Duration::from_secs(3600))
        // (without the duplicate-name validation, as in a build without debug assertions)
        .validate_groups(false)
        .build_with_rng(Recorder(rec2.clone()), script2.clone());
    // The sampler starts its first interval at the first `format` call whose `Instant::now()` is
    // strictly later than the instant of construction, by running one rate update. Make sure that
    // is the very first call (an update on empty state), whatever the clock resolution, so that no
    // automatic update ever happens in the middle of our hand-made intervals (the next is a day away).
    let built = Instant::now();
    while Instant::now() <= built {
        std::hint::spin_loop();
    }
    debug_assert_eq!(sampler.__verif_target(), TARGET);
    // what the harness knows of each group: None = not tracked by the sampler (a new group starts at rate 1)
    let mut known: [Option<(f32, f32, u8)>; 3] = [None; 3];
    let mut sink = std::io::sink();
    let mut id = 0u64;
    st.histories += 1;
    // the clock-driven sampler ends an interval when the first entry after the boundary arrives:
    // a hand-made interval without any entry has no counterpart there (its time simply belongs
    // to the previous interval), so the two samplers are compared up to the first empty interval
    let mut lockstep = true;
    for (t, vols) in hist.iter().enumerate() {
        let replay = |known: &[Option<(f32, f32, u8)>], extra: Value| json!({"part": "congress", "space": sp.name, "target": TARGET, "groups": &GROUP_NAMES[..sp.groups],
            "history_of_group_volumes": &hist[..=t], "failing_interval_index": t, "state_when_it_failed": state_json(known), "detail": extra});
        for (g, &vol) in vols.iter().enumerate() {
            let rate = known[g].map(|s| s.1).unwrap_or(1.0);
            // draws bracketing the threshold as tightly as an f32 draw can, plus the extremes
            let at = ((rate as f64 * TWO24).floor() as u32).min((1 << 24) - 1); // largest draw <= rate
            for j in 0..vol {
                let k = match j % 4 {
                    0 => at,
                    1 => (at + 1).min((1 << 24) - 1),
                    2 => 0,
                    _ => (1 << 24) - 1,
                };
                script.set_f32_draw(k, (j * 37) & 0xFF);
                let before = rec.calls.get();
                let res = sampler.format(&IdEntry { id, group: Some(GROUP_NAMES[g]), flip: id % 3 == 1 }, &mut sink);
                let reached = rec.calls.get() - before;
                if lockstep {
                    script2.set_f32_draw(k, (j * 37) & 0xFF);
                    let before2 = rec2.calls.get();
                    // (the second sampler gets the entry through the entry-level flag wrappers, which are
                    // documented to be transparent for everything but the flags: same sample group)
                    let plain = IdEntry { id, group: Some(GROUP_NAMES[g]), flip: id % 3 == 1 };
                    let _ = if id % 2 == 0 {
                        by_clock.format(&metrique_writer_format_emf::HighStorageResolution::<IdEntry>::from(plain), &mut sink)
                    } else {
                        by_clock.format(&metrique_writer_format_emf::NoMetric::<IdEntry>::from(plain), &mut sink)
                    };
                    let reached2 = rec2.calls.get() - before2;
                    // the sampler sums over a hash map of groups: two instances may differ in the last
                    // bits of a rate (iteration order), so rates are compared with the relative slack
                    // of the other invariants, and decisions only where the draw is not that close
                    let (r1, r2) = (f32::from_bits(rec.last_rate_bits.get()) as f64, f32::from_bits(rec2.last_rate_bits.get()) as f64);
                    let draw_near_rate = ((k as f64) / TWO24 - rate as f64).abs() <= rate as f64 * REL_TOL + 1.0 / TWO24;
                    let decision_differs = reached2 != reached && !draw_near_rate;
                    let rate_differs = reached > 0 && reached2 > 0 && (r1 - r2).abs() > r1 * REL_TOL;
                    if decision_differs || rate_differs {
                        vadd!(st.v, "congress:interval-by-clock-differs-from-interval-by-hand", format!("after idle gaps of whole intervals the clock-driven sampler treats an entry differently: reached the inner format {reached2} times with rate {:e}, the sampler whose intervals were ended by hand {reached} times with rate {:e}", f32::from_bits(rec2.last_rate_bits.get()), f32::from_bits(rec.last_rate_bits.get())),
                            replay(&known, json!({"group": GROUP_NAMES[g], "entry_in_interval": j, "idle_gaps_in_intervals_before_each_interval": "1, 2, 5, 1, 2, 5, ..."})));
                    }
                }
                st.entries += 1;
                let expect = rate == 1.0 || (k as f64) <= rate as f64 * TWO24;
                if rate != 1.0 {
                    st.decisions_by_draw += 1;
                    if k as f64 == rate as f64 * TWO24 { st.draw_equals_rate += 1 }
                }
                let detail = || json!({"group": GROUP_NAMES[g], "entry_in_interval": j, "draw": format!("{k}/2^24"), "group_rate": format!("{rate:e}"),
                    "calls_reaching_inner_format": reached, "rate_passed_on": format!("{:e}", f32::from_bits(rec.last_rate_bits.get()))});
                if res.is_err() {
                    vadd!(st.v, "congress:error-from-infallible-inner-format", "format returned Err although the inner format cannot fail", replay(&known, detail()));
                }
                if reached != expect as u64 {
                    let rel = if rate == 1.0 { "rate==1" } else if k as f64 == rate as f64 * TWO24 { "draw==rate" } else if (k as f64) < rate as f64 * TWO24 { "draw<rate" } else { "draw>rate" };
                    vadd!(st.v, format!("congress:emit-decision:{rel}"), format!("group rate {rate:e}, draw {k}/2^24 ({rel}): entry reached the inner format {reached} times, expected {}", expect as u64), replay(&known, detail()));
                }
                if reached > 0 {
                    st.emitted += 1;
                    let got = rec.last_rate_bits.get();
                    if got != rate.to_bits() {
                        let key = if got == RATE_VIA_PLAIN_FORMAT { "congress:rate-passed-on:unsampled-format-used" } else { "congress:rate-passed-on" };
                        vadd!(st.v, key, format!("the group's rate is {rate:e} but the inner format was handed {:e}", f32::from_bits(got)), replay(&known, detail()));
                    }
                    if rec.last_id.get() != id {
                        vadd!(st.v, "congress:entry-passed-on", "the inner format saw a different entry than the one formatted", replay(&known, detail()));
                    }
                    let r = f32::from_bits(got);
                    if !(r > 0.0 && r <= 1.0) {
                        vadd!(st.v, "congress:rate-out-of-range", format!("rate {r:e} handed to the inner format is outside (0,1]"), replay(&known, detail()));
                    }
                } else {
                    st.dropped += 1;
                }
                id += 1;
            }
        }
        sampler.__verif_end_interval();
        if vols.iter().sum::<u32>() == 0 {
            lockstep = false;
        }
        // the clock-driven sampler: this interval ends and an idle gap follows
        metrique_writer::sample::__verif_congress_clock::advance(Duration::from_secs(3600 * [1, 2, 5][t % 3] + 1));
        st.intervals += 1;
        let mut now: [Option<(f32, f32, u8)>; 3] = [None; 3];
        for (group, avg, rate, idle) in sampler.__verif_group_state() {
            let slot = match group.as_slice() {
                // (the sampler keeps the pairs of a group sorted by name)
                [(k, v), (k2, v2)] if k == "group" && k2 == "z_op" && v2 == "x" => GROUP_NAMES.iter().position(|n| n == v),
                _ => None,
            };
            match slot {
                Some(s) if now[s].is_none() => now[s] = Some((avg, rate, idle)),
                _ => {
                    println!("MACHINERY-FAILURE: unexpected group {group:?} in the sampler's state");
                    std::process::exit(2);
                }
            }
        }
        for g in 0..sp.groups {
            if known[g].is_some() && now[g].is_none() { st.groups_expired += 1 }
            if let Some((_, _, idle)) = now[g] { if idle > 0 { st.groups_idle_in_state += 1 } }
        }
        known = now;
        let total: u32 = vols.iter().sum();
        let live: Vec<(usize, f32, f32)> = (0..3).filter_map(|g| known[g].map(|(a, r, _)| (g, a, r))).collect();
        // 1. every rate in (0,1]
        for &(g, _avg, rate) in &live {
            if !(rate > 0.0 && rate <= 1.0) {
                vadd!(st.v, "congress:rate-out-of-range", format!("group {} has rate {rate:e} after an interval with {total} entries", GROUP_NAMES[g]), replay(&known, json!(null)));
            }
            if (rate as f64) < st.min_rate { st.min_rate = rate as f64 }
        }
        if total <= TARGET {
            // 2. no more than the target seen: nobody is sampled
            st.intervals_at_or_below_target += 1;
            for &(g, _avg, rate) in &live {
                if rate != 1.0 {
                    vadd!(st.v, "congress:not-one-below-target", format!("the interval saw {total} <= {TARGET} entries but group {} has rate {rate:e}", GROUP_NAMES[g]), replay(&known, json!(null)));
                }
            }
        } else {
            st.intervals_over_target += 1;
            // 3. budget
            let budget: f64 = live.iter().map(|&(_, a, r)| a as f64 * r as f64).sum();
            let ratio = budget / TARGET as f64;
            if ratio > st.max_budget_ratio { st.max_budget_ratio = ratio }
            if !(budget <= TARGET as f64 * (1.0 + REL_TOL)) {
                vadd!(st.v, "congress:budget-exceeded", format!("sum(average x rate) = {budget} > target {TARGET} after an interval with {total} entries"), replay(&known, json!({"sum_average_x_rate": budget})));
            }
            // 4. a rarer group is never sampled at a lower rate than a more frequent one
            for &(gi, ai, ri) in &live {
                for &(gj, aj, rj) in &live {
                    if ai < aj {
                        st.ordered_pairs += 1;
                        let inversion = (rj as f64 - ri as f64) / rj as f64;
                        if inversion > st.max_inversion { st.max_inversion = inversion }
                        if !((ri as f64) >= rj as f64 * (1.0 - REL_TOL)) {
                            vadd!(st.v, "congress:rarer-group-sampled-lower", format!("group {} (average {ai}) has rate {ri:e}, the more frequent group {} (average {aj}) has rate {rj:e}", GROUP_NAMES[gi], GROUP_NAMES[gj]), replay(&known, json!(null)));
                        }
                    }
                }
            }
        }
        let mut canon: Canon = [(0, 0, 0); 3];
        let mut rates = [0u32; 3];
        for g in 0..3 {
            if let Some((a, r, idle)) = known[g] {
                canon[g] = (a.to_bits(), r.to_bits(), 1 + idle as u32);
                rates[g] = r.to_bits();
            }
        }
        st.states.insert(canon);
        if live.iter().any(|&(_, _, r)| r != 1.0) {
            st.rate_vectors_not_all_one.insert(rates);
            if st.sample.is_none() && live.len() == sp.groups.min(3) && live.iter().all(|&(_, _, r)| r != 1.0) && t + 1 == hist.len() && t > 0 {
                st.sample = Some(json!({"space": sp.name, "history_of_group_volumes": hist, "state_after": state_json(&known),
                    "sum_average_x_rate": live.iter().map(|&(_, a, r)| a as f64 * r as f64).sum::<f64>()}));
            }
        }
    }
}
