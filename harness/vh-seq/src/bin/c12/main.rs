//! C12 - sampling is consistent and unbiased: emit iff draw <= rate, mean weight 1/rate;
//! congressional rates in (0,1], 1 below target, within budget, rarer groups never sampled lower.
//!
//! A (rates.rs)    every f32 rate in (0,1] -> real (n, alpha) split, exact integer oracle
//! B (draws.rs)    FixedFractionSample x all 2^24 f32 draws; SampledEmf weight in real EMF output
//! C (congress.rs) all histories of per-interval group volumes on the real CongressSample
/// `Violations::add` that stops rendering descriptions and replays once a class has 32 cases per
/// worker (a broken tree fails millions of times); the count stays exact.
macro_rules! vadd {
    ($v:expr, $key:expr, $what:expr, $replay:expr) => {{
        let k = $key;
        let k: &str = k.as_ref();
        match $v.by_key.get_mut(k) {
            Some(x) if x.count >= 32 => x.count += 1,
            _ => $v.add(k.to_string(), $what, $replay),
        }
    }};
}

mod congress;
mod draws;
mod rates;
mod script;

use serde_json::json;
use std::collections::{BTreeMap, HashSet};
use std::time::Instant;
use vh_common::report::Violation;
use vh_common::{Report, par};

fn main() {
    let mut rep = Report::from_args("C12", "model_checking");
    let tier = rep.tier;

    match script::self_check_rand_mapping() {
        Ok(n) => rep.set("scripted_rng_draw_mapping_checks", n),
        Err(msg) => {
            println!("MACHINERY-FAILURE: scripted rng does not map to the intended draws: {msg}");
            std::process::exit(2);
        }
    }

    // ---------------------------------------------------------------- A: every rate
    let t = Instant::now();
    let n_rates = (rates::LAST_BITS - rates::FIRST_BITS) as u64 + 1;
    let parts = par::for_each_index(n_rates, 1 << 16, rates::ASt::default, rates::check_rate);
    let mut a = rates::ASt::default();
    let (mut max_rel_small, mut max_rel_large) = ((0.0f64, 1u32), (0.0f64, 1u32));
    let mut a_viol: BTreeMap<&'static str, rates::KeyBest> = BTreeMap::new();
    for p in parts {
        a.rates += p.rates;
        a.saturating += p.saturating;
        a.split += p.split;
        a.below_2_53 += p.below_2_53;
        a.at_or_above_2_53 += p.at_or_above_2_53;
        a.integer_inverse += p.integer_inverse;
        a.two_weights_possible += p.two_weights_possible;
        a.threshold_draws += p.threshold_draws;
        a.expectation_exact += p.expectation_exact;
        a.rates_not_within_1 += p.rates_not_within_1;
        if p.max_abs_dev.1 != 0 && (a.max_abs_dev.1 == 0 || p.max_abs_dev.0 * a.max_abs_dev.1 as u128 > a.max_abs_dev.0 * p.max_abs_dev.1 as u128) { a.max_abs_dev = p.max_abs_dev }
        a.n_changes += p.n_changes;
        a.n_not_monotone += p.n_not_monotone;
        let (rs, bs) = rates::ASt::max_rel(&[&p.max_num_small]);
        if rs > max_rel_small.0 { max_rel_small = (rs, bs) }
        let (rl, bl) = rates::ASt::max_rel(&[&p.max_num_large]);
        if rl > max_rel_large.0 { max_rel_large = (rl, bl) }
        rates::ASt::merge_viol(&mut a_viol, &p.viol);
    }
    for (key, kb) in a_viol {
        // one record per class, carrying the LARGEST failing rate and the number of failing rates
        let (what, replay) = rates::ASt::explain(key, kb.best_bits).unwrap_or_else(|| ("(not reproduced on re-evaluation)".into(), json!({"rate_bits": kb.best_bits})));
        rep.violations.by_key.insert(key.to_string(), Violation { key: key.to_string(), what: format!("{what} [largest failing rate; {} rates fail this way]", kb.count), replay, count: kb.count });
    }
    let a_wall = t.elapsed().as_secs_f64();
    let a_exhaustive = a.rates == n_rates;
    // +1: the saturated weight u64::MAX
    let distinct_weights = a.n_changes + (a.saturating > 0) as u64;
    rep.set("part_a_rates", json!({
        "space": "every f32 bit pattern 0x00000001 ..= 0x3F800000, i.e. every representable rate in (0,1]",
        "space_size": n_rates, "rates_checked": a.rates, "exhaustive": a_exhaustive,
        "rates_below_2^-63_saturating_branch": a.saturating,
        "rates_through_the_n_alpha_split": a.split,
        "inverse_below_2^53": a.below_2_53, "inverse_at_or_above_2^53": a.at_or_above_2_53,
        "inverse_is_an_integer": a.integer_inverse,
        "within_1_clause_when_inverse_at_or_above_2^53": {
            "rates_with_a_selectable_weight_more_than_1_from_the_inverse": a.rates_not_within_1,
            "of_rates_in_that_range": a.at_or_above_2_53,
            "max_absolute_deviation_weight_minus_inverse": if a.max_abs_dev.1 == 0 { json!(null) } else { json!({
                "exact": format!("{}/{}", a.max_abs_dev.0, a.max_abs_dev.1), "approx": a.max_abs_dev.0 as f64 / a.max_abs_dev.1 as f64,
                "at_rate": rates::rate_json(f32::from_bits(a.max_abs_dev.2)) }) },
            "keys": "weight-not-within-1:f64-rounding-of-inverse = within 1 + half an f64 ulp of the inverse (the reciprocal is taken in f64); weight-not-within-1:beyond-f64-rounding = anything worse",
        },
        "rates_where_both_weights_can_be_drawn": a.two_weights_possible,
        "threshold_draws_through_rate_to_n": a.threshold_draws,
        "distinct_lower_weights_n": distinct_weights, "n_monotone_in_rate": a.n_not_monotone == 0,
        "expectation": {
            "definition": "E = n*P + (n+1)*(1-P), P = #{k < 2^53 : k/2^53 < alpha} / 2^53, compared with 1/rate = 2^s/m as exact integers",
            "tolerance_relative": "2^-51 (2 ulp of f64)",
            "rates_with_E_exactly_1/rate": a.expectation_exact,
            "max_relative_deviation_when_inverse_below_2^53": format!("{:e}", max_rel_small.0),
            "at_rate": rates::rate_json(f32::from_bits(max_rel_small.1)),
            "max_relative_deviation_when_inverse_at_or_above_2^53": format!("{:e}", max_rel_large.0),
            "at_rate_large": rates::rate_json(f32::from_bits(max_rel_large.1)),
            "half_ulp_of_f64_relative": format!("{:e}", 2f64.powi(-53)),
        },
        "wall_s": (a_wall * 1000.0).round() / 1000.0,
    }));
    for r in [0.4f32, 0.225, 1.0, f32::from_bits(0x2000_0000)] {
        let (n, alpha) = metrique_writer_format_emf::__verif_rate_to_n_alpha(r);
        let inv = rates::Inverse::of(r);
        rep.sample(json!({"part": "rates", "rate": rates::rate_json(r), "inverse_exact": inv.describe(), "n": n.to_string(), "alpha": format!("{alpha:e}"),
            "draws_selecting_n_of_2^53": rates::draws_below(alpha).to_string()}));
    }

    // ---------------------------------------------------------------- B1: every draw
    let t = Instant::now();
    let ff_rates = draws::fixed_fraction_rates();
    let chunks = draws::DRAWS / draws::CHUNK;
    let parts = par::for_each_index(ff_rates.len() as u64 * chunks, 1, draws::FSt::default, |st, i| draws::fixed_fraction_chunk(st, &ff_rates, i));
    let (mut b_draws, mut b_emitted, mut b_dropped, mut b_eq) = (0u64, 0u64, 0u64, 0u64);
    for p in parts {
        b_draws += p.draws; b_emitted += p.emitted; b_dropped += p.dropped; b_eq += p.draw_equals_rate;
        rep.violations.merge(p.v);
    }
    let b1_wall = t.elapsed().as_secs_f64();
    let b1_exhaustive = b_draws == ff_rates.len() as u64 * draws::DRAWS;
    rep.set("part_b_fixed_fraction", json!({
        "space": "64 rates x every f32 draw k/2^24, k in 0..2^24 (all values random::<f32>() can take)",
        "rates": ff_rates.len(), "draws_per_rate": draws::DRAWS, "formats_through_the_real_sampler": b_draws, "exhaustive": b1_exhaustive,
        "emitted": b_emitted, "dropped": b_dropped, "cases_with_draw_exactly_equal_to_rate": b_eq,
        "wall_s": (b1_wall * 1000.0).round() / 1000.0,
    }));
    rep.sample(json!({"part": "fixed-fraction", "rates": ff_rates.iter().map(|r| format!("{r:e}")).collect::<Vec<_>>()}));

    // ---------------------------------------------------------------- B2: weight on the public path
    let t = Instant::now();
    let mut e = draws::ESt::default();
    draws::emf_public_path(&mut e);
    rep.violations.merge(std::mem::take(&mut e.v));
    let b2_wall = t.elapsed().as_secs_f64();
    rep.set("part_b_emf_public_path", json!({
        "space": "boundary rates (2^-k and both neighbours for k = 0..70, smallest normal, subnormals, fractions) x f64 draws {0, threshold-1, threshold, 2^53-1} x discarded low bits {0, all ones}",
        "rates": e.rates, "formats_through_real_SampledEmf": e.formats, "counts_compared": e.counts_checked,
        "distinct_weights_read_from_output": e.weights_seen.len(), "counts_where_occurrences_x_weight_exceeds_64_bits": e.saturated_products,
        "exhaustive": true, "wall_s": (b2_wall * 1000.0).round() / 1000.0,
    }));
    if let Some(s) = e.sample.take() { rep.sample(s) }

    // ---------------------------------------------------------------- C: congress histories
    let spaces = [
        congress::Space { name: "3 groups x volumes {0,1,5,40}", groups: 3, volumes: vec![0, 1, 5, 40], depth: tier.pick(3, 4) },
        // long enough for a group to idle out (9 updates without observations) and come back
        congress::Space { name: "2 groups x volumes {0,11} (idle-out horizon)", groups: 2, volumes: vec![0, 11], depth: tier.pick(10, 12) },
    ];
    let (mut histories, mut intervals, mut entries) = (0u64, 0u64, 0u64);
    let mut states: HashSet<congress::Canon> = HashSet::new();
    let mut nontrivial: HashSet<[u32; 3]> = HashSet::new();
    let mut c_exhaustive = true;
    let mut c_json = Vec::new();
    for sp in &spaces {
        let t = Instant::now();
        let parts = par::for_each_index(sp.histories(), 64, congress::CSt::new, |st, i| congress::run_history(st, sp, i));
        let mut c = congress::CSt::new();
        let mut sp_states: HashSet<congress::Canon> = HashSet::new();
        let mut sp_nontrivial: HashSet<[u32; 3]> = HashSet::new();
        for mut p in parts {
            c.histories += p.histories; c.intervals += p.intervals; c.entries += p.entries; c.emitted += p.emitted; c.dropped += p.dropped;
            c.decisions_by_draw += p.decisions_by_draw; c.draw_equals_rate += p.draw_equals_rate;
            c.intervals_over_target += p.intervals_over_target; c.intervals_at_or_below_target += p.intervals_at_or_below_target;
            c.groups_expired += p.groups_expired; c.groups_idle_in_state += p.groups_idle_in_state; c.ordered_pairs += p.ordered_pairs;
            c.max_budget_ratio = c.max_budget_ratio.max(p.max_budget_ratio);
            c.max_inversion = c.max_inversion.max(p.max_inversion);
            c.min_rate = c.min_rate.min(p.min_rate);
            sp_states.extend(p.states.drain());
            sp_nontrivial.extend(p.rate_vectors_not_all_one.drain());
            rep.violations.merge(p.v);
            if let Some(s) = p.sample.take() { if c.sample.is_none() { c.sample = Some(s) } }
        }
        let wall = t.elapsed().as_secs_f64();
        let ex = c.histories == sp.histories();
        c_exhaustive &= ex;
        c_json.push(json!({
            "space": sp.name, "groups": sp.groups, "volumes": sp.volumes, "depth": sp.depth, "target_entries_per_interval": congress::TARGET,
            "interval_vectors": sp.vectors(), "histories": c.histories, "histories_in_space": sp.histories(), "exhaustive": ex,
            "intervals_executed": c.intervals, "entries_formatted": c.entries, "emitted": c.emitted, "dropped": c.dropped,
            "emit_decisions_taken_by_a_draw": c.decisions_by_draw, "of_which_draw_exactly_equal_to_rate": c.draw_equals_rate,
            "intervals_over_target": c.intervals_over_target, "intervals_at_or_below_target": c.intervals_at_or_below_target,
            "group_expiries_observed": c.groups_expired, "idle_groups_in_checked_states": c.groups_idle_in_state,
            "distinct_group_states": sp_states.len(), "distinct_rate_vectors_not_all_one": sp_nontrivial.len(),
            "max_sum_average_x_rate_over_target": c.max_budget_ratio, "ordered_pairs_checked": c.ordered_pairs,
            "max_relative_rate_inversion": c.max_inversion, "min_rate": c.min_rate,
            "tolerance_relative": congress::REL_TOL, "wall_s": (wall * 1000.0).round() / 1000.0,
        }));
        if let Some(s) = c.sample.take() { rep.sample(s) }
        histories += c.histories; intervals += c.intervals; entries += c.entries;
        states.extend(sp_states);
        nontrivial.extend(sp_nontrivial);
    }
    rep.set("part_c_congress", c_json);

    // ---------------------------------------------------------------- summary
    rep.set("states", states.len() as u64);
    rep.set("transitions", intervals);
    rep.set("traces_validated_against_impl", histories);
    rep.set("congress_entries_formatted", entries);
    rep.set("evaluations", a.rates + b_draws + e.formats);
    rep.set("distinct_nontrivial", distinct_weights + nontrivial.len() as u64);
    rep.set("distinct_nontrivial_breakdown", json!({"distinct_weights_n_over_all_rates": distinct_weights, "distinct_congress_rate_vectors_not_all_one": nontrivial.len()}));
    rep.set("rule", "A: every f32 rate in (0,1] once, verdicts in exact 128-bit integer arithmetic on rate = m*2^e; B: complete cross product rates x all 2^24 f32 draws on the real FixedFractionSample, and boundary rates x threshold-adjacent f64 draws on the real SampledEmf read back from the Counts of its output; C: every history (all interval vectors ^ depth) replayed on a fresh real CongressSample, invariants after every interval. states = distinct (group -> average, rate, idle count) vectors reached; distinct_nontrivial = distinct lower weights n over all rates + distinct congress rate vectors that are not all 1");
    rep.set("exhaustive", a_exhaustive && b1_exhaustive && c_exhaustive);
    rep.assume("randomness is a scripted RngCore; the statistical quality of ThreadRng / DefaultRng is out of scope");
    rep.assume("rand 0.9 maps next_u32 >> 8 to the f32 draw k/2^24 and next_u64 >> 11 to the f64 draw k/2^53 (checked at start-up for all 2^24 f32 draws)");
    rep.assume("the weight decision is a threshold on the draw, so the two draws adjacent to alpha (plus 0 and 2^53-1) decide all 2^53 draws");
    rep.assume("congress: intervals are ended with __verif_end_interval (the sampler's own interval is one day); entries of one interval are fed group by group; the only automatic update is the one on the very first format call, on empty state");
    rep.assume("congress: 'up to floating-point rounding' = relative 1e-5 on the budget and on the rate ordering; groups with equal averages are not ordered");
    rep.assume("congress rates may differ in the last ulp between runs (hash-map iteration order feeds an f32 sum), so distinct state counts can vary slightly");
    rep.assume("a count whose exact value occurrences x weight exceeds 64 bits is expected to be the largest 64-bit value");
    rep.finish();
}
