//! Scripted randomness, a recording `SampledFormat`, and the tiny entries fed to the samplers.
use metrique_writer_core::entry::SampleGroupElement;
use metrique_writer_core::format::Format;
use metrique_writer_core::sample::SampledFormat;
use metrique_writer_core::{
    Entry, EntryWriter, IoStreamError, MetricFlags, Observation, Unit, ValidationError, ValueWriter,
};
use rand::RngCore;
use std::borrow::Cow;
use std::cell::Cell;
use std::io;
use std::rc::Rc;

pub const TWO24: f64 = 16_777_216.0;
pub const TWO53: f64 = 9_007_199_254_740_992.0;

/// What the next `next_u32` / `next_u64` returns is set from outside through the shared cell.
/// rand 0.9 builds `random::<f32>()` as `(next_u32() >> 8) * 2^-24` and `random::<f64>()` as
/// `(next_u64() >> 11) * 2^-53` (checked by `self_check_rand_mapping`), so a 24-bit `k` placed in
/// the top bits yields the draw `k / 2^24` exactly (resp. a 53-bit `k` yields `k / 2^53`).
#[derive(Default)]
pub struct ScriptState {
    pub u32v: Cell<u32>,
    pub u64v: Cell<u64>,
    pub calls: Cell<u64>,
}

#[derive(Clone, Default)]
pub struct Script(pub Rc<ScriptState>);

impl Script {
    /// next f32 draw = k / 2^24; `low` fills the 8 bits rand discards
    pub fn set_f32_draw(&self, k: u32, low: u32) {
        debug_assert!(k < (1 << 24) && low < 256);
        self.0.u32v.set(k << 8 | low);
    }
    /// next f64 draw = k / 2^53; `low` fills the 11 bits rand discards
    pub fn set_f64_draw(&self, k: u64, low: u64) {
        debug_assert!(k < (1 << 53) && low < 2048);
        self.0.u64v.set(k << 11 | low);
    }
}

impl RngCore for Script {
    fn next_u32(&mut self) -> u32 {
        self.0.calls.set(self.0.calls.get() + 1);
        self.0.u32v.get()
    }
    fn next_u64(&mut self) -> u64 {
        self.0.calls.set(self.0.calls.get() + 1);
        self.0.u64v.get()
    }
    fn fill_bytes(&mut self, _dest: &mut [u8]) {
        panic!("scripted rng: fill_bytes is not scripted")
    }
}

/// plain (thread-safe, allocation-free) variant for the 10^9-rate sweep
pub struct Fixed64(pub u64);
impl RngCore for Fixed64 {
    fn next_u32(&mut self) -> u32 {
        (self.0 >> 32) as u32
    }
    fn next_u64(&mut self) -> u64 {
        self.0
    }
    fn fill_bytes(&mut self, _dest: &mut [u8]) {
        panic!("scripted rng: fill_bytes is not scripted")
    }
}

/// Machinery self-check (exit 2 on failure): the scripted generators really produce every
/// distinct `random::<f32>()` value (all 2^24 of them) and the f64 draws we ask for.
pub fn self_check_rand_mapping() -> Result<u64, String> {
    use rand::Rng;
    let mut s = Script::default();
    let mut checked = 0u64;
    for k in 0u32..(1 << 24) {
        for low in [0u32, 0xFF] {
            s.set_f32_draw(k, low);
            let d: f32 = s.random();
            if d as f64 * TWO24 != k as f64 {
                return Err(format!("random::<f32>() with top bits {k} gave {d:e}, expected {k}/2^24"));
            }
            checked += 1;
        }
    }
    for k in [0u64, 1, 2, (1 << 52) - 1, 1 << 52, (1 << 52) + 1, (1 << 53) - 2, (1 << 53) - 1, 0x15_5555_5555_5555] {
        for low in [0u64, 0x7FF] {
            s.set_f64_draw(k, low);
            let d: f64 = s.random();
            if d * TWO53 != k as f64 {
                return Err(format!("random::<f64>() with top bits {k} gave {d:e}, expected {k}/2^53"));
            }
            let mut f = Fixed64(k << 11 | low);
            let d2: f64 = f.random();
            if d2 != d {
                return Err("Fixed64 and Script disagree".into());
            }
            checked += 1;
        }
    }
    Ok(checked)
}

// ------------------------------------------------------------------------------------------

/// marker stored as "rate" when the sampler called the unsampled `format` instead
pub const RATE_VIA_PLAIN_FORMAT: u32 = 0xFFFF_FFFF;

#[derive(Default)]
pub struct RecState {
    pub calls: Cell<u64>,
    pub last_id: Cell<u64>,
    pub last_rate_bits: Cell<u32>,
}

/// The inner format handed to the samplers: records (entry id, rate) of every call reaching it.
pub struct Recorder(pub Rc<RecState>);

impl Recorder {
    fn record(&mut self, entry: &impl Entry, rate_bits: u32) {
        let mut w = IdWriter(u64::MAX);
        entry.write(&mut w);
        self.0.calls.set(self.0.calls.get() + 1);
        self.0.last_id.set(w.0);
        self.0.last_rate_bits.set(rate_bits);
    }
}

impl Format for Recorder {
    fn format(&mut self, entry: &impl Entry, _output: &mut impl io::Write) -> Result<(), IoStreamError> {
        self.record(entry, RATE_VIA_PLAIN_FORMAT);
        Ok(())
    }
}

impl SampledFormat for Recorder {
    fn format_with_sample_rate(&mut self, entry: &impl Entry, _output: &mut impl io::Write, rate: f32) -> Result<(), IoStreamError> {
        self.record(entry, rate.to_bits());
        Ok(())
    }
}

struct IdWriter(u64);
impl<'a> EntryWriter<'a> for IdWriter {
    fn timestamp(&mut self, _timestamp: std::time::SystemTime) {}
    fn value(&mut self, _name: impl Into<Cow<'a, str>>, value: &(impl metrique_writer_core::Value + ?Sized)) {
        value.write(IdValue(&mut self.0));
    }
    fn config(&mut self, _config: &'a dyn metrique_writer_core::EntryConfig) {}
}
struct IdValue<'x>(&'x mut u64);
impl ValueWriter for IdValue<'_> {
    fn string(self, _value: &str) {}
    fn metric<'a>(self, distribution: impl IntoIterator<Item = Observation>, _unit: Unit, _dimensions: impl IntoIterator<Item = (&'a str, &'a str)>, _flags: MetricFlags<'_>) {
        for o in distribution {
            if let Observation::Unsigned(v) = o {
                *self.0 = v;
            }
        }
    }
    fn error(self, _error: ValidationError) {}
}

/// entry carrying an id and (for the congressional sampler) the name of its sample group
pub struct IdEntry {
    pub id: u64,
    pub group: Option<&'static str>,
    /// the sample group is two pairs; `flip` yields them in the other order (the order of the
    /// pairs is documented not to matter)
    pub flip: bool,
}

impl Entry for IdEntry {
    fn write<'a>(&'a self, w: &mut impl EntryWriter<'a>) {
        w.value("id", &self.id);
    }
    fn sample_group(&self) -> impl Iterator<Item = SampleGroupElement> {
        let pairs: Vec<SampleGroupElement> = match self.group {
            Some(g) => {
                let mut v = vec![(Cow::Borrowed("group"), Cow::Borrowed(g)), (Cow::Borrowed("z_op"), Cow::Borrowed("x"))];
                if self.flip {
                    v.reverse();
                }
                v
            }
            None => vec![],
        };
        pairs.into_iter()
    }
}

thread_local! {
    /// what `TlsScript` (a stateless generator created afresh for every draw) answers
    pub static TLS_SCRIPT: std::cell::RefCell<Script> = std::cell::RefCell::new(Script::default());
}
/// A generator without state of its own, as the library's `DefaultRng<R>` adapter expects: it is
/// `Default`-constructed for every draw and answers from the thread's script.
#[derive(Default)]
pub struct TlsScript;
impl RngCore for TlsScript {
    fn next_u32(&mut self) -> u32 {
        TLS_SCRIPT.with(|s| s.borrow().clone().next_u32())
    }
    fn next_u64(&mut self) -> u64 {
        TLS_SCRIPT.with(|s| s.borrow().clone().next_u64())
    }
    fn fill_bytes(&mut self, _dest: &mut [u8]) {
        panic!("scripted rng: fill_bytes is not scripted")
    }
}
