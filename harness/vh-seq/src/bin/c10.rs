//! spike: do the types compile
use metrique::CloseValue;
use metrique::unit_of_work::metrics;
use metrique::writer::value::ToString;
use metrique_aggregation::aggregate;
use metrique_aggregation::aggregator::{Aggregate, KeyedAggregator};
use metrique_aggregation::histogram::{Histogram, SortAndMerge};
use metrique_aggregation::sink::{MutexSink, TeeSink, WorkerSink, non_aggregate};
use metrique_aggregation::traits::{AggregateSink, AggregateSinkRef, AggregateStrategy, FlushableSink, Key, RootSink};
use metrique_aggregation::value::{Distribution, Flatten, KeepLast, Sum};
use metrique_writer::test_util::{test_entry_sink, test_metric};
use std::borrow::Cow;
use std::hash::{Hash, Hasher};

#[aggregate(ref)]
#[metrics]
pub struct Rec {
    #[aggregate(key)]
    name: String,
    #[aggregate(strategy = Sum)]
    total: u64,
    #[aggregate(strategy = Histogram<u64, SortAndMerge>)]
    obs: u64,
    #[aggregate(strategy = KeepLast)]
    last: u64,
}

#[derive(Clone, PartialEq, Eq, Debug)]
#[metrics(value)]
pub struct CName(String);
impl Hash for CName {
    fn hash<H: Hasher>(&self, state: &mut H) {
        state.write_u64(0xC10);
    }
}

#[aggregate(ref)]
#[metrics]
pub struct Coll {
    #[aggregate(key)]
    name: CName,
    #[aggregate(strategy = Sum)]
    total: u64,
    #[aggregate(strategy = Distribution)]
    obs: u64,
    #[aggregate(strategy = KeepLast)]
    last: u64,
}

fn main() {
    let ts = test_entry_sink();
    let mut agg = KeyedAggregator::<Coll>::new(ts.sink);
    agg.merge(Coll { name: CName("a".into()), total: 1, obs: 5, last: 9 }.close());
    agg.merge(Coll { name: CName("b".into()), total: 2, obs: 5, last: 9 }.close());
    agg.flush();
    println!("{:#?}", ts.inspector.entries());
}
