//! C10 (sequential part) - aggregation conserves inputs: every merged entry is in exactly one
//! emitted aggregate, selected by its key.
//!
//! Explicit-state search: EVERY input sequence up to a bound (keys x payloads) x EVERY subset of
//! flush points between the inputs (plus a final flush) is replayed on the REAL aggregation sinks
//! (embedded `Aggregate`, `KeyedAggregator` with four key strategies, `MutexSink`, `TeeSink`,
//! `WorkerSink` driven from one thread, merge-on-drop guards dropped in every order) and what the
//! downstream sink receives at each flush is compared with a reference fold written from the
//! property statement. (The thread-interleaving part for `WorkerSink` runs under loom in vh-sched.)
use metrique::CloseValue;
use metrique::unit_of_work::metrics;
use metrique::writer::value::ToString;
use metrique_aggregation::aggregate;
use metrique_aggregation::aggregator::{Aggregate, AggregatedEntry, KeyedAggregator};
use metrique_aggregation::histogram::{Histogram, SortAndMerge};
use metrique_aggregation::sink::{CloseAndMergeOnDrop, MergeOnDrop, MutexSink, TeeSink, WorkerSink, non_aggregate};
use metrique_aggregation::traits::{AggregateSink, AggregateSinkRef, AggregateStrategy, FlushableSink, Key, RootSink};
use metrique_aggregation::value::{Distribution, Flatten, KeepLast, Sum};
use metrique_writer::sink::VecEntrySink;
use metrique_writer::test_util::{Inspector, TestEntry, test_entry_sink, test_metric, to_test_entry};
use metrique_writer::{Observation, Value, ValueWriter};
use serde_json::{Value as Json, json};
use std::borrow::Cow;
use std::collections::hash_map::DefaultHasher;
use std::collections::{BTreeMap, HashSet};
use std::hash::{Hash, Hasher};
use std::time::Duration;
use vh_common::report::Violations;
use vh_common::{Report, par};

// ---------------------------------------------------------------------------------------------
// entry types, all built with the real #[aggregate] + #[metrics] macros
// ---------------------------------------------------------------------------------------------

/// entry mode + `ref`, owned `String` key, Sum + Histogram<_, SortAndMerge> + KeepLast
#[aggregate(ref)]
#[metrics]
pub struct Rec {
    #[aggregate(key)]
    name: String,
    #[aggregate(strategy = Sum)]
    total: u64,
    #[aggregate(strategy = Histogram<u64, SortAndMerge>)]
    obs: u64,
    #[aggregate(strategy = KeepLast)]
    last: u64,
}

/// hand-written borrowed-key form over the same closed entry: the lookup key borrows a `&str`
/// out of the source (`Cow::Borrowed`), the stored key owns it (`Cow::Owned`); only the derived
/// `Hash` (equal for both forms) and `static_key_matches` connect the two
#[derive(Clone, Hash, PartialEq, Eq)]
#[metrics]
pub struct StrKey<'a> {
    name: Cow<'a, str>,
}
pub struct StrKeyExtractor;
impl Key<RecEntry> for StrKeyExtractor {
    type Key<'a> = StrKey<'a>;
    fn from_source(source: &RecEntry) -> Self::Key<'_> {
        #[allow(deprecated)]
        StrKey { name: Cow::Borrowed(source.name.as_str()) }
    }
    fn static_key<'a>(key: &Self::Key<'a>) -> Self::Key<'static> {
        StrKey { name: Cow::Owned(key.name.clone().into_owned()) }
    }
    fn static_key_matches<'a>(owned: &Self::Key<'static>, borrowed: &Self::Key<'a>) -> bool {
        owned == borrowed
    }
}
pub struct ByStr;
impl AggregateStrategy for ByStr {
    type Source = RecEntry;
    type Key = StrKeyExtractor;
}

/// a key value whose `Hash` is deliberately CONSTANT: all keys land in the same hash bucket chain
/// and only `static_key_matches` / `Eq` separates them
#[derive(Clone, PartialEq, Eq, Debug)]
pub struct CName(String);
impl Hash for CName {
    fn hash<H: Hasher>(&self, state: &mut H) {
        state.write_u64(0xC10);
    }
}
impl CloseValue for CName {
    type Closed = CName;
    fn close(self) -> CName {
        self
    }
}
impl Value for CName {
    fn write(&self, writer: impl ValueWriter) {
        writer.string(&self.0)
    }
}

/// entry mode + `ref`, constant-hash key through the macro-generated Key impl, `Distribution`
#[aggregate(ref)]
#[metrics]
pub struct Coll {
    #[aggregate(key)]
    name: CName,
    #[aggregate(strategy = Sum)]
    total: u64,
    #[aggregate(strategy = Distribution)]
    obs: u64,
    #[aggregate(strategy = KeepLast)]
    last: u64,
}

/// hand-written constant-hash key over `RecEntry` (second tee branch / second worker branch)
#[derive(Clone, PartialEq, Eq)]
#[metrics]
pub struct CollideKey<'a> {
    name: Cow<'a, str>,
}
impl Hash for CollideKey<'_> {
    fn hash<H: Hasher>(&self, state: &mut H) {
        state.write_u8(7);
    }
}
pub struct CollideKeyExtractor;
impl Key<RecEntry> for CollideKeyExtractor {
    type Key<'a> = CollideKey<'a>;
    fn from_source(source: &RecEntry) -> Self::Key<'_> {
        #[allow(deprecated)]
        CollideKey { name: Cow::Borrowed(source.name.as_str()) }
    }
    fn static_key<'a>(key: &Self::Key<'a>) -> Self::Key<'static> {
        CollideKey { name: Cow::Owned(key.name.clone().into_owned()) }
    }
    fn static_key_matches<'a>(owned: &Self::Key<'static>, borrowed: &Self::Key<'a>) -> bool {
        owned == borrowed
    }
}
pub struct ByCollide;
impl AggregateStrategy for ByCollide {
    type Source = RecEntry;
    type Key = CollideKeyExtractor;
}

#[aggregate]
#[metrics]
pub struct Inner {
    #[aggregate(strategy = Sum)]
    inner_count: u64,
}

/// entry mode, no key (embedded / mutex), with `Flatten`
#[aggregate]
#[metrics]
pub struct Flat {
    #[aggregate(strategy = Sum)]
    total: u64,
    #[aggregate(strategy = Distribution)]
    obs: u64,
    #[aggregate(strategy = KeepLast)]
    last: u64,
    #[aggregate(strategy = Flatten)]
    #[metrics(flatten)]
    inner: Inner,
}

/// floating-point distribution field (sort-and-merge keeps every observation): values at the edge
/// of the number line, including +inf which the EMF format later clamps
#[aggregate]
#[metrics]
pub struct FRec {
    #[aggregate(key)]
    name: String,
    #[aggregate(strategy = Sum)]
    total: u64,
    #[aggregate(strategy = Histogram<f64, SortAndMerge>)]
    lat: f64,
}

/// entry mode + `ref`, no key: `Aggregate::insert_and_send_to`
#[aggregate(ref)]
#[metrics]
pub struct Plain {
    #[aggregate(strategy = Sum)]
    total: u64,
    #[aggregate(strategy = Histogram<u64, SortAndMerge>)]
    obs: u64,
    #[aggregate(strategy = KeepLast)]
    last: u64,
}

#[aggregate(direct)]
#[metrics]
pub struct InnerD {
    #[aggregate(strategy = Sum)]
    inner_count: u64,
}

/// direct mode (the struct itself is merged), TWO key fields, with `Flatten`
#[aggregate(direct)]
#[metrics]
pub struct Direct {
    #[aggregate(key)]
    name: String,
    #[aggregate(key)]
    #[metrics(format = ToString)]
    shard: u8,
    #[aggregate(strategy = Sum)]
    total: u64,
    #[aggregate(strategy = Distribution)]
    obs: u64,
    #[aggregate(strategy = KeepLast)]
    last: u64,
    #[aggregate(strategy = Flatten)]
    #[metrics(flatten)]
    inner: InnerD,
}

#[metrics]
struct Parent {
    #[metrics(flatten)]
    agg: Aggregate<Flat>,
    id: &'static str,
}
#[metrics]
struct ParentPlain {
    #[metrics(flatten)]
    agg: Aggregate<Plain>,
    id: &'static str,
}
#[metrics]
struct ParentMx {
    #[metrics(flatten)]
    agg: MutexSink<Aggregate<Flat>>,
    id: &'static str,
}

// ---------------------------------------------------------------------------------------------
// input alphabet
// ---------------------------------------------------------------------------------------------

#[derive(Clone, Copy)]
struct Payload {
    total: u64,
    obs: u64,
    last: u64,
    inner: u64,
}
/// payload 0 and 2 share the observation value (duplicates must be kept by count)
const PAYLOADS: [Payload; 3] = [
    Payload { total: 1, obs: 5, last: 100, inner: 1 },
    Payload { total: 2, obs: 7, last: 200, inner: 10 },
    Payload { total: 4, obs: 5, last: 300, inner: 100 },
];
/// "a" is a prefix of "ab"
const NAMES: [&str; 3] = ["a", "b", "ab"];
/// two-field keys: the first two share the name, the first and third share the shard
const NAME_SHARD: [(&str, u8); 3] = [("a", 0), ("a", 1), ("b", 0)];

fn rec(k: usize, p: usize) -> Rec {
    let p = PAYLOADS[p];
    Rec { name: NAMES[k].to_string(), total: p.total, obs: p.obs, last: p.last }
}
fn coll(k: usize, p: usize) -> Coll {
    let p = PAYLOADS[p];
    Coll { name: CName(NAMES[k].to_string()), total: p.total, obs: p.obs, last: p.last }
}
fn flat(p: usize) -> Flat {
    let p = PAYLOADS[p];
    Flat { total: p.total, obs: p.obs, last: p.last, inner: Inner { inner_count: p.inner } }
}
fn plain(p: usize) -> Plain {
    let p = PAYLOADS[p];
    Plain { total: p.total, obs: p.obs, last: p.last }
}
fn direct(k: usize, p: usize) -> Direct {
    let p = PAYLOADS[p];
    let (n, s) = NAME_SHARD[k];
    Direct { name: n.to_string(), shard: s, total: p.total, obs: p.obs, last: p.last, inner: InnerD { inner_count: p.inner } }
}

// ---------------------------------------------------------------------------------------------
// normalised view of an emitted aggregate + the reference fold
// ---------------------------------------------------------------------------------------------

#[derive(Clone, Debug, PartialEq, Eq, Hash, PartialOrd, Ord)]
struct Agg {
    key: String,
    total: u64,
    /// sorted multiset of observations
    obs: Vec<u64>,
    last: Option<u64>,
    inner: Option<u64>,
}
impl Agg {
    fn json(&self) -> Json {
        json!({"key": self.key, "total": self.total, "obs": self.obs, "last": self.last, "inner": self.inner})
    }
}

#[derive(Clone, Copy, PartialEq, Eq)]
enum KeyKind {
    None,
    Name,
    NameShard,
}

/// one observable output of a sink kind
#[derive(Clone, Copy)]
struct Branch {
    name: &'static str,
    key: KeyKind,
    has_inner: bool,
    /// unaggregated pass-through (NonAggregatedSink / insert_and_send_to): one entry per input, in order
    raw: bool,
    const_hash: bool,
    /// class names
    family: Family,
}
#[derive(Clone, Copy, PartialEq, Eq)]
enum Family {
    Plain,
    Tee,
    Worker,
    Guard,
}

impl Branch {
    fn key_label(&self, k: usize) -> String {
        match self.key {
            KeyKind::None => String::new(),
            KeyKind::Name => NAMES[k].to_string(),
            KeyKind::NameShard => format!("{}#{}", NAME_SHARD[k].0, NAME_SHARD[k].1),
        }
    }
    fn lost_class(&self) -> String {
        match self.family {
            Family::Tee => format!("tee:branch-missed-input:{}", self.name),
            Family::Guard => format!("merge-on-drop:lost:{}", self.name),
            _ => format!("{}:lost-input", self.name),
        }
    }
    fn merged_class(&self) -> String {
        if self.const_hash {
            format!("{}:hash-collision-merged-distinct-keys", self.name)
        } else {
            format!("{}:merged-distinct-keys", self.name)
        }
    }
}

fn observations(d: &[Observation]) -> Result<Vec<u64>, String> {
    let mut out = Vec::new();
    let mut push = |f: f64, n: u64| {
        if f < 0.0 || f.fract() != 0.0 || f > 1e15 {
            return Err(format!("non-integral observation {f}"));
        }
        for _ in 0..n {
            out.push(f as u64);
        }
        Ok(())
    };
    for o in d {
        match o {
            Observation::Unsigned(v) => push(*v as f64, 1)?,
            Observation::Floating(f) => push(*f, 1)?,
            Observation::Repeated { total, occurrences } => {
                if *occurrences == 0 {
                    return Err("Repeated with 0 occurrences".into());
                }
                push(*total / *occurrences as f64, *occurrences)?
            }
            _ => return Err("unknown observation kind".into()),
        }
    }
    out.sort();
    Ok(out)
}

fn single(e: &TestEntry, name: &str) -> Result<Option<u64>, String> {
    match e.metrics.get(name) {
        None => Ok(None),
        Some(m) => {
            let v = observations(&m.distribution)?;
            if v.len() != 1 {
                return Err(format!("metric {name} has {} observations, expected a scalar", v.len()));
            }
            Ok(Some(v[0]))
        }
    }
}

fn decode(b: &Branch, e: &TestEntry) -> Result<Agg, String> {
    let key = match b.key {
        KeyKind::None => String::new(),
        KeyKind::Name => e.values.get("name").ok_or("no `name` value on the aggregate")?.clone(),
        KeyKind::NameShard => format!(
            "{}#{}",
            e.values.get("name").ok_or("no `name` value on the aggregate")?,
            e.values.get("shard").ok_or("no `shard` value on the aggregate")?
        ),
    };
    let total = single(e, "total")?.ok_or("no `total` metric")?;
    let obs = match e.metrics.get("obs") {
        None => Vec::new(),
        Some(m) => observations(&m.distribution)?,
    };
    let last = single(e, "last")?;
    let inner = single(e, "inner_count")?;
    if b.has_inner != inner.is_some() {
        return Err(format!("inner_count present={} expected present={}", inner.is_some(), b.has_inner));
    }
    Ok(Agg { key, total, obs, last, inner })
}

/// reference fold, straight from the statement: per key, sum / multiset / last
fn reference(b: &Branch, seg: &[(u8, u8)]) -> BTreeMap<String, Agg> {
    let mut m: BTreeMap<String, Agg> = BTreeMap::new();
    for &(k, p) in seg {
        let key = b.key_label(k as usize);
        let p = PAYLOADS[p as usize];
        let a = m.entry(key.clone()).or_insert_with(|| Agg { key, total: 0, obs: vec![], last: None, inner: b.has_inner.then_some(0) });
        a.total += p.total;
        a.obs.push(p.obs);
        a.last = Some(p.last);
        if let Some(i) = a.inner.as_mut() {
            *i += p.inner;
        }
    }
    for a in m.values_mut() {
        a.obs.sort();
    }
    m
}

// ---------------------------------------------------------------------------------------------
// drivers: the real sinks
// ---------------------------------------------------------------------------------------------

trait Driver {
    fn branches(&self) -> &'static [Branch];
    /// what an empty flush emits is not determined by the statement for these (un-keyed) kinds
    fn empty_flush_undetermined(&self) -> bool {
        false
    }
    fn merge(&mut self, k: usize, p: usize);
    /// flush; per branch, everything the downstream sink received since the previous call
    fn flush(&mut self) -> Vec<Vec<TestEntry>>;
    /// worker only: a second flush().await as a barrier (the channel is FIFO, so when it returns the
    /// worker has finished handling the first flush request), then look again - tells "the first
    /// flush().await returned before everything was emitted" from "lost"
    fn late(&mut self) -> Option<Vec<Vec<TestEntry>>> {
        None
    }
}

/// reads what a `test_entry_sink()` inspector received since the last read
struct Tap {
    insp: Inspector,
    seen: usize,
}
impl Tap {
    fn new(insp: Inspector) -> Tap {
        Tap { insp, seen: 0 }
    }
    fn take(&mut self) -> Vec<TestEntry> {
        let mut all = self.insp.entries();
        let new = all.split_off(self.seen.min(all.len()));
        self.seen += new.len();
        new
    }
}

const fn br(name: &'static str, key: KeyKind, has_inner: bool) -> Branch {
    Branch { name, key, has_inner, raw: false, const_hash: false, family: Family::Plain }
}

// --- embedded Aggregate (no key): insert; "flush" = close the parent entry -------------------
struct Embedded {
    parent: Option<Parent>,
}
impl Embedded {
    fn new() -> Self {
        Embedded { parent: Some(Parent { agg: Aggregate::default(), id: "p" }) }
    }
}
impl Driver for Embedded {
    fn branches(&self) -> &'static [Branch] {
        const B: [Branch; 1] = [br("embedded", KeyKind::None, true)];
        &B
    }
    fn empty_flush_undetermined(&self) -> bool {
        true
    }
    fn merge(&mut self, _k: usize, p: usize) {
        self.parent.as_mut().unwrap().agg.insert(flat(p));
    }
    fn flush(&mut self) -> Vec<Vec<TestEntry>> {
        let p = self.parent.replace(Parent { agg: Aggregate::default(), id: "p" }).unwrap();
        vec![vec![test_metric(p)]]
    }
}

// --- embedded Aggregate, insert_and_send_to: merged by reference AND passed on raw -----------
struct EmbeddedSendTo {
    parent: Option<ParentPlain>,
    raw_sink: metrique::writer::BoxEntrySink,
    raw: Tap,
}
impl EmbeddedSendTo {
    fn new() -> Self {
        let t = test_entry_sink();
        EmbeddedSendTo { parent: Some(ParentPlain { agg: Aggregate::default(), id: "p" }), raw_sink: t.sink, raw: Tap::new(t.inspector) }
    }
}
impl Driver for EmbeddedSendTo {
    fn branches(&self) -> &'static [Branch] {
        const B: [Branch; 2] = [
            br("embedded-send-to", KeyKind::None, false),
            Branch { name: "embedded-send-to-raw", key: KeyKind::None, has_inner: false, raw: true, const_hash: false, family: Family::Tee },
        ];
        &B
    }
    fn empty_flush_undetermined(&self) -> bool {
        true
    }
    fn merge(&mut self, _k: usize, p: usize) {
        self.parent.as_mut().unwrap().agg.insert_and_send_to(plain(p), &self.raw_sink);
    }
    fn flush(&mut self) -> Vec<Vec<TestEntry>> {
        let p = self.parent.replace(ParentPlain { agg: Aggregate::default(), id: "p" }).unwrap();
        vec![vec![test_metric(p)], self.raw.take()]
    }
}

// --- KeyedAggregator, generic over the strategy ----------------------------------------------
struct Keyed<T: AggregateStrategy, const REF: bool> {
    agg: KeyedAggregator<T>,
    tap: Tap,
    make: fn(usize, usize) -> T::Source,
    b: &'static [Branch],
}
impl<T, const REF: bool> Keyed<T, REF>
where
    T: AggregateStrategy,
    <T::Source as metrique_aggregation::traits::Merge>::MergeConfig: Default,
    metrique::writer::BoxEntrySink: metrique_writer::EntrySink<AggregatedEntry<T>>,
{
    fn new(make: fn(usize, usize) -> T::Source, b: &'static [Branch]) -> Self {
        let t = test_entry_sink();
        Keyed { agg: KeyedAggregator::new(t.sink), tap: Tap::new(t.inspector), make, b }
    }
}
impl<T> Driver for Keyed<T, false>
where
    T: AggregateStrategy,
    KeyedAggregator<T>: AggregateSink<T::Source> + FlushableSink,
{
    fn branches(&self) -> &'static [Branch] {
        self.b
    }
    fn merge(&mut self, k: usize, p: usize) {
        self.agg.merge((self.make)(k, p));
    }
    fn flush(&mut self) -> Vec<Vec<TestEntry>> {
        self.agg.flush();
        vec![self.tap.take()]
    }
}
impl<T> Driver for Keyed<T, true>
where
    T: AggregateStrategy,
    KeyedAggregator<T>: AggregateSinkRef<T::Source> + FlushableSink,
{
    fn branches(&self) -> &'static [Branch] {
        self.b
    }
    fn merge(&mut self, k: usize, p: usize) {
        let e = (self.make)(k, p);
        self.agg.merge_ref(&e);
    }
    fn flush(&mut self) -> Vec<Vec<TestEntry>> {
        self.agg.flush();
        vec![self.tap.take()]
    }
}
const B_KEYED: [Branch; 1] = [br("keyed", KeyKind::Name, false)];
const B_KEYED_REF: [Branch; 1] = [br("keyed-ref", KeyKind::Name, false)];
const B_KEYED_STR: [Branch; 1] = [br("keyed-borrowed-str-key", KeyKind::Name, false)];
const B_KEYED_CONST: [Branch; 1] =
    [Branch { name: "keyed-const-hash", key: KeyKind::Name, has_inner: false, raw: false, const_hash: true, family: Family::Plain }];
const B_KEYED_DIRECT: [Branch; 1] = [br("keyed-direct-two-key-fields", KeyKind::NameShard, true)];

// --- MutexSink<Aggregate>: RootSink::merge through a clone; "flush" = close --------------------
struct Mutexed {
    sink: MutexSink<Aggregate<Flat>>,
    n: usize,
}
impl Driver for Mutexed {
    fn branches(&self) -> &'static [Branch] {
        const B: [Branch; 1] = [br("mutex", KeyKind::None, true)];
        &B
    }
    fn empty_flush_undetermined(&self) -> bool {
        true
    }
    fn merge(&mut self, _k: usize, p: usize) {
        self.n += 1;
        // alternate between the two public ways in
        if self.n % 2 == 0 {
            RootSink::merge(&self.sink, flat(p).close());
        } else {
            drop(flat(p).close_and_merge(self.sink.clone()));
        }
    }
    fn flush(&mut self) -> Vec<Vec<TestEntry>> {
        // closing one handle takes the accumulated state; the other handles keep working
        vec![vec![test_metric(ParentMx { agg: self.sink.clone(), id: "p" })]]
    }
}

// --- TeeSink ---------------------------------------------------------------------------------------
/// three-branch chain as in tests/split_sink.rs: the two aggregators are fed BY REFERENCE
/// (`merge_ref`), the unaggregated pass-through receives the owned entry last
type TeeInner<SA, SB, SR> = TeeSink<KeyedAggregator<Rec, SA>, TeeSink<KeyedAggregator<ByCollide, SB>, metrique_aggregation::sink::NonAggregatedSink<SR>>>;
type BoxSink = metrique::writer::BoxEntrySink;
struct Tee {
    /// two branches: by-ref aggregator + OWNED aggregator (constant-hash key)
    tee2: TeeSink<KeyedAggregator<ByStr>, KeyedAggregator<ByCollide>>,
    tee3: TeeInner<BoxSink, BoxSink, BoxSink>,
    taps: [Tap; 5],
}
impl Tee {
    fn new() -> Self {
        let (x, y) = (test_entry_sink(), test_entry_sink());
        let (a, b, r) = (test_entry_sink(), test_entry_sink(), test_entry_sink());
        Tee {
            tee2: TeeSink::new(KeyedAggregator::<ByStr>::new(x.sink), KeyedAggregator::<ByCollide>::new(y.sink)),
            tee3: TeeSink::new(KeyedAggregator::<Rec>::new(a.sink), TeeSink::new(KeyedAggregator::<ByCollide>::new(b.sink), non_aggregate(r.sink))),
            taps: [Tap::new(x.inspector), Tap::new(y.inspector), Tap::new(a.inspector), Tap::new(b.inspector), Tap::new(r.inspector)],
        }
    }
}
const fn tb(name: &'static str, raw: bool, const_hash: bool, family: Family) -> Branch {
    Branch { name, key: KeyKind::Name, has_inner: false, raw, const_hash, family }
}
const B_TEE: [Branch; 5] = [
    tb("tee-by-ref-branch", false, false, Family::Tee),
    tb("tee-owned-branch-const-hash", false, true, Family::Tee),
    tb("tee3-first-branch", false, false, Family::Tee),
    tb("tee3-nested-by-ref-branch-const-hash", false, true, Family::Tee),
    tb("tee3-nested-owned-raw-branch", true, false, Family::Tee),
];
impl Driver for Tee {
    fn branches(&self) -> &'static [Branch] {
        &B_TEE
    }
    fn merge(&mut self, k: usize, p: usize) {
        self.tee2.merge(rec(k, p).close());
        self.tee3.merge(rec(k, p).close());
    }
    fn flush(&mut self) -> Vec<Vec<TestEntry>> {
        self.tee2.flush();
        self.tee3.flush();
        self.taps.iter_mut().map(|t| t.take()).collect()
    }
}

// --- WorkerSink driven from one thread; ONE long-lived instance per checker thread ------------
type VSink<T> = VecEntrySink<AggregatedEntry<T>>;
type RawSink = VecEntrySink<metrique::RootEntry<RecEntry>>;
struct WorkerRig {
    sink: WorkerSink<RecEntry, TeeInner<VSink<Rec>, VSink<ByCollide>, RawSink>>,
    a: VSink<Rec>,
    b: VSink<ByCollide>,
    raw: RawSink,
    dsink: WorkerSink<Direct, KeyedAggregator<Direct, VSink<Direct>>>,
    d: VSink<Direct>,
}
/// the timer must never fire during a run
const NEVER: Duration = Duration::from_secs(7 * 24 * 3600);
impl WorkerRig {
    fn new() -> Self {
        let (a, b, raw, d) = (VSink::<Rec>::new(), VSink::<ByCollide>::new(), RawSink::new(), VSink::<Direct>::new());
        let tee = TeeSink::new(KeyedAggregator::<Rec, _>::new(a.clone()), TeeSink::new(KeyedAggregator::<ByCollide, _>::new(b.clone()), non_aggregate(raw.clone())));
        WorkerRig {
            sink: WorkerSink::new(tee, NEVER),
            a,
            b,
            raw,
            dsink: WorkerSink::new(KeyedAggregator::<Direct, _>::new(d.clone()), NEVER),
            d,
        }
    }
    fn drain_rec(&self) -> Vec<Vec<TestEntry>> {
        vec![
            self.a.drain().iter().map(to_test_entry).collect(),
            self.b.drain().iter().map(to_test_entry).collect(),
            self.raw.drain().iter().map(to_test_entry).collect(),
        ]
    }
}
const B_WORKER: [Branch; 3] = [
    Branch { name: "worker", key: KeyKind::Name, has_inner: false, raw: false, const_hash: false, family: Family::Worker },
    Branch { name: "worker-tee-const-hash-branch", key: KeyKind::Name, has_inner: false, raw: false, const_hash: true, family: Family::Worker },
    Branch { name: "worker-tee-raw-branch", key: KeyKind::Name, has_inner: false, raw: true, const_hash: false, family: Family::Worker },
];
struct Worker<'a> {
    rig: &'a WorkerRig,
}
impl Driver for Worker<'_> {
    fn branches(&self) -> &'static [Branch] {
        &B_WORKER
    }
    fn merge(&mut self, k: usize, p: usize) {
        self.rig.sink.send(rec(k, p).close());
    }
    fn flush(&mut self) -> Vec<Vec<TestEntry>> {
        futures::executor::block_on(self.rig.sink.flush());
        // right after the await: everything sent before must already be downstream
        self.rig.drain_rec()
    }
    fn late(&mut self) -> Option<Vec<Vec<TestEntry>>> {
        futures::executor::block_on(self.rig.sink.flush());
        Some(self.rig.drain_rec())
    }
}

// --- merge-on-drop guards ------------------------------------------------------------------------
/// Drops a guard either plainly or by the unwinding of a (caught) panic of its owner.
fn drop_guard<G>(g: G, unwinding: bool) {
    if unwinding {
        let r = std::panic::catch_unwind(std::panic::AssertUnwindSafe(move || {
            let _owned = g;
            std::panic::panic_any(ExpectedUnwind);
        }));
        assert!(r.is_err());
    } else {
        drop(g);
    }
}
struct ExpectedUnwind;

/// `CloseAndMergeOnDrop` guards into a MutexSink; `merge` = drop the next guard in the drop order
struct GuardMutex {
    sink: MutexSink<Aggregate<Flat>>,
    guards: Vec<Option<CloseAndMergeOnDrop<Flat, MutexSink<Aggregate<Flat>>>>>,
    order: Vec<usize>,
    next: usize,
    /// bit i: the i-th drop of the history happens by unwinding
    unwind: u32,
}
const B_GUARD_MUTEX: [Branch; 1] =
    [Branch { name: "close-and-merge-on-drop-into-mutex", key: KeyKind::None, has_inner: true, raw: false, const_hash: false, family: Family::Guard }];
impl Driver for GuardMutex {
    fn branches(&self) -> &'static [Branch] {
        &B_GUARD_MUTEX
    }
    fn empty_flush_undetermined(&self) -> bool {
        true
    }
    fn merge(&mut self, _k: usize, _p: usize) {
        let g = self.guards[self.order[self.next]].take().expect("guard dropped twice by the harness");
        let unwinding = self.unwind >> self.next & 1 == 1;
        self.next += 1;
        drop_guard(g, unwinding);
    }
    fn flush(&mut self) -> Vec<Vec<TestEntry>> {
        vec![vec![test_metric(ParentMx { agg: self.sink.clone(), id: "p" })]]
    }
}

/// `CloseAndMergeOnDrop` (entry mode) guards into the shared WorkerSink
struct GuardWorkerRec<'a> {
    rig: &'a WorkerRig,
    guards: Vec<Option<CloseAndMergeOnDrop<Rec, WorkerSink<RecEntry, TeeInner<VSink<Rec>, VSink<ByCollide>, RawSink>>>>>,
    order: Vec<usize>,
    next: usize,
    /// bit i: the i-th drop of the history happens by unwinding
    unwind: u32,
}
const B_GUARD_WORKER_REC: [Branch; 3] = [
    Branch { name: "close-and-merge-on-drop-into-worker", key: KeyKind::Name, has_inner: false, raw: false, const_hash: false, family: Family::Guard },
    Branch { name: "close-and-merge-on-drop-into-worker-const-hash-branch", key: KeyKind::Name, has_inner: false, raw: false, const_hash: true, family: Family::Guard },
    Branch { name: "close-and-merge-on-drop-into-worker-raw-branch", key: KeyKind::Name, has_inner: false, raw: true, const_hash: false, family: Family::Guard },
];
impl Driver for GuardWorkerRec<'_> {
    fn branches(&self) -> &'static [Branch] {
        &B_GUARD_WORKER_REC
    }
    fn merge(&mut self, _k: usize, _p: usize) {
        let g = self.guards[self.order[self.next]].take().expect("guard dropped twice by the harness");
        let unwinding = self.unwind >> self.next & 1 == 1;
        self.next += 1;
        drop_guard(g, unwinding);
    }
    fn flush(&mut self) -> Vec<Vec<TestEntry>> {
        futures::executor::block_on(self.rig.sink.flush());
        self.rig.drain_rec()
    }
    fn late(&mut self) -> Option<Vec<Vec<TestEntry>>> {
        futures::executor::block_on(self.rig.sink.flush());
        Some(self.rig.drain_rec())
    }
}

/// `MergeOnDrop` (direct mode, two key fields, Flatten) guards into the shared direct WorkerSink
struct GuardWorkerDirect<'a> {
    rig: &'a WorkerRig,
    guards: Vec<Option<MergeOnDrop<Direct, WorkerSink<Direct, KeyedAggregator<Direct, VSink<Direct>>>>>>,
    order: Vec<usize>,
    next: usize,
    /// bit i: the i-th drop of the history happens by unwinding
    unwind: u32,
}
const B_GUARD_WORKER_DIRECT: [Branch; 1] =
    [Branch { name: "merge-on-drop-into-worker", key: KeyKind::NameShard, has_inner: true, raw: false, const_hash: false, family: Family::Guard }];
impl Driver for GuardWorkerDirect<'_> {
    fn branches(&self) -> &'static [Branch] {
        &B_GUARD_WORKER_DIRECT
    }
    fn merge(&mut self, _k: usize, _p: usize) {
        let g = self.guards[self.order[self.next]].take().expect("guard dropped twice by the harness");
        let unwinding = self.unwind >> self.next & 1 == 1;
        self.next += 1;
        drop_guard(g, unwinding);
    }
    fn flush(&mut self) -> Vec<Vec<TestEntry>> {
        futures::executor::block_on(self.rig.dsink.flush());
        vec![self.rig.d.drain().iter().map(to_test_entry).collect()]
    }
    fn late(&mut self) -> Option<Vec<Vec<TestEntry>>> {
        futures::executor::block_on(self.rig.dsink.flush());
        Some(vec![self.rig.d.drain().iter().map(to_test_entry).collect()])
    }
}

// ---------------------------------------------------------------------------------------------
// running one history against one driver, with the oracle
// ---------------------------------------------------------------------------------------------

#[derive(Default)]
struct St {
    histories: u64,
    runs: u64,
    transitions: u64,
    flushes_checked: u64,
    aggregates_checked: u64,
    skipped_undetermined: u64,
    v: Violations,
    outcomes: HashSet<u64>,
    per_sink: BTreeMap<&'static str, u64>,
    samples: Vec<Json>,
}

struct Hist<'a> {
    /// inputs in the order they reach the sink
    inputs: &'a [(u8, u8)],
    /// bit i set: flush after input i (i < n-1); a final flush always follows
    mask: u32,
    /// extra context for the replay file (guard histories)
    extra: Option<Json>,
}
impl Hist<'_> {
    fn json(&self, b: &Branch) -> Json {
        let n = self.inputs.len();
        let mut j = json!({
            "sink": b.name,
            "inputs_in_merge_order": self.inputs.iter().map(|&(k, p)| json!([b.key_label(k as usize), p])).collect::<Vec<_>>(),
            "payloads": PAYLOADS.iter().map(|p| json!({"total": p.total, "obs": p.obs, "last": p.last, "inner": p.inner})).collect::<Vec<_>>(),
            "flush_after_input": (0..n).filter(|i| *i + 1 == n || self.mask >> i & 1 == 1).collect::<Vec<_>>(),
        });
        if let Some(e) = &self.extra {
            j["guards"] = e.clone();
        }
        j
    }
}

fn check_flush(st: &mut St, b: &Branch, h: &Hist, flush_no: usize, seg: &[(u8, u8)], got: &[TestEntry], earlier: &[Agg]) -> (Vec<Agg>, Option<String>) {
    st.flushes_checked += 1;
    let mut decoded = Vec::new();
    let mut first_class: Option<String> = None;
    let mut report = |st: &mut St, class: String, what: String, decoded: &[Agg], expected: Json| {
        let mut j = h.json(b);
        j["at_flush_number"] = json!(flush_no);
        j["segment"] = json!(seg.iter().map(|&(k, p)| json!([b.key_label(k as usize), p])).collect::<Vec<_>>());
        j["expected"] = expected;
        j["emitted"] = json!(decoded.iter().map(|a| a.json()).collect::<Vec<_>>());
        st.v.add(class.clone(), format!("{}: {what}", b.name), j);
        if first_class.is_none() {
            first_class = Some(class);
        }
    };
    for e in got {
        match decode(b, e) {
            Ok(a) => decoded.push(a),
            Err(why) => {
                report(st, format!("{}:malformed-aggregate", b.name), format!("emitted entry cannot be read back: {why} ({e:?})"), &[], json!(null));
                return (decoded, first_class);
            }
        }
    }
    st.aggregates_checked += decoded.len() as u64;
    if b.raw {
        // unaggregated pass-through: exactly the inputs, in order
        let want: Vec<Agg> = seg
            .iter()
            .map(|&(k, p)| {
                let p = PAYLOADS[p as usize];
                Agg { key: b.key_label(k as usize), total: p.total, obs: vec![p.obs], last: Some(p.last), inner: None }
            })
            .collect();
        if decoded != want {
            let class = if decoded.len() < want.len() { b.lost_class() } else { format!("{}:raw-entries-wrong", b.name) };
            report(st, class, format!("pass-through branch received {} entries for {} inputs or different contents", decoded.len(), want.len()), &decoded, json!(want.iter().map(|a| a.json()).collect::<Vec<_>>()));
        }
        return (decoded, first_class);
    }
    let want = reference(b, seg);
    let want_json = json!(want.values().map(|a| a.json()).collect::<Vec<_>>());
    let mut by_key: BTreeMap<&str, Vec<&Agg>> = BTreeMap::new();
    for a in &decoded {
        by_key.entry(a.key.as_str()).or_default().push(a);
    }
    // one aggregate per distinct key
    let mut key_set_ok = true;
    if let Some((k, v)) = by_key.iter().find(|(_, v)| v.len() > 1) {
        key_set_ok = false;
        report(st, format!("{}:two-aggregates-for-one-key", b.name), format!("{} aggregates for key {k:?} in one flush", v.len()), &decoded, want_json.clone());
    }
    let sum_got: u64 = decoded.iter().map(|a| a.total).sum();
    let sum_want: u64 = want.values().map(|a| a.total).sum();
    let cnt_got: usize = decoded.iter().map(|a| a.obs.len()).sum();
    let missing: Vec<&String> = want.keys().filter(|k| !by_key.contains_key(k.as_str())).collect();
    let extra: Vec<&&str> = by_key.keys().filter(|k| !want.contains_key(**k)).collect();
    if !missing.is_empty() {
        key_set_ok = false;
        if sum_got == sum_want && cnt_got == seg.len() && extra.is_empty() {
            report(st, b.merged_class(), format!("no aggregate for key(s) {missing:?}, but their inputs were folded into another key's aggregate"), &decoded, want_json.clone());
        } else {
            report(st, b.lost_class(), format!("no aggregate emitted for key(s) {missing:?} merged since the previous flush"), &decoded, want_json.clone());
        }
    }
    if !extra.is_empty() {
        key_set_ok = false;
        let stale = decoded.iter().any(|a| extra.iter().any(|k| **k == a.key) && earlier.contains(a));
        let class = if stale { format!("{}:aggregate-emitted-again-after-flush", b.name) } else { format!("{}:aggregate-for-key-not-merged", b.name) };
        report(st, class, format!("aggregate(s) for key(s) {extra:?} that received no input since the previous flush"), &decoded, want_json.clone());
    }
    // field-level comparison only when the key set is right (otherwise the failure is already
    // classified and the fields of the receiving aggregates are wrong as a consequence)
    for (k, w) in want.iter().filter(|_| key_set_ok) {
        let Some(g) = by_key.get(k.as_str()).and_then(|v| v.first()) else { continue };
        // every per-input field short / over at once: whole inputs are missing / counted again
        if g.total < w.total && g.obs.len() < w.obs.len() {
            report(st, b.lost_class(), format!("key {k:?}: the aggregate holds {} of {} inputs (sum {} of {})", g.obs.len(), w.obs.len(), g.total, w.total), &decoded, want_json.clone());
            continue;
        }
        if g.total > w.total && g.obs.len() > w.obs.len() {
            report(st, format!("{}:aggregate-holds-inputs-from-before-the-previous-flush-or-twice", b.name), format!("key {k:?}: the aggregate holds {} observations / sum {} for {} inputs / sum {}", g.obs.len(), g.total, w.obs.len(), w.total), &decoded, want_json.clone());
            continue;
        }
        if g.total != w.total {
            report(st, format!("sum-wrong:{}", b.name), format!("key {k:?}: Sum field is {} but the inputs add up to {}", g.total, w.total), &decoded, want_json.clone());
        }
        if g.obs != w.obs {
            let class = if g.obs.len() != w.obs.len() { "distribution-count-wrong" } else { "distribution-values-wrong" };
            report(st, format!("{class}:{}", b.name), format!("key {k:?}: distribution holds {:?}, the inputs' observations are {:?}", g.obs, w.obs), &decoded, want_json.clone());
        }
        if g.last != w.last {
            report(st, format!("keep-last-wrong:{}", b.name), format!("key {k:?}: KeepLast field is {:?}, the last input had {:?}", g.last, w.last), &decoded, want_json.clone());
        }
        if g.inner != w.inner {
            report(st, format!("flatten-wrong:{}", b.name), format!("key {k:?}: flattened inner Sum is {:?}, expected {:?}", g.inner, w.inner), &decoded, want_json.clone());
        }
    }
    decoded.sort();
    let mut hs = DefaultHasher::new();
    (b.key as u8 as u64, b.has_inner, &decoded).hash(&mut hs);
    st.outcomes.insert(hs.finish());
    (decoded, first_class)
}

impl Hash for KeyKind {
    fn hash<H: Hasher>(&self, state: &mut H) {
        (*self as u8).hash(state)
    }
}

fn run(st: &mut St, d: &mut dyn Driver, h: &Hist) {
    let branches = d.branches();
    let n = h.inputs.len();
    if n == 0 && d.empty_flush_undetermined() {
        st.skipped_undetermined += 1;
        return;
    }
    st.runs += 1;
    *st.per_sink.entry(branches[0].name).or_default() += 1;
    let mut seg_start = 0;
    let mut flush_no = 0;
    let mut emitted: Vec<Vec<Agg>> = vec![Vec::new(); branches.len()];
    let flush_violation = std::cell::Cell::new(false);
    let mut do_flush = |st: &mut St, d: &mut dyn Driver, seg: &[(u8, u8)], flush_no: usize| {
        let got = d.flush();
        st.transitions += 1;
        assert_eq!(got.len(), branches.len());
        // violations of this flush are held back until the late probe (worker kinds) has decided
        // between "flush().await returned too early" and a genuinely wrong emission
        let held = std::mem::take(&mut st.v);
        let mut lost = false;
        let mut decs = Vec::new();
        for (bi, b) in branches.iter().enumerate() {
            let (dec, class) = check_flush(st, b, h, flush_no, seg, &got[bi], &emitted[bi]);
            if class.is_some() {
                lost = true;
                flush_violation.set(true);
            }
            decs.push(dec);
        }
        let mut this_flush = std::mem::replace(&mut st.v, held);
        if lost {
            // worker kinds: did the missing aggregates arrive AFTER flush().await returned?
            if let Some(late) = d.late() {
                st.transitions += 1;
                for (bi, b) in branches.iter().enumerate() {
                    if !late[bi].is_empty() {
                        let mut j = h.json(b);
                        j["at_flush_number"] = json!(flush_no);
                        j["downstream_right_after_the_await"] = json!(decs[bi].iter().map(|a| a.json()).collect::<Vec<_>>());
                        j["arrived_only_after_a_second_flush_barrier"] = json!(late[bi].iter().filter_map(|e| decode(b, e).ok()).map(|a| a.json()).collect::<Vec<_>>());
                        this_flush = Violations::default();
                        this_flush.add(
                            "worker:flush-completed-early",
                            format!("{}: flush().await returned before {} entries merged before it had reached the downstream sink", b.name, late[bi].len()),
                            j,
                        );
                        for e in &late[bi] {
                            if let Ok(a) = decode(b, e) {
                                decs[bi].push(a);
                            }
                        }
                    }
                }
            }
        }
        st.v.merge(this_flush);
        for (bi, dec) in decs.into_iter().enumerate() {
            emitted[bi].extend(dec);
        }
    };
    if n == 0 {
        do_flush(st, d, &[], 0);
    }
    for i in 0..n {
        let (k, p) = h.inputs[i];
        d.merge(k as usize, p as usize);
        st.transitions += 1;
        if i + 1 == n || h.mask >> i & 1 == 1 {
            do_flush(st, d, &h.inputs[seg_start..=i], flush_no);
            flush_no += 1;
            seg_start = i + 1;
        }
    }
    // conservation over the whole history: every input in exactly one emitted aggregate
    let sum_in: u64 = h.inputs.iter().map(|&(_, p)| PAYLOADS[p as usize].total).sum();
    for (bi, b) in branches.iter().enumerate() {
        let sum_out: u64 = emitted[bi].iter().map(|a| a.total).sum();
        let cnt_out: usize = emitted[bi].iter().map(|a| a.obs.len()).sum();
        // (a history with a per-flush violation is already reported under a more specific class)
        if (sum_out != sum_in || cnt_out != n) && !flush_violation.get() {
            let mut j = h.json(b);
            j["emitted_over_all_flushes"] = json!(emitted[bi].iter().map(|a| a.json()).collect::<Vec<_>>());
            let class = if sum_out < sum_in || cnt_out < n { "inputs-lost-overall" } else { "inputs-counted-more-than-once" };
            st.v.add(
                format!("{}:conservation:{class}", b.name),
                format!("{}: over the whole history the aggregates carry sum {sum_out} / {cnt_out} observations, the inputs sum {sum_in} / {n} observations", b.name),
                j,
            );
        }
    }
    if st.samples.len() < 2 && n >= 3 && h.mask != 0 && branches[0].key != KeyKind::None {
        let mut j = h.json(&branches[0]);
        j["emitted_over_all_flushes"] = json!(emitted[0].iter().map(|a| a.json()).collect::<Vec<_>>());
        st.samples.push(j);
    }
}

// ---------------------------------------------------------------------------------------------
// enumeration
// ---------------------------------------------------------------------------------------------

/// all (inputs, flush mask) with `min_len..=max_len` inputs over `nk` keys x 3 payloads
struct Space {
    nk: u64,
    min_len: u32,
    max_len: u32,
}
impl Space {
    fn count_len(&self, n: u32) -> u64 {
        if n == 0 { 1 } else { (self.nk * 3).pow(n) * (1u64 << (n - 1)) }
    }
    fn total(&self) -> u64 {
        (self.min_len..=self.max_len).map(|n| self.count_len(n)).sum()
    }
    fn decode(&self, mut idx: u64, inputs: &mut Vec<(u8, u8)>) -> u32 {
        let mut n = self.min_len;
        while idx >= self.count_len(n) {
            idx -= self.count_len(n);
            n += 1;
        }
        inputs.clear();
        let a = self.nk * 3;
        for _ in 0..n {
            let d = idx % a;
            idx /= a;
            inputs.push(((d / 3) as u8, (d % 3) as u8));
        }
        idx as u32 // the flush mask
    }
}

fn permutations(n: usize) -> Vec<Vec<usize>> {
    fn rec(cur: &mut Vec<usize>, used: &mut Vec<bool>, out: &mut Vec<Vec<usize>>) {
        if cur.len() == used.len() {
            out.push(cur.clone());
            return;
        }
        for i in 0..used.len() {
            if !used[i] {
                used[i] = true;
                cur.push(i);
                rec(cur, used, out);
                cur.pop();
                used[i] = false;
            }
        }
    }
    let mut out = Vec::new();
    rec(&mut Vec::new(), &mut vec![false; n], &mut out);
    out
}

fn merge_state(into: &mut St, s: St) {
    into.histories += s.histories;
    into.runs += s.runs;
    into.transitions += s.transitions;
    into.flushes_checked += s.flushes_checked;
    into.aggregates_checked += s.aggregates_checked;
    into.skipped_undetermined += s.skipped_undetermined;
    into.v.merge(s.v);
    into.outcomes.extend(s.outcomes);
    for (k, n) in s.per_sink {
        *into.per_sink.entry(k).or_default() += n;
    }
    for x in s.samples {
        if into.samples.len() < 4 {
            into.samples.push(x);
        }
    }
}

struct WSt {
    st: St,
    rig: WorkerRig,
    guard_histories: u64,
}

/// A worker sink that is only ever flushed by hand: its flush interval is `Duration::MAX` (and, as
/// a control, one year). Entries merged through guards, an awaited flush, more entries, the last
/// handle dropped: everything is emitted, a flush completes after emission. Real threads; a panic
/// of the worker shows as a panicking / never completing flush.
fn hand_flushed_workers(v: &mut Violations) -> u64 {
    let mut n = 0;
    for (label, interval) in [("Duration::MAX", Duration::MAX), ("one year", Duration::from_secs(365 * 24 * 3600)), ("u64::MAX / 2 seconds", Duration::from_secs(u64::MAX / 2))] {
        n += 1;
        let d = VSink::<Direct>::new();
        let d2 = d.clone();
        let r = std::panic::catch_unwind(std::panic::AssertUnwindSafe(move || {
            let sink = WorkerSink::new(KeyedAggregator::<Direct, _>::new(d2.clone()), interval);
            drop(direct(0, 0).merge(sink.clone()));
            drop(direct(0, 1).merge(sink.clone()));
            futures::executor::block_on(sink.flush());
            let after_flush = d2.drain().len();
            drop(direct(1, 2).merge(sink.clone()));
            drop(sink);
            // the worker emits what it holds once the last handle is gone
            let t0 = std::time::Instant::now();
            let mut late = 0;
            while late == 0 && t0.elapsed() < Duration::from_secs(30) {
                late += d2.drain().len();
                std::thread::sleep(Duration::from_millis(2));
            }
            (after_flush, late)
        }));
        match r {
            Ok((1, 1)) => {}
            Ok((a, b)) => v.add("worker:hand-flushed:inputs-not-emitted", format!("flush interval {label}: {a} aggregates emitted by the awaited flush (expected 1), {b} after the last handle was dropped (expected 1 within 30 s)"), json!({"flush_interval": label, "emitted_by_flush": a, "emitted_after_last_handle": b})),
            Err(_) => v.add("worker:hand-flushed:panicked", format!("flush interval {label}: building, flushing or dropping the worker sink panicked"), json!({"flush_interval": label})),
        }
    }
    n
}

fn main() {
    let mut rep = Report::from_args("C10", "model_checking");
    let default_hook_w = std::panic::take_hook();
    std::panic::set_hook(Box::new(|_| {}));
    let hand_flushed = hand_flushed_workers(&mut rep.violations);
    std::panic::set_hook(default_hook_w);
    rep.set("hand_flushed_worker_cases", hand_flushed);
    let default_hook = std::panic::take_hook();
    std::panic::set_hook(Box::new(move |info| {
        if !info.payload().is::<ExpectedUnwind>() {
            default_hook(info);
        }
    }));
    let tier = rep.tier;
    let mut all = St::default();

    // ---- phase 1: in-thread sinks --------------------------------------------------------------
    // 3 keys up to `len3` inputs (from the empty history), plus every history of len3+1 inputs over 2 keys
    let len3: u32 = tier.pick(4, 5);
    let mut spaces = vec![Space { nk: 3, min_len: 0, max_len: len3 }];
    spaces.push(Space { nk: 2, min_len: len3 + 1, max_len: len3 + 1 });
    let mut depth = 0;
    for sp in &spaces {
        depth = depth.max(sp.max_len);
        let states = par::for_each_index(sp.total(), 64, St::default, |st, idx| {
            let mut inputs = Vec::new();
            let mask = sp.decode(idx, &mut inputs);
            let h = Hist { inputs: &inputs, mask, extra: None };
            st.histories += 1;
            run(st, &mut Embedded::new(), &h);
            run(st, &mut EmbeddedSendTo::new(), &h);
            run(st, &mut Keyed::<Rec, false>::new(|k, p| rec(k, p).close(), &B_KEYED), &h);
            run(st, &mut Keyed::<Rec, true>::new(|k, p| rec(k, p).close(), &B_KEYED_REF), &h);
            run(st, &mut Keyed::<ByStr, false>::new(|k, p| rec(k, p).close(), &B_KEYED_STR), &h);
            run(st, &mut Keyed::<Coll, false>::new(|k, p| coll(k, p).close(), &B_KEYED_CONST), &h);
            run(st, &mut Keyed::<Direct, false>::new(direct, &B_KEYED_DIRECT), &h);
            run(st, &mut Mutexed { sink: MutexSink::new(Aggregate::default()), n: 0 }, &h);
            run(st, &mut Tee::new(), &h);
        });
        for s in states {
            merge_state(&mut all, s);
        }
    }
    let phase1_histories = all.histories;
    let t_phase1 = rep.start.elapsed().as_secs_f64();

    // ---- phase 2: merge-on-drop guards into a MutexSink, every drop order -----------------------
    // n guards are created up front (payload index = input), a subset of them is created with a
    // different payload and overwritten through DerefMut, then they are dropped in every
    // permutation with every subset of flushes between the drops
    let gmax: usize = tier.pick(3, 4);
    let mut guard_histories = 0u64;
    for n in 1..=gmax {
        let perms = permutations(n);
        let seqs = 3u64.pow(n as u32);
        let masks = 1u64 << (n - 1);
        let muts = 1u64 << n;
        let unwinds = 1u64 << n;
        let total = seqs * perms.len() as u64 * masks * muts * unwinds;
        let states = par::for_each_index(total, 64, St::default, |st, idx| {
            let mut d = [0u64; 5];
            par::decode(idx, &[seqs, perms.len() as u64, masks, muts, unwinds], &mut d);
            let ps: Vec<u8> = (0..n).map(|i| ((d[0] / 3u64.pow(i as u32)) % 3) as u8).collect();
            let order = perms[d[1] as usize].clone();
            let sink = MutexSink::new(Aggregate::<Flat>::default());
            let guards = (0..n)
                .map(|i| {
                    if d[3] >> i & 1 == 1 {
                        let mut g = flat((ps[i] as usize + 1) % 3).close_and_merge(sink.clone());
                        let p = PAYLOADS[ps[i] as usize];
                        g.total = p.total;
                        g.obs = p.obs;
                        g.last = p.last;
                        g.inner.inner_count = p.inner;
                        Some(g)
                    } else {
                        Some(flat(ps[i] as usize).close_and_merge(sink.clone()))
                    }
                })
                .collect();
            let inputs: Vec<(u8, u8)> = order.iter().map(|&g| (0, ps[g])).collect();
            let h = Hist { inputs: &inputs, mask: d[2] as u32, extra: Some(json!({"created": ps, "drop_order": order, "overwritten_through_deref_mut": d[3], "drops_by_unwinding_a_caught_panic (bit i = i-th drop)": d[4]})) };
            st.histories += 1;
            run(st, &mut GuardMutex { sink, guards, order, next: 0, unwind: d[4] as u32 }, &h);
        });
        for s in states {
            guard_histories += s.histories;
            merge_state(&mut all, s);
        }
    }

    // ---- phase 2b: many distinct keys in one flush window ------------------------------------
    // N keys (around powers of two, up to a few thousand), each merged once or twice, one flush
    // (directly and through a WorkerSink): one aggregate per key, sums = inputs
    let sizes: &[usize] = tier.pick(&[63, 64, 65, 1023, 1024, 1025, 1500], &[63, 64, 65, 255, 256, 257, 1023, 1024, 1025, 4095, 4096, 4097, 10_000]);
    let mut many_key_runs = 0u64;
    for &n in sizes {
        for via_worker in [false, true] {
            let t = test_entry_sink();
            let mut tap = Tap::new(t.inspector);
            let mk = |i: usize, v: u64| Rec { name: format!("key-{i}"), total: v, obs: v, last: v };
            if via_worker {
                let w = WorkerSink::new(KeyedAggregator::<Rec, _>::new(t.sink), NEVER);
                for i in 0..n {
                    w.send(mk(i, 1).close());
                    if i % 3 == 0 {
                        w.send(mk(i, 10).close());
                    }
                }
                futures::executor::block_on(w.flush());
            } else {
                let mut agg = KeyedAggregator::<Rec>::new(t.sink);
                for i in 0..n {
                    agg.merge(mk(i, 1).close());
                    if i % 3 == 0 {
                        agg.merge(mk(i, 10).close());
                    }
                }
                agg.flush();
            }
            many_key_runs += 1;
            let got = tap.take();
            let mut by_key: BTreeMap<String, (u64, u64)> = BTreeMap::new();
            for e in &got {
                let name = e.values.get("name").cloned().unwrap_or_default();
                let total = e.metrics.get("total").map(|m| m.as_u64()).unwrap_or(u64::MAX);
                let slot = by_key.entry(name).or_insert((0, 0));
                slot.0 += 1;
                slot.1 += total;
            }
            let how = if via_worker { "WorkerSink over KeyedAggregator" } else { "KeyedAggregator" };
            let replay = json!({"keys": n, "inputs": "key-i merged with total 1, and again with total 10 when i % 3 == 0", "sink": how, "aggregates_emitted": got.len()});
            if got.len() != n {
                all.v.add("many-keys:aggregate-count", format!("{how}: {n} distinct keys merged before one flush, {} aggregates emitted", got.len()), replay.clone());
            }
            for i in 0..n {
                let want = if i % 3 == 0 { 11 } else { 1 };
                match by_key.get(&format!("key-{i}")) {
                    Some((1, t)) if *t == want => {}
                    other => {
                        all.v.add("many-keys:input-not-in-exactly-one-aggregate", format!("{how}: key-{i} of {n}: expected one aggregate with total {want}, got {other:?}"), replay.clone());
                        break;
                    }
                }
            }
        }
    }
    all.histories += many_key_runs;

    // ---- phase 2c: a floating-point distribution field with values at the edge of the number line
    {
        let edge: [f64; 8] = [0.0, -0.0, 5e-324, 1.5, 1.5, f64::MAX, f64::INFINITY, f64::INFINITY];
        for n in 1..=edge.len() {
            let t = test_entry_sink();
            let mut tap = Tap::new(t.inspector);
            let mut agg = KeyedAggregator::<FRec>::new(t.sink);
            for (i, v) in edge[..n].iter().enumerate() {
                agg.merge(FRec { name: format!("k{}", i % 2), total: 1, lat: *v }.close());
            }
            agg.flush();
            all.histories += 1;
            let got = tap.take();
            for key in 0..2usize.min(n) {
                let want: Vec<f64> = edge[..n].iter().enumerate().filter(|(i, _)| i % 2 == key).map(|(_, v)| *v).collect();
                let e = got.iter().find(|e| e.values.get("name").map(|s| s.as_str()) == Some(&format!("k{key}")));
                let (sum, count, values) = match e {
                    Some(e) => {
                        let m = e.metrics.get("lat");
                        let mut vals: Vec<f64> = Vec::new();
                        for o in m.map(|m| m.distribution.clone()).unwrap_or_default() {
                            match o {
                                Observation::Floating(f) => vals.push(f),
                                Observation::Unsigned(u) => vals.push(u as f64),
                                Observation::Repeated { total, occurrences } => (0..occurrences).for_each(|_| vals.push(total / occurrences as f64)),
                                _ => {}
                            }
                        }
                        (e.metrics.get("total").map(|m| m.as_u64()).unwrap_or(0), vals.len(), vals)
                    }
                    None => (0, 0, vec![]),
                };
                let mut sorted_want = want.clone();
                sorted_want.sort_by(|a, b| a.partial_cmp(b).unwrap());
                let mut sorted_got = values.clone();
                sorted_got.sort_by(|a, b| a.partial_cmp(b).unwrap());
                if sum != want.len() as u64 || count != want.len() || sorted_got != sorted_want {
                    all.v.add(
                        "distribution-field:observations-not-conserved",
                        format!("key k{key}: inputs {want:?} (Sum field counts {}), the aggregate's sort-and-merge distribution holds {count} observations {values:?}, Sum field {sum}", want.len()),
                        json!({"inputs": edge[..n].iter().map(|v| format!("{v:e}")).collect::<Vec<_>>(), "key": format!("k{key}"), "distribution": values.iter().map(|v| format!("{v:e}")).collect::<Vec<_>>()}),
                    );
                }
            }
        }
    }

    let t_phase2 = rep.start.elapsed().as_secs_f64();
    // ---- phase 3: WorkerSink driven sequentially; one long-lived pair of instances per thread ---
    let wlen: u32 = tier.pick(4, 5);
    let wsp = Space { nk: 3, min_len: 0, max_len: wlen };
    let wg: usize = tier.pick(3, 4);
    // guards into the workers: all input sequences of length <= wg over 2 keys, every drop order,
    // every flush subset; guards with an odd index are created with another key AND payload and
    // overwritten through DerefMut before the first drop
    let mut gw_total = 0u64;
    let mut gw_index: Vec<(usize, u64)> = Vec::new(); // (n, count)
    for n in 1..=wg {
        let c = 6u64.pow(n as u32) * permutations(n).len() as u64 * (1u64 << (n - 1));
        gw_index.push((n, c));
        gw_total += c;
    }
    let perms_by_n: Vec<Vec<Vec<usize>>> = (0..=wg).map(permutations).collect();
    let wtotal = wsp.total();
    let done = par::for_each_index(
        wtotal + gw_total,
        16,
        || WSt { st: St::default(), rig: WorkerRig::new(), guard_histories: 0 },
        |w, idx| {
            if idx < wtotal {
                let mut inputs = Vec::new();
                let mask = wsp.decode(idx, &mut inputs);
                let h = Hist { inputs: &inputs, mask, extra: None };
                w.st.histories += 1;
                run(&mut w.st, &mut Worker { rig: &w.rig }, &h);
                return;
            }
            let mut idx = idx - wtotal;
            let mut n = 0;
            for &(nn, c) in &gw_index {
                if idx < c {
                    n = nn;
                    break;
                }
                idx -= c;
            }
            let perms = &perms_by_n[n];
            let mut d = [0u64; 3];
            par::decode(idx, &[6u64.pow(n as u32), perms.len() as u64, 1u64 << (n - 1)], &mut d);
            let kp: Vec<(u8, u8)> = (0..n)
                .map(|i| {
                    let x = (d[0] / 6u64.pow(i as u32)) % 6;
                    ((x / 3) as u8, (x % 3) as u8)
                })
                .collect();
            let order = perms[d[1] as usize].clone();
            let inputs: Vec<(u8, u8)> = order.iter().map(|&g| kp[g]).collect();
            let extra = json!({"created": kp, "drop_order": order, "overwritten_through_deref_mut": "guards with odd index"});
            let h = Hist { inputs: &inputs, mask: d[2] as u32, extra: Some(extra) };
            w.guard_histories += 1;
            w.st.histories += 1;
            // every history twice: all guards dropped plainly / every second drop by unwinding a caught panic
            for unwind in [0u32, 0b1010_1010] {
                // entry mode: CloseAndMergeOnDrop<Rec, WorkerSink<..>>
                let guards = (0..n)
                    .map(|i| {
                        let (k, p) = (kp[i].0 as usize, kp[i].1 as usize);
                        if i % 2 == 1 {
                            let mut g = rec((k + 1) % 2, (p + 1) % 3).close_and_merge(w.rig.sink.clone());
                            let want = rec(k, p);
                            g.name = want.name;
                            g.total = want.total;
                            g.obs = want.obs;
                            g.last = want.last;
                            Some(g)
                        } else {
                            Some(rec(k, p).close_and_merge(w.rig.sink.clone()))
                        }
                    })
                    .collect();
                run(&mut w.st, &mut GuardWorkerRec { rig: &w.rig, guards, order: order.clone(), next: 0, unwind: unwind >> 1 }, &h);
                // direct mode: MergeOnDrop<Direct, WorkerSink<..>>
                let guards = (0..n)
                    .map(|i| {
                        let (k, p) = (kp[i].0 as usize, kp[i].1 as usize);
                        if i % 2 == 1 {
                            let mut g = direct((k + 1) % 2, (p + 1) % 3).merge(w.rig.dsink.clone());
                            let want = direct(k, p);
                            g.name = want.name;
                            g.shard = want.shard;
                            g.total = want.total;
                            g.obs = want.obs;
                            g.last = want.last;
                            g.inner.inner_count = want.inner.inner_count;
                            Some(g)
                        } else {
                            Some(direct(k, p).merge(w.rig.dsink.clone()))
                        }
                    })
                    .collect();
                run(&mut w.st, &mut GuardWorkerDirect { rig: &w.rig, guards, order: order.clone(), next: 0, unwind }, &h);
            }
        },
    );
    let (mut worker_guard_histories, mut worker_histories, mut worker_instances) = (0u64, 0u64, 0u64);
    let mut wall_states = Vec::new();
    for w in done {
        worker_guard_histories += w.guard_histories;
        worker_histories += w.st.histories - w.guard_histories;
        worker_instances += 2;
        let WSt { st, rig, .. } = w;
        merge_state(&mut all, st);
        wall_states.push(rig); // kept alive until exit: a dropped WorkerSink leaves a spinning thread behind
    }

    let St { histories, runs, transitions, flushes_checked, aggregates_checked, skipped_undetermined, v, outcomes, per_sink, samples } = all;
    rep.violations.merge(v);
    rep.set("states", histories);
    rep.set("transitions", transitions);
    rep.set("traces_validated_against_impl", runs);
    rep.set("distinct_outcomes", outcomes.len() as u64);
    rep.set("flushes_checked", flushes_checked);
    rep.set("aggregates_checked", aggregates_checked);
    rep.set("skipped_undetermined", skipped_undetermined);
    rep.set("histories_in_thread_sinks", phase1_histories);
    rep.set("histories_guards_into_mutex", guard_histories);
    rep.set("histories_worker", worker_histories);
    rep.set("histories_guards_into_worker", worker_guard_histories);
    rep.set("worker_sink_instances_created", worker_instances);
    rep.set("runs_per_sink_kind", json!(per_sink));
    let t_phase3 = rep.start.elapsed().as_secs_f64();
    rep.set("phase_wall_s", json!({"in_thread_sinks": t_phase1, "guards_into_mutex": t_phase2 - t_phase1, "worker_and_guards_into_worker": t_phase3 - t_phase2}));
    rep.set("depth", depth as u64);
    rep.set("exhaustive", true);
    rep.set(
        "bounds",
        json!({
            "in_thread_sinks": spaces.iter().map(|s| json!({"keys": s.nk, "payloads": 3, "min_inputs": s.min_len, "max_inputs": s.max_len, "flush_points": "every subset between inputs + final"})).collect::<Vec<_>>(),
            "guards_into_mutex": {"payloads": 3, "max_guards": gmax, "drop_orders": "all permutations", "flush_points": "every subset between drops + final", "overwritten_through_deref_mut": "every subset"},
            "worker": {"keys": wsp.nk, "payloads": 3, "max_inputs": wlen, "flush_points": "every subset between sends + final"},
            "guards_into_worker": {"keys": 2, "payloads": 3, "max_guards": wg, "drop_orders": "all permutations", "flush_points": "every subset between drops + final"},
        }),
    );
    rep.set("explanation", "a state = one history (input sequence over keys x payloads, a subset of flush points between inputs, a final flush; for guards also the drop order). Every history is replayed on every real sink kind; at every flush the entries that reached the downstream test sink are decoded and compared with a reference fold of the inputs merged since the previous flush (one aggregate per distinct key; Sum = sum; distribution = sorted multiset of observations; KeepLast = last; flattened inner Sum); over the whole history the totals and observation counts must equal those of the inputs. distinct_outcomes = distinct (sorted) sets of aggregates emitted by one flush.");
    for s in samples {
        rep.sample(s);
    }
    rep.sample(json!({"sink": "keyed-const-hash", "inputs_in_merge_order": [["a", 0], ["b", 1], ["a", 2]], "flush_after_input": [2], "expected": [{"key": "a", "total": 5, "obs": [5, 5], "last": 300}, {"key": "b", "total": 2, "obs": [7], "last": 200}]}));
    rep.assume("the WorkerSink flush interval is 7 days, so the timed flush never fires during a run; worker histories are driven from one thread (send.., flush().await via futures::executor::block_on) - interleavings are the loom part's job");
    rep.assume("one WorkerSink pair per checker thread is reused for all worker histories (every history ends with a flush, leaving it empty) and kept alive until exit; thread termination after the last handle is dropped is NOT asserted here");
    rep.assume("what an un-keyed sink (embedded Aggregate, MutexSink close) emits for a flush with no inputs is not determined by the statement: the empty history is skipped for those kinds and counted in skipped_undetermined");
    rep.assume("the embedded Aggregate is consumed by closing its parent entry, so each flush segment uses a fresh Aggregate; MutexSink keeps one shared state across closes (close takes the state through a clone of the handle)");
    rep.assume("entries emitted by one flush come out of a hash map: compared as a set keyed by the key value, not by order");
    std::mem::forget(wall_states);
    rep.finish();
}
