//! C16 - partial writes and I/O errors never tear, duplicate or stall metric output.
//! (1) writer fault enumeration on the real EMF formatter: every script with <=2 deviations
//!     from "accept everything" (accept k bytes for every k, Ok(0), Interrupted, hard error, at
//!     every call) and every "at most k bytes per call" script, for several record shapes;
//! (2) sinks: every per-entry result script through FlushImmediately and Tee;
//! (3) histories of accepted / rejected entries through one real format stream.
use metrique_writer::sink::{AnyFlushImmediately, FlushImmediately};
use metrique_writer::stream::tee;
use metrique_writer::{AnyEntrySink, Entry, EntryIoStream, EntrySink, FormatExt, IoStreamError, ValidationError};
use serde_json::json;
use std::collections::BTreeSet;
use std::io::{self, IoSlice, Write};
use std::sync::{Arc, Mutex};
use vh_common::report::Violations;
use vh_common::{Report, Tier, par};
use vh_seq::emfx::gen_::*;
use vh_seq::emfx::*;

#[derive(Clone, Copy, Debug, PartialEq, Eq, PartialOrd, Ord, Hash)]
enum Act {
    /// accept at most k bytes of this call
    Accept(usize),
    Zero,
    Interrupted,
    Hard,
}

/// script: call index -> action; everything else is accepted completely
struct ScriptedWriter {
    script: Vec<(usize, Act)>,
    /// if set, every call accepts at most this many bytes
    per_call: Option<usize>,
    got: Vec<u8>,
    calls: usize,
    /// total length offered at each call (to enumerate k < offered)
    offered: Vec<usize>,
    empty_slice_seen: bool,
    flushes: usize,
}

impl ScriptedWriter {
    fn new(script: Vec<(usize, Act)>, per_call: Option<usize>) -> Self {
        ScriptedWriter { script, per_call, got: Vec::new(), calls: 0, offered: Vec::new(), empty_slice_seen: false, flushes: 0 }
    }
    fn take(&mut self, bufs: &[&[u8]], max: usize) -> usize {
        let mut left = max;
        let mut n = 0;
        for b in bufs {
            let k = b.len().min(left);
            self.got.extend_from_slice(&b[..k]);
            n += k;
            left -= k;
            if left == 0 {
                break;
            }
        }
        n
    }
    fn call(&mut self, bufs: &[&[u8]]) -> io::Result<usize> {
        let idx = self.calls;
        self.calls += 1;
        let total: usize = bufs.iter().map(|b| b.len()).sum();
        self.offered.push(total);
        if total == 0 {
            self.empty_slice_seen = true;
        }
        let act = self.script.iter().find(|(i, _)| *i == idx).map(|(_, a)| *a);
        match act {
            Some(Act::Zero) => Ok(0),
            Some(Act::Interrupted) => Err(io::ErrorKind::Interrupted.into()),
            Some(Act::Hard) => Err(io::Error::other("scripted hard error")),
            Some(Act::Accept(k)) => Ok(self.take(bufs, k.min(self.per_call.unwrap_or(usize::MAX)))),
            None => Ok(self.take(bufs, self.per_call.unwrap_or(usize::MAX))),
        }
    }
}

impl Write for ScriptedWriter {
    fn write(&mut self, buf: &[u8]) -> io::Result<usize> {
        self.call(&[buf])
    }
    fn write_vectored(&mut self, bufs: &[IoSlice<'_>]) -> io::Result<usize> {
        let v: Vec<&[u8]> = bufs.iter().map(|b| &**b).collect();
        self.call(&v)
    }
    fn flush(&mut self) -> io::Result<()> {
        self.flushes += 1;
        Ok(())
    }
}

struct Shape {
    name: &'static str,
    cfg: CfgD,
    entry: EntryD,
}

fn shapes() -> Vec<Shape> {
    let m = |obs: Vec<Obs>, dims: Vec<(String, String)>| ValD::Metric { obs, unit: UnitD::Milli, dims, flag: FlagD::None };
    let plain = CfgD::simple(Ctor::AllValidations);
    let mut three_ns = CfgD::simple(Ctor::Builder);
    three_ns.namespaces = vec![s("NS"), s("N2"), s("N3")];
    three_ns.log_group = Some(s("lg"));
    let f = frame_minimal();
    let mut sampled = CfgD::simple(Ctor::AllValidations);
    sampled.mult = Mult::Two;
    let mut rich = CfgD::simple(Ctor::Builder);
    rich.namespaces = vec![s("NS"), s("N\"2")];
    rich.extra_directive = true;
    rich.log_group = Some(s("lg"));
    rich.default_dims = vec![vec![], vec![s("A")]];
    vec![
        Shape { name: "single-line", entry: build_entry(&plain, f, vec![(s("M"), m(vec![Obs::U(7)], vec![])), (s("S"), ValD::Str(s("text\"q")))]), cfg: plain.clone() },
        Shape { name: "strings-only (empty fields buffer)", entry: build_entry(&plain, f, vec![(s("S"), ValD::Str(s("only")))]), cfg: plain.clone() },
        Shape { name: "three-namespaces", entry: build_entry(&three_ns, f, vec![(s("M"), m(vec![Obs::U(7), Obs::F(2.5)], vec![]))]), cfg: three_ns },
        Shape { name: "sampled-weight-2", entry: build_entry(&sampled, f, vec![(s("M"), m(vec![Obs::U(7), Obs::R(9.0, 3)], vec![]))]), cfg: sampled.clone() },
        Shape { name: "options-and-entry-dimensions", entry: build_entry(&rich, Frame { ts: TsD::Small, edims: EDimsD::Two, dim_strings_last: true, always_split: false }, vec![(s("a\"b"), m(vec![Obs::F(2.5)], vec![])), (s("S"), ValD::Str(s("\u{1f}x")))]), cfg: rich.clone() },
        Shape { name: "split-into-three-lines", entry: build_entry(&plain, f, vec![
            (s("M"), m(vec![Obs::U(7)], vec![(s("k"), s("v"))])),
            (s("N"), m(vec![Obs::U(8)], vec![(s("k"), s("w"))])),
            (s("G"), m(vec![Obs::U(9)], vec![])),
        ]), cfg: plain.clone() },
    ]
}

fn lines_of(b: &[u8]) -> (Vec<Vec<u8>>, Vec<u8>) {
    let mut complete = Vec::new();
    let mut rest = b;
    while let Some(p) = rest.iter().position(|c| *c == b'\n') {
        complete.push(rest[..=p].to_vec());
        rest = &rest[p + 1..];
    }
    (complete, rest.to_vec())
}

/// `got` must consist of some of the reference lines (each at most as often as in the
/// reference) followed by a prefix of one of the remaining ones; with `complete` it must be
/// exactly the reference multiset.
fn consistent(reference: &[u8], got: &[u8], complete: bool) -> Result<(), String> {
    let (mut ref_lines, ref_tail) = lines_of(reference);
    assert!(ref_tail.is_empty());
    let (got_lines, tail) = lines_of(got);
    for l in &got_lines {
        match ref_lines.iter().position(|r| r == l) {
            Some(p) => {
                ref_lines.remove(p);
            }
            None => return Err(format!("received a line that is not one of the entry's records (torn or duplicated): {:?}", String::from_utf8_lossy(&l[..l.len().min(120)]))),
        }
    }
    if complete {
        if !tail.is_empty() || !ref_lines.is_empty() {
            return Err(format!("the writer did not receive exactly the entry's records: {} record(s) missing, {} trailing bytes", ref_lines.len(), tail.len()));
        }
    } else if !tail.is_empty() && !ref_lines.iter().any(|r| r.starts_with(&tail)) {
        return Err(format!("after the error the partial tail is not a prefix of a remaining record: {:?}", String::from_utf8_lossy(&tail[..tail.len().min(120)])));
    }
    Ok(())
}

#[derive(Default)]
struct St {
    runs: u64,
    v: Violations,
    classes: BTreeSet<String>,
}

fn run_script(st: &mut St, shape: &Shape, pristine: &Emf, reference: &[u8], script: Vec<(usize, Act)>, per_call: Option<usize>) -> Vec<usize> {
    st.runs += 1;
    let mut runner = Runner::from_emf(pristine.clone(), shape.cfg.mult);
    let mut w = ScriptedWriter::new(script.clone(), per_call);
    let outcome = match std::panic::catch_unwind(std::panic::AssertUnwindSafe(|| runner.format(&shape.entry, &mut w))) {
        Ok(o) => o,
        Err(_) => {
            st.v.add("formatter-panicked-on-writer-fault", "the formatter panicked while handling a scripted writer answer", json!({"shape": shape.name, "script": format!("{script:?}"), "per_call": per_call}));
            return w.offered.clone();
        }
    };
    let replay = || json!({"shape": shape.name, "config": shape.cfg.to_json(), "entry": shape.entry.to_json(), "script": format!("{script:?}"), "per_call": per_call,
        "outcome": format!("{outcome:?}"), "received": String::from_utf8_lossy(&w.got), "offered_per_call": w.offered});
    // which deviation decides the expected outcome: the first Zero / Hard that was reached
    let mut expected_err: Option<&'static str> = None;
    for (i, a) in &script {
        if *i < w.calls {
            match a {
                Act::Zero if expected_err.is_none() => expected_err = Some("zero"),
                Act::Hard if expected_err.is_none() => expected_err = Some("hard"),
                _ => {}
            }
        }
    }
    // (scripts are sorted by call index, so the first fatal one reached is the one that fired)
    let class = format!("{}:{}", shape.name, script.iter().map(|(_, a)| match a { Act::Accept(_) => "short", Act::Zero => "zero", Act::Interrupted => "intr", Act::Hard => "hard" }).collect::<Vec<_>>().join("+"));
    st.classes.insert(class);
    match (&outcome, expected_err) {
        (Outcome::Ok, None) => {
            if let Err(m) = consistent(reference, &w.got, true) {
                st.v.add(format!("torn-or-duplicated-output:{}", shape.name), m, replay());
            }
        }
        (Outcome::Io(e), Some(kind)) => {
            if kind == "zero" && !e.contains("write zero") && !e.to_lowercase().contains("zero") {
                st.v.add("zero-length-write-not-reported-as-write-zero", format!("Ok(0) from the writer surfaced as {e:?}"), replay());
            }
            if let Err(m) = consistent(reference, &w.got, false) {
                st.v.add(format!("torn-or-duplicated-output-before-error:{}", shape.name), m, replay());
            }
            // the error concerns this entry only: the next entry formats normally
            let mut out = Vec::new();
            let o2 = runner.format(&shape.entry, &mut out);
            if o2 != Outcome::Ok || consistent(reference, &out, true).is_err() {
                st.v.add("formatter-damaged-after-io-error", format!("after an I/O error the next entry gives {o2:?} / different bytes"), replay());
            }
        }
        (Outcome::Ok, Some(kind)) => st.v.add("io-error-swallowed", format!("the writer failed ({kind}) but format returned Ok"), replay()),
        (Outcome::Io(e), None) => st.v.add("spurious-io-error", format!("no fatal writer answer but format returned Io({e})"), replay()),
        (Outcome::Validation(e), _) => st.v.add("unexpected-validation-error", e.clone(), replay()),
    }
    w.offered
}

fn writer_part(rep: &mut Report) {
    let tier = rep.tier;
    let shapes = shapes();
    let mut states = Vec::new();
    for shape in &shapes {
        let pristine = shape.cfg.build();
        let mut reference = Vec::new();
        assert_eq!(run_fresh(&pristine, shape.cfg.mult, &shape.entry, &mut reference), Outcome::Ok);
        let mut st0 = St::default();
        let offered0 = run_script(&mut st0, shape, &pristine, &reference, vec![], None);
        states.push(st0);
        let calls0 = offered0.len();
        rep.sample(json!({"shape": shape.name, "bytes": reference.len(), "write_calls_without_faults": calls0}));
        // single deviations: every call x every action (every k below what was offered)
        let mut singles: Vec<(usize, Act)> = Vec::new();
        for (i, off) in offered0.iter().enumerate() {
            for k in 1..*off {
                singles.push((i, Act::Accept(k)));
            }
            singles.extend([(i, Act::Zero), (i, Act::Interrupted), (i, Act::Hard)]);
        }
        // a deviation can also hit a call that only exists because of an earlier short write
        states.extend(par::for_each_index(singles.len() as u64, 16, St::default, |st, idx| {
            let first = singles[idx as usize];
            let offered1 = run_script(st, shape, &pristine, &reference, vec![first], None);
            // double deviations: the second one at any later call of THIS run
            let full_pairs = tier == Tier::Thorough || reference.len() <= 400;
            for j in (first.0 + 1)..offered1.len() {
                let off = offered1[j];
                let ks: Vec<usize> = if full_pairs { (1..off).collect() } else { vec![1, off / 2, off.saturating_sub(1)].into_iter().filter(|k| *k >= 1 && *k < off).collect() };
                for k in ks {
                    run_script(st, shape, &pristine, &reference, vec![first, (j, Act::Accept(k))], None);
                }
                for a in [Act::Zero, Act::Interrupted, Act::Hard] {
                    let offered2 = run_script(st, shape, &pristine, &reference, vec![first, (j, a)], None);
                    // thorough: a third deviation after an Interrupted second one
                    if tier == Tier::Thorough && a == Act::Interrupted {
                        for l in (j + 1)..offered2.len() {
                            let off = offered2[l];
                            for k in [1, off / 2, off.saturating_sub(1)] {
                                if k >= 1 && k < off {
                                    run_script(st, shape, &pristine, &reference, vec![first, (j, a), (l, Act::Accept(k))], None);
                                }
                            }
                            for a3 in [Act::Zero, Act::Interrupted, Act::Hard] {
                                run_script(st, shape, &pristine, &reference, vec![first, (j, a), (l, a3)], None);
                            }
                        }
                    }
                }
            }
        }));
        // "at most k bytes per call" for every k
        states.extend(par::for_each_index(reference.len() as u64, 8, St::default, |st, k| {
            run_script(st, shape, &pristine, &reference, vec![], Some(k as usize + 1));
            // ... combined with one fatal answer somewhere in the middle
            if k % 7 == 0 {
                run_script(st, shape, &pristine, &reference, vec![(3, Act::Hard)], Some(k as usize + 1));
                run_script(st, shape, &pristine, &reference, vec![(2, Act::Interrupted), (5, Act::Zero)], Some(k as usize + 1));
            }
        }));
    }
    let mut classes = BTreeSet::new();
    let mut runs = 0;
    for s in states {
        runs += s.runs;
        classes.extend(s.classes);
        rep.violations.merge(s.v);
    }
    rep.set("writer_scripts_run", runs);
    rep.set("writer_script_classes", classes.len() as u64);
    rep.add_count("evaluations", runs);
    rep.add_count("distinct_nontrivial", classes.len() as u64);
}

// ------------------------------------------------------------------------------------------
// sinks

#[derive(Clone, Copy, Debug, PartialEq, Eq)]
enum Res {
    Ok,
    Validation,
    Io,
    /// I/O errors of the kinds a caller might be tempted to retry
    IoInterrupted,
    IoWouldBlock,
    IoTimedOut,
}

#[derive(Clone)]
struct Logged(Arc<Mutex<Vec<String>>>);

struct ScriptedStream {
    id: &'static str,
    results: Vec<Res>,
    flush_err: Vec<bool>,
    next_calls: usize,
    flush_calls: usize,
    log: Logged,
}

struct IdEntry(u32);
impl Entry for IdEntry {
    fn write<'a>(&'a self, w: &mut impl metrique_writer::EntryWriter<'a>) {
        w.value("id", &(self.0 as u64));
    }
}

fn id_of(e: &impl Entry) -> String {
    let t = metrique_writer::test_util::to_test_entry(e);
    t.metrics.get("id").map(|m| m.as_u64().to_string()).unwrap_or_else(|| "?".into())
}

impl EntryIoStream for ScriptedStream {
    fn next(&mut self, entry: &impl Entry) -> Result<(), IoStreamError> {
        let r = self.results.get(self.next_calls).copied().unwrap_or(Res::Ok);
        self.next_calls += 1;
        self.log.0.lock().unwrap().push(format!("{}:next({})", self.id, id_of(entry)));
        match r {
            Res::Ok => Ok(()),
            Res::Validation => Err(IoStreamError::Validation(ValidationError::invalid("scripted"))),
            Res::Io => Err(IoStreamError::Io(io::Error::other("scripted"))),
            Res::IoInterrupted => Err(IoStreamError::Io(io::ErrorKind::Interrupted.into())),
            Res::IoWouldBlock => Err(IoStreamError::Io(io::ErrorKind::WouldBlock.into())),
            Res::IoTimedOut => Err(IoStreamError::Io(io::ErrorKind::TimedOut.into())),
        }
    }
    fn flush(&mut self) -> io::Result<()> {
        let e = self.flush_err.get(self.flush_calls).copied().unwrap_or(false);
        self.flush_calls += 1;
        self.log.0.lock().unwrap().push(format!("{}:flush", self.id));
        if e { Err(io::Error::other("scripted flush error")) } else { Ok(()) }
    }
}

fn all_scripts(n: usize) -> Vec<Vec<Res>> {
    let mut out = vec![vec![]];
    for _ in 0..n {
        out = out.into_iter().flat_map(|s| [Res::Ok, Res::Validation, Res::Io, Res::IoInterrupted, Res::IoWouldBlock, Res::IoTimedOut].into_iter().map(move |r| { let mut s = s.clone(); s.push(r); s })).collect();
    }
    out
}

fn sink_part(rep: &mut Report) {
    let n = rep.tier.pick(3usize, 4);
    let scripts = all_scripts(n);
    let mut runs = 0u64;
    // FlushImmediately (typed, boxed, any): every result script x every flush-error subset
    for script in &scripts {
        for flush_mask in 0..(1u32 << n) {
            let flush_err: Vec<bool> = (0..n).map(|i| flush_mask & (1 << i) != 0).collect();
            for kind in 0..3 {
                runs += 1;
                let log = Logged(Arc::new(Mutex::new(Vec::new())));
                let stream = ScriptedStream { id: "s", results: script.clone(), flush_err: flush_err.clone(), next_calls: 0, flush_calls: 0, log: log.clone() };
                let r = std::panic::catch_unwind(std::panic::AssertUnwindSafe(|| match kind {
                    0 => {
                        let sink = FlushImmediately::<IdEntry, _>::new(stream);
                        for i in 0..n { sink.append(IdEntry(i as u32)); }
                    }
                    1 => {
                        let sink = FlushImmediately::new_boxed(stream);
                        for i in 0..n { sink.append(IdEntry(i as u32)); }
                    }
                    _ => {
                        let sink = AnyFlushImmediately::new(stream);
                        for i in 0..n { sink.append_any(IdEntry(i as u32)); }
                    }
                }));
                let got = log.0.lock().unwrap().clone();
                let expect: Vec<String> = (0..n).flat_map(|i| [format!("s:next({i})"), "s:flush".to_string()]).collect();
                let kind_name = ["FlushImmediately", "FlushImmediately::new_boxed", "AnyFlushImmediately"][kind];
                let replay = json!({"sink": kind_name, "results": format!("{script:?}"), "flush_errors": flush_err, "stream_calls": got});
                if r.is_err() {
                    rep.violation("sink-panicked:FlushImmediately", "appending panicked after a stream error", replay);
                } else if got != expect {
                    rep.violation("sink-stalled-or-duplicated:FlushImmediately", format!("stream calls {got:?}, expected every entry exactly once, each followed by a flush"), replay);
                }
            }
        }
    }
    // Tee of two scripted streams: every pair of result scripts (2 entries) x flush errors
    let tee_scripts = all_scripts(2);
    for a in &tee_scripts {
        for b in &tee_scripts {
            for fm in 0..4u32 {
                runs += 1;
                let log = Logged(Arc::new(Mutex::new(Vec::new())));
                let s1 = ScriptedStream { id: "a", results: a.clone(), flush_err: vec![fm & 1 != 0; 2], next_calls: 0, flush_calls: 0, log: log.clone() };
                let s2 = ScriptedStream { id: "b", results: b.clone(), flush_err: vec![fm & 2 != 0; 2], next_calls: 0, flush_calls: 0, log: log.clone() };
                let mut t = tee(s1, s2);
                let mut results = Vec::new();
                for i in 0..2 {
                    results.push(t.next(&IdEntry(i)).is_ok());
                    let _ = t.flush();
                }
                let got = log.0.lock().unwrap().clone();
                let replay = json!({"tee": {"a": format!("{a:?}"), "b": format!("{b:?}")}, "flush_errors": fm, "stream_calls": got, "results_ok": results});
                for id in ["a", "b"] {
                    for i in 0..2 {
                        let cnt = got.iter().filter(|l| **l == format!("{id}:next({i})")).count();
                        if cnt != 1 {
                            rep.violation("tee-branch-missed-or-duplicated-entry", format!("stream {id} saw entry {i} {cnt} times"), replay.clone());
                        }
                    }
                    if got.iter().filter(|l| **l == format!("{id}:flush")).count() != 2 {
                        rep.violation("tee-branch-missed-flush", format!("stream {id} was not flushed once per flush"), replay.clone());
                    }
                }
                for i in 0..2 {
                    let both_ok = a[i] == Res::Ok && b[i] == Res::Ok;
                    if results[i] != both_ok {
                        rep.violation("tee-result", format!("tee reported ok={} for entry {i} with branch results {:?}/{:?}", results[i], a[i], b[i]), replay.clone());
                    }
                }
            }
        }
    }
    rep.set("sink_scripts_run", runs);
    rep.add_count("evaluations", runs);
    rep.add_count("distinct_nontrivial", (scripts.len() + tee_scripts.len() * tee_scripts.len()) as u64);
}

// ------------------------------------------------------------------------------------------
// (3) histories of accepted and rejected entries through ONE real format stream (directly and
//     behind FlushImmediately), with at most one hard write error somewhere in the history

#[derive(Clone)]
struct SharedWriter {
    got: Arc<Mutex<Vec<u8>>>,
    calls: Arc<Mutex<usize>>,
    /// the write call (counted over the whole history) that fails hard
    fail_at: Option<usize>,
    kind: io::ErrorKind,
    /// the flush call (counted over the whole history) that fails
    flush_fail_at: Option<usize>,
    flushes: Arc<Mutex<usize>>,
}
impl Write for SharedWriter {
    fn write(&mut self, buf: &[u8]) -> io::Result<usize> {
        let mut c = self.calls.lock().unwrap();
        let idx = *c;
        *c += 1;
        if Some(idx) == self.fail_at {
            return Err(io::Error::new(self.kind, "scripted hard error"));
        }
        self.got.lock().unwrap().extend_from_slice(buf);
        Ok(buf.len())
    }
    fn flush(&mut self) -> io::Result<()> {
        let mut f = self.flushes.lock().unwrap();
        let idx = *f;
        *f += 1;
        if Some(idx) == self.flush_fail_at {
            return Err(io::Error::other("scripted flush error"));
        }
        Ok(())
    }
}

fn history_part(rep: &mut Report) {
    let m = |obs: Vec<Obs>, dims: Vec<(String, String)>| ValD::Metric { obs, unit: UnitD::Milli, dims, flag: FlagD::None };
    let cfg = CfgD::simple(Ctor::AllValidations);
    let f = frame_minimal();
    let valid_plain = build_entry(&cfg, f, vec![(s("M"), m(vec![Obs::U(7)], vec![])), (s("S"), ValD::Str(s("text")))]);
    let valid_split = build_entry(&cfg, f, vec![(s("M"), m(vec![Obs::U(7)], vec![(s("k"), s("v"))])), (s("G"), m(vec![Obs::U(9)], vec![]))]);
    let valid_edims = build_entry(&cfg, Frame { ts: TsD::Small, edims: EDimsD::One, dim_strings_last: false, always_split: false }, vec![(s("M"), m(vec![Obs::U(3)], vec![(s("k"), s("v"))]))]);
    // entry-level dimension sets on the main record (no per-metric dimensions)
    let valid_edims_main = build_entry(&cfg, Frame { ts: TsD::Small, edims: EDimsD::Two, dim_strings_last: false, always_split: false }, vec![(s("M"), m(vec![Obs::U(4)], vec![]))]);
    let mut dup = valid_plain.clone();
    dup.ops.push(OpD::Value(s("M"), ValD::Str(s("again"))));
    let mut no_split = build_entry(&cfg, f, vec![(s("R"), m(vec![Obs::U(666)], vec![(s("k"), s("v"))]))]);
    no_split.ops.retain(|o| !matches!(o, OpD::Config(ConfD::Split)));
    let mut split_dup = valid_split.clone();
    split_dup.ops.push(OpD::Value(s("M"), m(vec![Obs::U(1)], vec![(s("k"), s("v"))])));
    let mut split_err = valid_split.clone();
    split_err.ops.push(OpD::Value(s("X"), ValD::Error(s("value error"))));
    let kinds: Vec<(&str, EntryD, bool)> = vec![
        ("valid-plain", valid_plain, true),
        ("valid-split", valid_split, true),
        ("valid-split-under-entry-dimensions", valid_edims, true),
        ("valid-entry-dimensions-on-the-main-record", valid_edims_main, true),
        ("rejected-duplicate-name", dup, false),
        ("rejected-dimensions-without-split", no_split, false),
        ("rejected-duplicate-in-split-record", split_dup, false),
        ("rejected-value-error-after-split-metrics", split_err, false),
    ];
    let pristine = cfg.build();
    // reference records of each kind on a fresh formatter
    let refs: Vec<Vec<u8>> = kinds.iter().map(|(name, e, valid)| {
        let mut out = Vec::new();
        let o = run_fresh(&pristine, Mult::None, e, &mut out);
        if (o == Outcome::Ok) != *valid {
            println!("MACHINERY-FAILURE: history kind {name} is {o:?} on a fresh formatter");
            std::process::exit(2);
        }
        out
    }).collect();
    let depth = rep.tier.pick(3u32, 4);
    let n = kinds.len() as u64;
    let mut total = 0u64;
    for d in 1..=depth { total += n.pow(d); }
    let states = par::for_each_index(total, 16, St::default, |st, mut idx| {
        let mut len = 1;
        while idx >= n.pow(len) { idx -= n.pow(len); len += 1; }
        let mut seq = Vec::new();
        for _ in 0..len { seq.push((idx % n) as usize); idx /= n; }
        for (via_sink, kind, make_writer) in [(false, io::ErrorKind::Other, false), (true, io::ErrorKind::Other, false), (true, io::ErrorKind::WouldBlock, false), (true, io::ErrorKind::TimedOut, false), (false, io::ErrorKind::Other, true), (true, io::ErrorKind::WriteZero, true), (false, io::ErrorKind::InvalidData, false), (false, io::ErrorKind::InvalidInput, true)] {
            // first without a fault (also tells how many write calls the history makes)
            let mut fail_at: Option<usize> = None;
            let mut max_calls = 0usize;
            loop {
                st.runs += 1;
                let w = SharedWriter { got: Default::default(), calls: Default::default(), fail_at, kind, flush_fail_at: None, flushes: Default::default() };
                let entries: Vec<ScriptEntry<'_>> = seq.iter().map(|&k| kinds[k].1.compile()).collect();
                let mut bounds = vec![0usize];
                let mut calls_at = vec![0usize];
                let mut results: Vec<Option<u8>> = Vec::new();
                macro_rules! drive {
                    ($stream:expr) => {{
                        let mut stream = $stream;
                        if via_sink {
                            let sink = FlushImmediately::new(stream);
                            for e in entries {
                                sink.append(e);
                                results.push(None);
                                bounds.push(w.got.lock().unwrap().len());
                                calls_at.push(*w.calls.lock().unwrap());
                            }
                        } else {
                            for e in &entries {
                                // 0 = Ok, 1 = I/O error, 2 = validation error
                                results.push(Some(match stream.next(e) {
                                    Ok(()) => 0u8,
                                    Err(metrique_writer::IoStreamError::Io(_)) => 1,
                                    Err(metrique_writer::IoStreamError::Validation(_)) => 2,
                                }));
                                bounds.push(w.got.lock().unwrap().len());
                                calls_at.push(*w.calls.lock().unwrap());
                            }
                        }
                    }};
                }
                let r = std::panic::catch_unwind(std::panic::AssertUnwindSafe(|| {
                    if make_writer {
                        // the other public route to a stream: a fresh writer handle per entry
                        let wc = w.clone();
                        drive!(pristine.clone().output_to_makewriter(move || wc.clone()))
                    } else {
                        drive!(pristine.clone().output_to(w.clone()))
                    }
                }));
                let got = w.got.lock().unwrap().clone();
                let names: Vec<&str> = seq.iter().map(|&k| kinds[k].0).collect();
                let replay = json!({"history": names, "through": format!("{}{}", if via_sink { "FlushImmediately over " } else { "" }, if make_writer { "Emf::output_to_makewriter stream" } else { "Emf::output_to stream" }), "hard_error_at_write_call": fail_at, "error_kind": format!("{kind:?}"), "received": String::from_utf8_lossy(&got)});
                st.classes.insert(format!("history:{}:{}", names.join(","), fail_at.is_some()));
                if r.is_err() {
                    st.v.add("history:panicked", "appending panicked", replay);
                } else {
                    for (i, &k) in seq.iter().enumerate() {
                        let seg = &got[bounds[i]..bounds[i + 1]];
                        let faulted = fail_at.map(|c| c >= calls_at[i] && c < calls_at[i + 1]).unwrap_or(false);
                        let valid = kinds[k].2;
                        let verdict = if !valid {
                            if seg.is_empty() { Ok(()) } else { Err("a rejected entry put bytes on the writer".to_string()) }
                        } else {
                            consistent(&refs[k], seg, !faulted)
                        };
                        if let Err(msg) = verdict {
                            st.v.add(format!("history:bytes-of-entry-differ:{}", kinds[k].0), format!("entry {i} ({}) of the history: {msg}", kinds[k].0), replay.clone());
                        }
                        if let Some(got) = results[i] {
                            // an entry the formatter rejects is a validation error (nothing is
                            // written, so no fault can hit it); a hard write error is an I/O error
                            let want = if !valid { 2u8 } else if faulted { 1 } else { 0 };
                            if got != want {
                                let name = |r: u8| ["Ok", "an I/O error", "a validation error"][r as usize];
                                st.v.add(format!("history:result:{}", kinds[k].0), format!("entry {i} ({}) returned {}, expected {}", kinds[k].0, name(got), name(want)), replay.clone());
                            }
                        }
                    }
                }
                if fail_at.is_none() {
                    max_calls = *w.calls.lock().unwrap();
                }
                let next = fail_at.map(|c| c + 1).unwrap_or(0);
                if next >= max_calls { break; }
                fail_at = Some(next);
            }
        }
    });
    // the same histories through a BUFFERING writer whose flush fails once: after every entry the
    // stream is flushed, and once more at the end with no entry in between (an idle sink's
    // periodic flush); then everything accepted must have reached the writer
    let hdepth = rep.tier.pick(2u32, 3);
    let mut htotal = 0u64;
    for d in 1..=hdepth { htotal += n.pow(d); }
    let flush_states = par::for_each_index(htotal, 16, St::default, |st, mut idx| {
        let mut len = 1;
        while idx >= n.pow(len) { idx -= n.pow(len); len += 1; }
        let mut seq = Vec::new();
        for _ in 0..len { seq.push((idx % n) as usize); idx /= n; }
        // one fault per run: the k-th write call (with a BufWriter, writes happen at flush time) or
        // the k-th flush call of the writer fails
        let faults: Vec<(Option<usize>, Option<usize>)> = (0..=seq.len()).map(|k| (Some(k), None)).chain((0..=seq.len()).map(|k| (None, Some(k)))).chain([(None, None)]).collect();
        for (fail_at, flush_fail_at) in faults {
            st.runs += 1;
            let w = SharedWriter { got: Default::default(), calls: Default::default(), fail_at, kind: io::ErrorKind::Other, flush_fail_at, flushes: Default::default() };
            let entries: Vec<ScriptEntry<'_>> = seq.iter().map(|&k| kinds[k].1.compile()).collect();
            let mut flush_results = Vec::new();
            let r = std::panic::catch_unwind(std::panic::AssertUnwindSafe(|| {
                let mut stream = pristine.clone().output_to(io::BufWriter::with_capacity(1 << 20, w.clone()));
                for e in &entries {
                    let _ = stream.next(e);
                    flush_results.push(stream.flush().is_ok());
                }
                // idle flushes: nothing was written since the last flush call
                flush_results.push(stream.flush().is_ok());
                flush_results.push(stream.flush().is_ok());
                let at_the_end = w.got.lock().unwrap().clone();
                std::mem::forget(stream); // a BufWriter would flush once more when dropped
                at_the_end
            }));
            let writer_flush_calls = *w.flushes.lock().unwrap();
            let names: Vec<&str> = seq.iter().map(|&k| kinds[k].0).collect();
            let replay = json!({"history": names, "through": "Emf::output_to(BufWriter), flushed after every entry and twice more at the end", "writer_write_call_that_fails": fail_at, "writer_flush_call_that_fails": flush_fail_at, "flush_results_ok": flush_results, "writer_flush_calls": writer_flush_calls});
            st.classes.insert(format!("buffered:{}:{:?}", names.join(","), flush_fail_at.is_some()));
            match r {
                Err(_) => st.v.add("history:panicked", "flushing panicked", replay),
                Ok(got) => {
                    let mut reference = Vec::new();
                    for &k in &seq {
                        if kinds[k].2 {
                            reference.extend_from_slice(&refs[k]);
                        }
                    }
                    if let Err(msg) = consistent(&reference, &got, true) {
                        st.v.add("history:accepted-bytes-stuck-behind-a-failed-flush", format!("after the final (successful) flushes the writer has not received exactly the accepted entries' records: {msg}"), replay.clone());
                    }
                    // a flush that failed is not the end of flushing: a later flush reported as
                    // successful must have reached the writer's flush again
                    if let (Some(k), Some(first_err)) = (flush_fail_at, flush_results.iter().position(|ok| !ok)) {
                        if flush_results[first_err + 1..].iter().any(|ok| *ok) && writer_flush_calls <= k + 1 && writer_flush_calls > k {
                            st.v.add("history:flush-reported-ok-without-flushing-after-a-failed-flush", format!("the writer's flush call {k} failed; later flushes of the stream reported Ok but the writer's flush was never called again ({writer_flush_calls} calls)"), replay);
                        }
                    }
                }
            }
        }
    });
    let mut runs = 0;
    let mut classes = BTreeSet::new();
    for s in states.into_iter().chain(flush_states) {
        runs += s.runs;
        classes.extend(s.classes);
        rep.violations.merge(s.v);
    }
    rep.set("history_runs", runs);
    rep.set("history_depth", depth);
    rep.set("history_entry_kinds", kinds.iter().map(|k| k.0).collect::<Vec<_>>());
    rep.add_count("evaluations", runs);
    rep.add_count("distinct_nontrivial", classes.len() as u64);
}

fn main() {
    let mut rep = Report::from_args("C16", "fault_enumeration");
    let prev = std::panic::take_hook();
    std::panic::set_hook(Box::new(|_| {}));
    writer_part(&mut rep);
    sink_part(&mut rep);
    history_part(&mut rep);
    std::panic::set_hook(prev);
    rep.set("rule", "writer: for 6 record shapes (single line, strings only, 3 namespaces, sampled with weight 2, all builder options + entry dimensions, split into 3 lines) every script with at most 2 deviations from 'accept everything' - at every write call: accept k bytes for EVERY 1<=k<offered, Ok(0), Interrupted, hard error (second deviation at every later call of the run; for records above 400 bytes the second deviation's k is taken from {1, half, all-but-one} in the quick tier) - and every 'at most k bytes per call' script; sinks: every {Ok,Validation,Io}^n result script x every flush-error subset through FlushImmediately (typed, boxed, any) and every pair of scripts through Tee; histories: every sequence (depth 3 / 4) over 3 accepted and 4 rejected entry kinds through one real Emf::output_to stream, directly and behind FlushImmediately, without a fault and with a hard error at every write call of the history - the bytes the writer received during each entry are that entry's records (nothing for a rejected one). distinct = distinct (shape, deviation kinds) classes + distinct result scripts");
    rep.set("exhaustive", true);
    rep.assume("background queue under stream errors: explored under loom in C01 (all result scripts) - not repeated here");
    rep.assume("accepted bytes are compared with the records of an all-accepting writer as a multiset of lines (split records have no defined order)");
    rep.finish();
}
