//! C03 - EMF records carry exactly the entry's values, units, counts, dimensions and time.
use serde_json::json;
use std::collections::BTreeSet;
use vh_common::Report;
use vh_common::report::Violations;
use vh_seq::emfx::gen_::{TS_BIG_NS, s};
use vh_seq::emfx::layers::{layers, walk};
use vh_seq::emfx::reference::*;
use vh_seq::emfx::*;

static CHUNKS: std::sync::OnceLock<Vec<usize>> = std::sync::OnceLock::new();

#[derive(Default)]
struct St {
    out: Vec<u8>,
    cases: u64,
    compared: u64,
    records: u64,
    out_of_domain: u64,
    v: Violations,
    shapes: BTreeSet<u64>,
    sample: Option<serde_json::Value>,
    /// one long-lived formatter per configuration: every case is formatted on it as well, after
    /// whatever this worker formatted before (content must not depend on earlier entries)
    reused: std::collections::HashMap<usize, Runner>,
    reused_compared: u64,
    chunked_compared: u64,
    clone_compared: u64,
}

fn shape(exp: &Expected) -> u64 {
    let mut h = exp.records.len() as u64;
    for r in &exp.records {
        h = h.wrapping_mul(131).wrapping_add(r.key.len() as u64);
        h = h.wrapping_mul(131).wrapping_add(r.defs.len() as u64);
        h = h.wrapping_mul(131).wrapping_add(r.dimsets.len() as u64);
        for (_, m) in &r.members {
            h = h.wrapping_mul(131).wrapping_add(match m {
                MemberE::Str(s) => 1000 + s.len() as u64,
                MemberE::Dist(d) => d.iter().map(|(n, c)| (*c).wrapping_add(match n { NumE::U(_) => 1, NumE::F(_) => 2, NumE::AnyFinite => 3 })).fold(7, |a: u64, b| a.wrapping_mul(31).wrapping_add(b)),
            });
        }
    }
    h
}

fn check(st: &mut St, cfg: &CfgD, pristine: &Emf, entry: &EntryD) {
    st.cases += 1;
    if !defects(cfg, entry).is_empty() || dimension_key_collision(cfg, entry).is_some() {
        st.out_of_domain += 1;
        return;
    }
    check_one(st, cfg, pristine, entry, false, false);
    for k in CHUNKS.get().map(|v| v.as_slice()).unwrap_or(&[5]) {
        check_chunked(st, cfg, pristine, entry, *k);
    }
    check_one(st, cfg, pristine, entry, true, false);
    if cfg.mult == Mult::None {
        // a clone of that long-lived formatter (taken now, after what it has formatted)
        if let Some(mut c) = st.reused.get(&(pristine as *const Emf as usize)).and_then(|r| r.clone_used()) {
            let mut out = std::mem::take(&mut st.out);
            out.clear();
            let outcome = c.format(entry, &mut out);
            st.clone_compared += 1;
            let replay = || json!({"config": cfg.to_json(), "entry": entry.to_json(), "formatter": "clone of a long-lived formatter (which had formatted other entries before)", "output": String::from_utf8_lossy(&out)});
            match &outcome {
                Outcome::Ok => match parse_output(&out) {
                    Ok(recs) => {
                        if let Err(msg) = compare(cfg, &expected_records(cfg, entry), &recs) {
                            st.v.add("record-mismatch:on-clone-of-used-formatter", format!("records emitted by a clone of a used formatter differ from the reference interpretation: {msg}"), replay());
                        }
                    }
                    Err(msg) => st.v.add("unparseable-output:on-clone-of-used-formatter", format!("output is not well-formed EMF: {msg}"), replay()),
                },
                other => st.v.add("valid-entry-rejected:on-clone-of-used-formatter", format!("a defect-free entry was not formatted: {other:?}"), replay()),
            }
            st.out = out;
        }
    }
    if cfg.mult != Mult::None {
        // the same long-lived sampling formatter through its unsampled `Format::format` route:
        // the records of a plain formatter (counts not weighted)
        check_one(st, cfg, pristine, entry, true, true);
    }
}

/// An output that accepts at most `k` bytes per call (a pipe or socket under pressure): what
/// reaches it must still be the record the formatter assembled.
struct ChunkWriter {
    k: usize,
    got: Vec<u8>,
}
impl std::io::Write for ChunkWriter {
    fn write(&mut self, buf: &[u8]) -> std::io::Result<usize> {
        let n = buf.len().min(self.k);
        self.got.extend_from_slice(&buf[..n]);
        Ok(n)
    }
    fn flush(&mut self) -> std::io::Result<()> {
        Ok(())
    }
}

fn check_chunked(st: &mut St, cfg: &CfgD, pristine: &Emf, entry: &EntryD, k: usize) {
    let mut w = ChunkWriter { k, got: std::mem::take(&mut st.out) };
    w.got.clear();
    let outcome = std::panic::catch_unwind(std::panic::AssertUnwindSafe(|| Runner::from_emf(pristine.clone(), cfg.mult).format(entry, &mut w)));
    st.chunked_compared += 1;
    let out = w.got;
    let replay = || json!({"config": cfg.to_json(), "entry": entry.to_json(), "formatter": "fresh", "output_accepts_at_most_bytes_per_write": k, "output": String::from_utf8_lossy(&out)});
    match &outcome {
        Ok(Outcome::Ok) => match parse_output(&out) {
            Ok(recs) => {
                if let Err(msg) = compare(cfg, &expected_records(cfg, entry), &recs) {
                    st.v.add("record-mismatch:output-with-short-writes", format!("records that reached an output taking {k} bytes per write differ from the reference interpretation: {msg}"), replay());
                }
            }
            Err(msg) => st.v.add("unparseable-output:output-with-short-writes", format!("what reached an output taking {k} bytes per write is not well-formed EMF: {msg}"), replay()),
        },
        Ok(other) => st.v.add("valid-entry-rejected:output-with-short-writes", format!("a defect-free entry was not formatted: {other:?}"), replay()),
        Err(_) => st.v.add("panic:output-with-short-writes", format!("the formatter panicked on an output taking {k} bytes per write"), replay()),
    }
    st.out = out;
}

fn check_one(st: &mut St, cfg: &CfgD, pristine: &Emf, entry: &EntryD, reused: bool, unsampled_route: bool) {
    let mut out = std::mem::take(&mut st.out);
    let plain_cfg;
    let (cfg, outcome) = if reused {
        st.reused_compared += 1;
        out.clear();
        let mult = cfg.mult;
        let r = st.reused.entry(pristine as *const Emf as usize).or_insert_with(|| Runner::from_emf(pristine.clone(), mult));
        if unsampled_route {
            let o = r.format_in_mode(entry, &mut out, None);
            plain_cfg = CfgD { mult: Mult::None, ..cfg.clone() };
            (&plain_cfg, o)
        } else {
            (cfg, r.format(entry, &mut out))
        }
    } else {
        (cfg, run_fresh(pristine, cfg.mult, entry, &mut out))
    };
    let suffix = if unsampled_route { ":on-reused-sampling-formatter-unsampled-route" } else if reused { ":on-reused-formatter" } else { "" };
    let replay = || json!({"config": cfg.to_json(), "entry": entry.to_json(), "formatter": if unsampled_route { "long-lived sampling formatter (had formatted sampled entries before), called through Format::format" } else if reused { "long-lived (had formatted other entries before)" } else { "fresh" }, "output": String::from_utf8_lossy(&out)});
    match &outcome {
        Outcome::Ok => match parse_output(&out) {
            Ok(recs) => {
                let exp = expected_records(cfg, entry);
                if !reused {
                    st.compared += 1;
                    st.records += recs.len() as u64;
                    st.shapes.insert(shape(&exp));
                }
                if let Err(msg) = compare(cfg, &exp, &recs) {
                    let class: String = msg.split(':').next().unwrap_or("").chars().filter(|c| c.is_ascii_alphabetic() || *c == ' ').collect::<String>().trim().replace(' ', "-");
                    st.v.add(format!("record-mismatch:{class}{suffix}"), format!("emitted records differ from the reference interpretation: {msg}"), replay());
                } else if st.sample.is_none() && recs.len() > 1 && recs.iter().any(|r| r.members.len() > 3) {
                    st.sample = Some(replay());
                }
            }
            Err(msg) => st.v.add(format!("unparseable-output{suffix}"), format!("output is not well-formed EMF: {msg}"), replay()),
        },
        Outcome::Validation(e) => st.v.add(format!("valid-entry-rejected{suffix}"), format!("a defect-free entry was rejected: {e}"), replay()),
        Outcome::Io(e) => st.v.add("io-error-on-infallible-writer", format!("Io error {e}"), replay()),
    }
    st.out = out;
}

fn main() {
    let mut rep = Report::from_args("C03", "exploration");
    if let Some(path) = rep.replay.clone() {
        // re-run exactly the recorded (config, entry) case on a fresh real formatter
        let ok = vh_seq::emfx::replay_file(&path);
        println!("REPLAY {}", if ok { "no violation reproduced" } else { "violation reproduced" });
        std::process::exit(if ok { 0 } else { 1 })
    }
    let ls = layers(rep.tier);
    let _ = CHUNKS.set(rep.tier.pick(vec![5], vec![1, 5]));
    let states = walk(&ls, St::default, |st, _l, cfg, pristine, entry| check(st, cfg, pristine, entry));
    let mut states = states;
    let mut scaled_cases = 0u64;
    {
        let mut st = St::default();
        // (the long-lived formatters are keyed by the address of their pristine copy: all of
        // them stay alive, at distinct addresses, for the whole pass)
        let scfgs = vh_seq::emfx::gen_::scaled_configs();
        let ps: Vec<Emf> = scfgs.iter().map(|c| c.build()).collect();
        for (cfg, p) in scfgs.iter().zip(&ps) {
            // first an entry with more than 1 MiB of metric text: the long-lived formatter of this
            // configuration has formatted it before the scaled entries that follow
            let huge = vh_seq::emfx::gen_::build_entry(cfg, vh_seq::emfx::gen_::frame_minimal(), vec![(s("H"), ValD::Metric { obs: vh_seq::emfx::gen_::huge_obs(), unit: UnitD::None, dims: vec![], flag: FlagD::None })]);
            check(&mut st, cfg, p, &huge);
            scaled_cases += 1;
            for (_name, entry) in vh_seq::emfx::gen_::scaled_entries(cfg, rep.tier) {
                check(&mut st, cfg, p, &entry);
                scaled_cases += 1;
            }
        }
        states.push(st);
    }
    // every character that needs (or nearly needs) escaping ALONE in a string: as a property
    // value, as a per-metric dimension value and inside a property name
    let mut single_char_cases = 0u64;
    {
        let mut st = St::default();
        let scfgs = [CfgD::simple(Ctor::NoValidations), CfgD::simple(Ctor::AllValidations)];
        let ps: Vec<Emf> = scfgs.iter().map(|c| c.build()).collect();
        let mut chars: Vec<char> = (0u32..=0x20).filter_map(char::from_u32).collect();
        chars.extend(['"', '\\', '/', '\u{7f}', '\u{80}', '\u{9f}', '\u{a0}', 'é', '\u{2028}', '\u{2029}', '\u{feff}', '\u{fffd}', '\u{ffff}', '\u{10000}', '😀', '\u{10ffff}']);
        for (cfg, p) in scfgs.iter().zip(&ps) {
            for c in &chars {
                let text = c.to_string();
                let entry = EntryD { ops: vec![
                    OpD::Config(ConfD::Split),
                    OpD::Timestamp(TS_BIG_NS),
                    OpD::Value(s("P"), ValD::Str(text.clone())),
                    OpD::Value(format!("n{c}"), ValD::Str(s("v"))),
                    OpD::Value(s("M"), ValD::Metric { obs: vec![Obs::U(1)], unit: UnitD::None, dims: vec![(s("k"), text.clone())], flag: FlagD::None }),
                ]};
                check(&mut st, cfg, p, &entry);
                single_char_cases += 1;
            }
        }
        states.push(st);
    }
    let mut shapes = BTreeSet::new();
    let (mut cases, mut compared, mut records, mut ood) = (0, 0, 0, 0);
    let mut reused_total = 0u64;
    let mut chunked_total = 0u64;
    let mut clone_total = 0u64;
    for s in states {
        reused_total += s.reused_compared;
        chunked_total += s.chunked_compared;
        clone_total += s.clone_compared;
        cases += s.cases; compared += s.compared; records += s.records; ood += s.out_of_domain;
        shapes.extend(s.shapes);
        rep.violations.merge(s.v);
        if let Some(x) = s.sample { rep.sample(x); }
    }
    rep.set("evaluations", cases);
    rep.set("compared_with_reference", compared);
    rep.set("records_compared", records);
    rep.set("outside_documented_domain_skipped", ood);
    rep.set("cases_repeated_on_a_long_lived_formatter", reused_total);
    rep.set("cases_repeated_into_an_output_with_short_writes", chunked_total);
    rep.set("cases_repeated_on_a_clone_of_the_long_lived_formatter", clone_total);
    rep.set("distinct_nontrivial", shapes.len() as u64);
    rep.set("rule", "complete cross products of the alphabets in emfx/gen_.rs (layers A1,A2,B,C) restricted to the documented domain; every accepted output is parsed by the strict parser and compared, as a multiset of records, with an independent reference interpretation (emfx/reference.rs::expected_records); distinct = distinct expected-record shapes (records, dimension sets, definitions, per-member kind/counts)");
    rep.set("scaled_entry_cases", scaled_cases);
    rep.set("single_special_character_cases", single_char_cases);
    rep.set("exhaustive", true);
    rep.set("layers", ls.iter().map(|l| json!({"layer": l.name, "cases": l.size()})).collect::<Vec<_>>());
    rep.assume("number equality: integer observations by exact lexeme, floating ones by f64 round trip of the lexeme");
    rep.assume("order of members, of dimension sets and of names inside a dimension set is not part of the property");
    rep.assume("a zero-occurrence observation may carry any finite value with count 0");
    rep.finish();
}
