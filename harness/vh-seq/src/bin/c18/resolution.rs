//! Which clock is in force: a thread-local override (whatever time source it names, the system
//! clock included) beats the runtime-wide override of the entered tokio runtime, which beats the
//! system clock. Every combination of {no thread-local override, a fake clock, the system clock
//! as explicit override} x {runtime override installed or not} x {inside / outside the runtime},
//! observed through Timestamp::now(), Timer::start_now() and Stopwatch::new().
use metrique::timers::{Stopwatch, Timer, Timestamp};
use metrique_core::CloseValue;
use metrique_timesource::{TimeSource, fakes::ManuallyAdvancedTimeSource, set_time_source};
use serde_json::json;
use std::time::{Duration, UNIX_EPOCH};
use vh_common::Report;

#[derive(Clone, Copy, Debug, PartialEq)]
enum Clock {
    /// fake, wall clock in the year 2100, moved by 100 s while spans are measured
    ThreadLocalFake,
    /// fake, wall clock in 1972, moved by 1000 s while spans are measured
    RuntimeFake,
    System,
}

fn classify_wall(since_epoch: Duration) -> Option<Clock> {
    let s = since_epoch.as_secs();
    if (4_102_444_800..4_102_444_800 + 10_000).contains(&s) {
        Some(Clock::ThreadLocalFake)
    } else if (77_000_000..77_000_000 + 10_000).contains(&s) {
        Some(Clock::RuntimeFake)
    } else if (1_600_000_000..4_000_000_000).contains(&s) {
        Some(Clock::System)
    } else {
        None
    }
}
fn classify_span(d: Duration) -> Option<Clock> {
    match d.as_secs() {
        100 => Some(Clock::ThreadLocalFake),
        1000 => Some(Clock::RuntimeFake),
        0..=20 => Some(Clock::System),
        _ => None,
    }
}

pub fn run(rep: &mut Report) -> u64 {
    let rt = tokio::runtime::Builder::new_current_thread().build().expect("runtime");
    let mut n = 0;
    for tl in ["none", "fake clock", "TimeSource::System"] {
        for rt_override in [false, true] {
            for inside in [false, true] {
                n += 1;
                let a = ManuallyAdvancedTimeSource::at_time(UNIX_EPOCH + Duration::from_secs(4_102_444_800));
                let b = ManuallyAdvancedTimeSource::at_time(UNIX_EPOCH + Duration::from_secs(77_000_000));
                let rg = rt_override.then(|| metrique_timesource::tokio::set_time_source_for_runtime(rt.handle(), TimeSource::custom(b.clone())));
                let enter = inside.then(|| rt.enter());
                let tg = match tl {
                    "none" => None,
                    "fake clock" => Some(set_time_source(TimeSource::custom(a.clone()))),
                    _ => Some(set_time_source(TimeSource::System)),
                };
                let expect = match tl {
                    "fake clock" => Clock::ThreadLocalFake,
                    "TimeSource::System" => Clock::System,
                    _ if rt_override && inside => Clock::RuntimeFake,
                    _ => Clock::System,
                };
                let stamp = Timestamp::now();
                let mut timer = Timer::start_now();
                let mut sw = Stopwatch::new();
                let guard = sw.start();
                a.update_instant(Duration::from_secs(100));
                b.update_instant(Duration::from_secs(1000));
                let sw_span = guard.stop();
                let timer_span = timer.stop();
                let wall = (&stamp).close().duration_since_epoch();
                let seen = [("Timestamp::now()", classify_wall(wall)), ("Timer::start_now()", classify_span(timer_span)), ("Stopwatch::new()", classify_span(sw_span))];
                for (what, got) in seen {
                    if got != Some(expect) {
                        rep.violations.add(
                            format!("time-source-resolution:{}", what.split("::").next().unwrap_or("")),
                            format!("thread-local override: {tl}, runtime override installed: {rt_override}, created {} the runtime: {what} used {} instead of {expect:?}", if inside { "inside" } else { "outside" }, match got { Some(c) => format!("{c:?}"), None => "an unidentified clock".to_string() }),
                            json!({"part": "resolution", "thread_local_override": tl, "runtime_override": rt_override, "inside_runtime": inside, "wall_clock_seen_s": wall.as_secs(), "timer_span_s": timer_span.as_secs(), "stopwatch_span_s": sw_span.as_secs(), "expected": format!("{expect:?}")}),
                        );
                    }
                }
                drop(tg);
                drop(enter);
                drop(rg);
            }
        }
    }
    n
}
