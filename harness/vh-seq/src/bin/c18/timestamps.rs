//! Timestamp / TimestampOnClose x epoch formats x injected wall clocks.
use crate::guarded;
use metrique::test_util::test_metric;
use metrique::timers::{EpochMicros, EpochMillis, EpochSeconds, Timestamp, TimestampOnClose};
use metrique::unit_of_work::metrics;
use metrique_core::CloseValue;
use metrique_timesource::{TimeSource, fakes::ManuallyAdvancedTimeSource, set_time_source};
use serde_json::{Value, json};
use std::collections::BTreeSet;
use std::time::{Duration, SystemTime, UNIX_EPOCH};
use vh_common::Report;
use vh_common::report::Violations;

/// Every format the crate offers for a timestamp field, on both timestamp kinds, plus the
/// entry-level `#[metrics(timestamp)]`.
#[metrics]
struct TsEntry {
    #[metrics(timestamp)]
    entry_timestamp: Timestamp,
    #[metrics(format = EpochSeconds)]
    created_seconds: Timestamp,
    #[metrics(format = EpochMillis)]
    created_millis: Timestamp,
    #[metrics(format = EpochMicros)]
    created_micros: Timestamp,
    created_default: Timestamp,
    #[metrics(format = EpochSeconds)]
    closed_seconds: TimestampOnClose,
    #[metrics(format = EpochMillis)]
    closed_millis: TimestampOnClose,
    #[metrics(format = EpochMicros)]
    closed_micros: TimestampOnClose,
    closed_default: TimestampOnClose,
}

#[derive(Clone, Copy, PartialEq, Eq, Debug)]
enum Fmt {
    Seconds,
    Millis,
    Micros,
    /// no `format` attribute; documented: "By default, Timestamp will report units of Millisecond"
    Default,
}
impl Fmt {
    fn name(self) -> &'static str {
        match self {
            Fmt::Seconds => "EpochSeconds",
            Fmt::Millis => "EpochMillis",
            Fmt::Micros => "EpochMicros",
            Fmt::Default => "default",
        }
    }
    fn unit_ns(self) -> u128 {
        match self {
            Fmt::Seconds => 1_000_000_000,
            Fmt::Millis | Fmt::Default => 1_000_000,
            Fmt::Micros => 1_000,
        }
    }
}

const FIELDS: [(&str, bool, Fmt); 8] = [
    ("created_seconds", false, Fmt::Seconds),
    ("created_millis", false, Fmt::Millis),
    ("created_micros", false, Fmt::Micros),
    ("created_default", false, Fmt::Default),
    ("closed_seconds", true, Fmt::Seconds),
    ("closed_millis", true, Fmt::Millis),
    ("closed_micros", true, Fmt::Micros),
    ("closed_default", true, Fmt::Default),
];

/// injected wall-clock times, nanoseconds relative to the epoch
const TIMES_NS: [i64; 7] = [
    0,
    1,
    999_999_999,
    1_500_000_000,
    1_749_475_336_015_781_900,
    4_102_444_800_123_456_789,
    -1_500_000_000, // before the epoch: the statement does not say what an epoch timestamp is then
];
const INSTANT_ADVANCES_S: [u64; 2] = [0, 2];

thread_local! {
    static RT: tokio::runtime::Runtime = tokio::runtime::Builder::new_current_thread().build().expect("runtime");
}
/// Installs `ts` as the runtime-wide time source of this thread's runtime and enters the runtime;
/// with `rejected_second` a second install (another clock) is attempted and must panic without
/// replacing the first.
fn runtime_route(ts: TimeSource, rejected_second: bool) -> (tokio::runtime::EnterGuard<'static>, metrique_timesource::tokio::RuntimeTimeSourceGuard) {
    RT.with(|rt| {
        // the runtime lives as long as the thread: extend the borrow for the guards
        let rt: &'static tokio::runtime::Runtime = unsafe { &*(rt as *const tokio::runtime::Runtime) };
        let enter = rt.enter();
        let g = metrique_timesource::tokio::set_time_source_for_runtime(rt.handle(), ts);
        if rejected_second {
            let decoy = ManuallyAdvancedTimeSource::at_time(UNIX_EPOCH + Duration::from_secs(77_000_000));
            let r = std::panic::catch_unwind(std::panic::AssertUnwindSafe(|| {
                metrique_timesource::tokio::set_time_source_for_runtime(rt.handle(), TimeSource::custom(decoy))
            }));
            assert!(r.is_err(), "a second runtime time source must be refused");
        }
        (enter, g)
    })
}

#[derive(Clone, Copy, PartialEq, Eq, Debug)]
enum Route {
    /// `Timestamp::new_from_time_source(ts)`; TimestampOnClose has only `default()`, built under a
    /// thread-local override that is removed right after construction
    Explicit,
    /// `Timestamp::now()` / `TimestampOnClose::default()` under `set_time_source`, kept until closed
    ThreadLocalHeld,
    /// `Timestamp::default()` / `TimestampOnClose::default()`, override removed before the clock moves
    ThreadLocalDropped,
    /// like ThreadLocalHeld, but an inner override with another clock begins and ends before
    /// anything is created (the outer one must be in force again)
    ThreadLocalNested,
    /// runtime-wide time source of the entered tokio runtime (no thread-local override)
    RuntimeHeld,
    /// the same after a second install on that runtime was refused (it panics)
    RuntimeAfterRejectedInstall,
    /// created under `set_time_source`; before anything is closed that override ends and ANOTHER
    /// one (a decoy clock) is installed: close-timestamps still read the clock captured at creation
    ThreadLocalReplacedBeforeClose,
}
const ROUTES: [Route; 7] = [Route::Explicit, Route::ThreadLocalHeld, Route::ThreadLocalDropped, Route::ThreadLocalNested, Route::RuntimeHeld, Route::RuntimeAfterRejectedInstall, Route::ThreadLocalReplacedBeforeClose];
impl Route {
    fn name(self) -> &'static str {
        match self {
            Route::Explicit => "explicit:new_from_time_source",
            Route::ThreadLocalHeld => "thread-local-held:now",
            Route::ThreadLocalDropped => "thread-local-dropped:default",
            Route::ThreadLocalNested => "thread-local-outer-after-inner-override-ended:now",
            Route::RuntimeHeld => "tokio-runtime-wide:now",
            Route::RuntimeAfterRejectedInstall => "tokio-runtime-wide-after-refused-second-install:now",
            Route::ThreadLocalReplacedBeforeClose => "thread-local-replaced-by-another-override-before-close:now",
        }
    }
}

fn sys(ns: i64) -> SystemTime {
    if ns >= 0 { UNIX_EPOCH + Duration::from_nanos(ns as u64) } else { UNIX_EPOCH - Duration::from_nanos(ns.unsigned_abs()) }
}

/// Does the emitted string denote the time `t_ns` in the unit of `fmt`? Err = not a number.
/// EpochMicros (whole microseconds): less than one unit away - the statement does not pick floor
/// vs round. Floating formats: within 4 ulp of the exact quotient (two roundings are unavoidable).
fn denotes(s: &str, fmt: Fmt, t_ns: u128) -> Result<bool, ()> {
    let unit = fmt.unit_ns();
    if fmt == Fmt::Micros {
        if let Ok(p) = s.parse::<u128>() {
            return Ok(p.checked_mul(unit).ok_or(())?.abs_diff(t_ns) < unit);
        }
    }
    let p: f64 = s.parse().map_err(|_| ())?;
    if !p.is_finite() {
        return Err(());
    }
    let e = t_ns as f64 / unit as f64;
    if fmt == Fmt::Micros {
        return Ok((p - e).abs() < 1.0);
    }
    Ok((p - e).abs() <= 4.0 * f64::EPSILON * e.abs())
}

struct Observed {
    entry_timestamp: Option<SystemTime>,
    values: Vec<(usize, Option<String>)>,
    /// (&Timestamp).close(), Timestamp.close(), TimestampOnClose.close(): duration since epoch,
    /// and the SystemTime the first converts into
    direct: [Duration; 3],
    direct_system_time: SystemTime,
    real_calls: u64,
}

fn scenario(t_create: i64, t_close: i64, adv_s: u64, route: Route) -> Observed {
    let clock = ManuallyAdvancedTimeSource::at_time(sys(t_create));
    let ts = TimeSource::custom(clock.clone());
    let mut calls = 0u64;
    let runtime = matches!(route, Route::RuntimeHeld | Route::RuntimeAfterRejectedInstall);
    let mut guard = if runtime { None } else { Some(set_time_source(ts.clone())) };
    let rt_guards = if runtime { Some(runtime_route(ts.clone(), route == Route::RuntimeAfterRejectedInstall)) } else { None };
    if route == Route::ThreadLocalNested {
        let decoy = ManuallyAdvancedTimeSource::at_time(sys(77_000_000_000_000_000));
        let inner = set_time_source(TimeSource::custom(decoy));
        drop(inner);
        crate::time_source_scope_left_by_a_panic();
    }
    let mut stamp = || {
        calls += 1;
        match route {
            Route::Explicit => Timestamp::new_from_time_source(ts.clone()),
            Route::ThreadLocalHeld | Route::ThreadLocalNested | Route::RuntimeHeld | Route::RuntimeAfterRejectedInstall | Route::ThreadLocalReplacedBeforeClose => Timestamp::now(),
            Route::ThreadLocalDropped => Timestamp::default(),
        }
    };
    let entry = TsEntry {
        entry_timestamp: stamp(),
        created_seconds: stamp(),
        created_millis: stamp(),
        created_micros: stamp(),
        created_default: stamp(),
        closed_seconds: TimestampOnClose::default(),
        closed_millis: TimestampOnClose::default(),
        closed_micros: TimestampOnClose::default(),
        closed_default: TimestampOnClose::default(),
    };
    let by_ref = stamp();
    let by_val = stamp();
    let on_close = TimestampOnClose::default();
    calls += 5;
    if route != Route::ThreadLocalHeld && route != Route::ThreadLocalNested {
        guard = None;
    }
    let replaced_by = (route == Route::ThreadLocalReplacedBeforeClose).then(|| set_time_source(TimeSource::custom(ManuallyAdvancedTimeSource::at_time(sys(66_000_000_000_000_000)))));
    // the wall clock jumps to the close time; the monotonic clock moves independently
    clock.update_time(sys(t_close));
    clock.update_instant(Duration::from_secs(adv_s));
    calls += 2;
    let v = (&by_ref).close();
    let direct = [v.duration_since_epoch(), by_val.close().duration_since_epoch(), on_close.close().duration_since_epoch()];
    let direct_system_time: SystemTime = v.into();
    let e = test_metric(entry);
    calls += 4 + 9;
    drop(replaced_by);
    drop(guard);
    drop(rt_guards);
    Observed {
        entry_timestamp: e.timestamp,
        values: FIELDS.iter().enumerate().map(|(i, (name, ..))| (i, e.values.get(*name).cloned())).collect(),
        direct,
        direct_system_time,
        real_calls: calls,
    }
}

#[derive(Default)]
struct St {
    scenarios: u64,
    checks: u64,
    undetermined: u64,
    real_calls: u64,
    v: Violations,
    strings: BTreeSet<String>,
    sample: Option<Value>,
}

fn case_json(t_create: i64, t_close: i64, adv_s: u64, route: Route) -> Value {
    json!({"part": "timestamp", "wall_clock_at_creation_ns": t_create, "wall_clock_at_close_ns": t_close, "monotonic_advance_s": adv_s, "route": route.name()})
}

/// runs one scenario, judges every field; `verbose` prints the comparison (replay mode)
fn check(st: &mut St, t_create: i64, t_close: i64, adv_s: u64, route: Route, verbose: bool) {
    st.scenarios += 1;
    let case = case_json(t_create, t_close, adv_s, route);
    let obs = match guarded(|| scenario(t_create, t_close, adv_s, route)) {
        Ok(o) => o,
        Err(msg) => {
            if t_create < 0 || t_close < 0 {
                // even a panic is not excluded by the statement for pre-epoch clocks
                st.undetermined += 1;
            } else {
                st.v.add("timestamp:panic", format!("the real code panicked: {msg}"), case);
            }
            return;
        }
    };
    st.real_calls += obs.real_calls;
    let with = |extra: Value| {
        let mut c = case.clone();
        c["observed"] = extra;
        c
    };
    // entry-level timestamp and the direct close values: creation time, exactly
    if t_create >= 0 {
        st.checks += 3;
        let want = sys(t_create);
        if verbose {
            println!("  #[metrics(timestamp)]            expected {want:?}  real {:?}", obs.entry_timestamp);
            println!("  (&Timestamp).close()             expected {:?}  real {:?} / as SystemTime {:?}", Duration::from_nanos(t_create as u64), obs.direct[0], obs.direct_system_time);
            println!("  Timestamp.close()                expected {:?}  real {:?}", Duration::from_nanos(t_create as u64), obs.direct[1]);
        }
        if obs.entry_timestamp != Some(want) {
            st.v.add("timestamp:entry-timestamp-is-not-the-creation-wall-clock", format!("#[metrics(timestamp)] Timestamp created at {want:?} produced entry timestamp {:?}", obs.entry_timestamp), with(json!(format!("{:?}", obs.entry_timestamp))));
        }
        let d = Duration::from_nanos(t_create as u64);
        if obs.direct[0] != d || obs.direct_system_time != want {
            st.v.add("timestamp:close-by-reference-is-not-the-creation-wall-clock", format!("(&Timestamp).close() gives {:?} since epoch, created at {d:?}", obs.direct[0]), with(json!(format!("{:?}", obs.direct[0]))));
        }
        if obs.direct[1] != d {
            st.v.add("timestamp:close-by-value-is-not-the-creation-wall-clock", format!("Timestamp.close() gives {:?} since epoch, created at {d:?}", obs.direct[1]), with(json!(format!("{:?}", obs.direct[1]))));
        }
    } else {
        st.undetermined += 3;
    }
    if t_close >= 0 {
        st.checks += 1;
        let d = Duration::from_nanos(t_close as u64);
        if verbose {
            println!("  TimestampOnClose.close()         expected {d:?}  real {:?}", obs.direct[2]);
        }
        if obs.direct[2] != d {
            st.v.add("timestamp-on-close:close-is-not-the-wall-clock-at-close", format!("TimestampOnClose.close() gives {:?} since epoch, the injected wall clock at close is {d:?}", obs.direct[2]), with(json!(format!("{:?}", obs.direct[2]))));
        }
    } else {
        st.undetermined += 1;
    }
    for (i, got) in &obs.values {
        let (name, on_close, fmt) = FIELDS[*i];
        let (relevant, other) = if on_close { (t_close, t_create) } else { (t_create, t_close) };
        let kind = if on_close { "TimestampOnClose" } else { "Timestamp" };
        if relevant < 0 {
            st.undetermined += 1;
            if verbose {
                println!("  {name:<32} pre-epoch clock: not determined by the statement, real {got:?}");
            }
            continue;
        }
        st.checks += 1;
        let Some(got) = got else {
            st.v.add(format!("timestamp:value-missing:{kind}:{}", fmt.name()), format!("field {name} produced no string value"), with(Value::Null));
            continue;
        };
        st.strings.insert(got.clone());
        let verdict = denotes(got, fmt, relevant as u128);
        if verbose {
            println!("  {name:<32} expected {} ns in {}  real {got:?}  {}", relevant, fmt.name(), if verdict == Ok(true) { "ok" } else { "<-- DIFFERS" });
        }
        match verdict {
            Ok(true) => {}
            Err(()) => st.v.add(format!("timestamp:not-a-number:{kind}:{}", fmt.name()), format!("{kind} field {name} emitted {got:?}"), with(json!(got))),
            Ok(false) => {
                // "wrong unit" = the emitted number is (to 0.1%) the injected time expressed in another unit
                let parsed = got.parse::<f64>().unwrap_or(f64::NAN);
                let other_unit = [Fmt::Seconds, Fmt::Millis, Fmt::Micros].into_iter().find(|f| {
                    let e = relevant as f64 / f.unit_ns() as f64;
                    f.unit_ns() != fmt.unit_ns() && e >= 1.0 && ((parsed - e) / e).abs() < 1e-3
                });
                let key = if let Some(_u) = other_unit {
                    format!("timestamp:wrong-unit:{}", fmt.name())
                } else if other >= 0 && other != relevant && denotes(got, fmt, other as u128) == Ok(true) {
                    format!("timestamp:wrong-instant:{kind}:{}", fmt.name())
                } else {
                    format!("timestamp:wrong-value:{kind}:{}", fmt.name())
                };
                let what = format!(
                    "{kind} field with format {} emitted {got:?}; the injected wall clock at {} was {relevant} ns after the epoch{}",
                    fmt.name(),
                    if on_close { "close" } else { "creation" },
                    other_unit.map(|u| format!(" (that is the value in {})", u.name())).unwrap_or_default()
                );
                st.v.add(key, what, with(json!({"field": name, "emitted": got})));
            }
        }
    }
    if st.sample.is_none() && t_create == TIMES_NS[4] && t_close == TIMES_NS[5] && route == Route::ThreadLocalDropped {
        st.sample = Some(json!({"part": "timestamp", "case": case_json(t_create, t_close, adv_s, route), "emitted": obs.values.iter().map(|(i, v)| json!({FIELDS[*i].0: v})).collect::<Vec<_>>(), "verdict": "every field denotes the right instant in its unit"}));
    }
}

pub struct Summary {
    pub scenarios: u64,
    pub real_calls: u64,
    pub undetermined: u64,
}

pub fn run(rep: &mut Report) -> Summary {
    let mut st = St::default();
    for t_create in TIMES_NS {
        for t_close in TIMES_NS {
            for adv in INSTANT_ADVANCES_S {
                for route in ROUTES {
                    check(&mut st, t_create, t_close, adv, route, false);
                }
            }
        }
    }
    rep.violations.merge(std::mem::take(&mut st.v));
    rep.set("timestamp_scenarios", st.scenarios);
    rep.set("timestamp_field_checks", st.checks);
    rep.set("timestamp_checks_skipped_pre_epoch_clock", st.undetermined);
    rep.set("timestamp_distinct_emitted_strings", st.strings.len() as u64);
    rep.set("timestamp_formats", FIELDS.iter().map(|(n, ..)| *n).collect::<Vec<_>>());
    rep.set("timestamp_wall_clock_times_ns", TIMES_NS.to_vec());
    rep.set("timestamp_equality_rule", "integer output: less than one unit from the injected time; floating output: within 4 ulp of injected_ns/unit_ns; close()/entry timestamp: exact");
    if let Some(s) = st.sample.take() {
        rep.sample(s);
    }
    Summary { scenarios: st.scenarios, real_calls: st.real_calls, undetermined: st.undetermined }
}

pub fn replay(case: &Value, rep: &mut Report) -> bool {
    let get = |k: &str| case.get(k).and_then(|v| v.as_i64());
    let route = case.get("route").and_then(|r| r.as_str()).and_then(|s| ROUTES.into_iter().find(|r| r.name() == s));
    let (Some(tc), Some(tz), Some(adv), Some(route)) = (get("wall_clock_at_creation_ns"), get("wall_clock_at_close_ns"), get("monotonic_advance_s"), route) else {
        println!("MACHINERY-FAILURE: replay case is not a timestamp scenario");
        std::process::exit(2);
    };
    println!("timestamp scenario: created at {tc} ns, closed at {tz} ns, monotonic clock +{adv}s, route {}", route.name());
    let mut st = St::default();
    check(&mut st, tc, tz, adv as u64, route, true);
    let bad = !st.v.is_empty();
    rep.violations.merge(st.v);
    bad
}
