//! Timer: creation, any sequence of {advance 1s, advance 2s, stop, observe}, close.
use crate::{dur_json, guarded};
use metrique::timers::Timer;
use metrique_core::CloseValue;
use metrique_timesource::{TimeSource, fakes::ManuallyAdvancedTimeSource, set_time_source};
use serde_json::{Value, json};
use std::collections::BTreeSet;
use std::time::{Duration, UNIX_EPOCH};
use vh_common::report::Violations;
use vh_common::{Report, par};

#[derive(Clone, Copy, PartialEq, Eq, Debug)]
pub enum Op {
    Adv(u8),
    /// `timer.stop()`
    Stop,
    /// `(&timer).close()`
    Observe,
}
const OPS: [Op; 4] = [Op::Adv(1), Op::Adv(2), Op::Stop, Op::Observe];

impl Op {
    fn name(self) -> String {
        match self {
            Op::Adv(s) => format!("advance({s}s)"),
            Op::Stop => "stop".into(),
            Op::Observe => "observe".into(),
        }
    }
    fn parse(s: &str) -> Option<Op> {
        match s {
            "stop" => Some(Op::Stop),
            "observe" => Some(Op::Observe),
            _ => s.strip_prefix("advance(")?.strip_suffix("s)")?.parse().ok().map(Op::Adv),
        }
    }
}

thread_local! {
    static RT: tokio::runtime::Runtime = tokio::runtime::Builder::new_current_thread().build().expect("runtime");
}
/// Installs `ts` as the runtime-wide time source of this thread's runtime and enters the runtime;
/// with `rejected_second` a second install (another clock) is attempted and must panic without
/// replacing the first.
fn runtime_route(ts: TimeSource, rejected_second: bool) -> (tokio::runtime::EnterGuard<'static>, metrique_timesource::tokio::RuntimeTimeSourceGuard) {
    RT.with(|rt| {
        // the runtime lives as long as the thread: extend the borrow for the guards
        let rt: &'static tokio::runtime::Runtime = unsafe { &*(rt as *const tokio::runtime::Runtime) };
        let enter = rt.enter();
        let g = metrique_timesource::tokio::set_time_source_for_runtime(rt.handle(), ts);
        if rejected_second {
            let decoy = ManuallyAdvancedTimeSource::at_time(UNIX_EPOCH + Duration::from_secs(77_000_000));
            let r = std::panic::catch_unwind(std::panic::AssertUnwindSafe(|| {
                metrique_timesource::tokio::set_time_source_for_runtime(rt.handle(), TimeSource::custom(decoy))
            }));
            assert!(r.is_err(), "a second runtime time source must be refused");
        }
        (enter, g)
    })
}

#[derive(Clone, Copy, PartialEq, Eq, Debug)]
pub enum Inject {
    /// `Timer::start_now_with_timesource(ts)`
    Explicit,
    /// `set_time_source(ts)` + `Timer::start_now()`, override kept
    ThreadLocalHeld,
    /// `set_time_source(ts)` + `Timer::default()`, override removed right after creation
    ThreadLocalDropped,
    /// `set_time_source(ts)` kept; before the timer is created an inner override with another
    /// clock begins and ends (the outer one must be in force again)
    ThreadLocalNested,
    /// runtime-wide time source of the entered tokio runtime, kept
    RuntimeHeld,
    /// the same after a second install on that runtime was refused (it panics)
    RuntimeAfterRejectedInstall,
}
const INJECTS: [Inject; 6] = [Inject::Explicit, Inject::ThreadLocalHeld, Inject::ThreadLocalDropped, Inject::ThreadLocalNested, Inject::RuntimeHeld, Inject::RuntimeAfterRejectedInstall];
impl Inject {
    fn name(self) -> &'static str {
        match self {
            Inject::Explicit => "explicit:start_now_with_timesource",
            Inject::ThreadLocalHeld => "thread-local-held:start_now",
            Inject::ThreadLocalDropped => "thread-local-dropped:default",
            Inject::ThreadLocalNested => "thread-local-outer-after-inner-override-ended:start_now",
            Inject::RuntimeHeld => "tokio-runtime-wide:start_now",
            Inject::RuntimeAfterRejectedInstall => "tokio-runtime-wide-after-refused-second-install:start_now",
        }
    }
    fn parse(s: &str) -> Option<Inject> {
        INJECTS.into_iter().find(|i| i.name() == s)
    }
}

#[derive(Clone, Copy, PartialEq, Eq, Debug)]
pub enum Rec {
    Stop(Duration),
    Obs(Duration),
    FinalRef(Duration),
    FinalVal(Duration),
}
impl Rec {
    fn to_json(self) -> Value {
        match self {
            Rec::Stop(d) => json!({"stop() returned": dur_json(Some(d))}),
            Rec::Obs(d) => json!({"(&timer).close()": dur_json(Some(d))}),
            Rec::FinalRef(d) => json!({"final (&timer).close()": dur_json(Some(d))}),
            Rec::FinalVal(d) => json!({"final timer.close()": dur_json(Some(d))}),
        }
    }
}

fn exec(history: &[Op], inj: Inject, recs: &mut Vec<(usize, Rec)>) {
    let mut wall = UNIX_EPOCH + Duration::from_secs(1_000);
    let clock = ManuallyAdvancedTimeSource::at_time(wall);
    let ts = TimeSource::custom(clock.clone());
    let mut tl_guard = None;
    let mut rt_guards = None;
    let mut timer = match inj {
        Inject::RuntimeHeld | Inject::RuntimeAfterRejectedInstall => {
            rt_guards = Some(runtime_route(ts, inj == Inject::RuntimeAfterRejectedInstall));
            Timer::start_now()
        }
        Inject::Explicit => Timer::start_now_with_timesource(ts),
        Inject::ThreadLocalHeld => {
            tl_guard = Some(set_time_source(ts));
            Timer::start_now()
        }
        Inject::ThreadLocalDropped => {
            let g = set_time_source(ts);
            let t = Timer::default();
            drop(g);
            t
        }
        Inject::ThreadLocalNested => {
            tl_guard = Some(set_time_source(ts));
            let decoy = ManuallyAdvancedTimeSource::at_time(UNIX_EPOCH + Duration::from_secs(77_000_000));
            let inner = set_time_source(TimeSource::custom(decoy));
            drop(inner);
            crate::time_source_scope_left_by_a_panic();
            Timer::start_now()
        }
    };
    for (i, &op) in history.iter().enumerate() {
        match op {
            Op::Adv(s) => {
                let d = Duration::from_secs(s as u64);
                clock.update_instant(d);
                wall += d;
                clock.update_time(wall);
            }
            Op::Stop => recs.push((i, Rec::Stop(timer.stop()))),
            Op::Observe => recs.push((i, Rec::Obs((&timer).close()))),
        }
    }
    recs.push((history.len(), Rec::FinalRef((&timer).close())));
    recs.push((history.len(), Rec::FinalVal(timer.close())));
    drop(tl_guard);
}

/// "A timer reports the time from its creation to its first stop, or to the close if never
/// stopped, repeated stops change nothing" (+ docs: `stop` returns that duration)
#[derive(Default)]
struct Model {
    now: u64,
    first_stop: Option<u64>,
    stops: u32,
}
impl Model {
    fn report(&self) -> Duration {
        Duration::from_secs(self.first_stop.unwrap_or(self.now))
    }
    fn apply(&mut self, op: Op) -> Option<Rec> {
        match op {
            Op::Adv(s) => self.now += s as u64,
            Op::Stop => {
                self.stops += 1;
                if self.first_stop.is_none() {
                    self.first_stop = Some(self.now);
                }
                return Some(Rec::Stop(self.report()));
            }
            Op::Observe => return Some(Rec::Obs(self.report())),
        }
        None
    }
}

fn model_run(history: &[Op], recs: &mut Vec<(usize, Rec)>) -> Model {
    let mut m = Model::default();
    for (i, &op) in history.iter().enumerate() {
        if let Some(r) = m.apply(op) {
            recs.push((i, r));
        }
    }
    recs.push((history.len(), Rec::FinalRef(m.report())));
    recs.push((history.len(), Rec::FinalVal(m.report())));
    m
}

fn first_mismatch(real: &[(usize, Rec)], exp: &[(usize, Rec)]) -> Option<usize> {
    (0..real.len().max(exp.len())).find(|&i| real.get(i) != exp.get(i))
}

fn run_both(history: &[Op], inj: Inject) -> (Result<Vec<(usize, Rec)>, String>, Vec<(usize, Rec)>) {
    let mut exp = Vec::new();
    model_run(history, &mut exp);
    let real = guarded(|| {
        let mut r = Vec::new();
        exec(history, inj, &mut r);
        r
    });
    (real, exp)
}

fn failing(history: &[Op], inj: Inject) -> bool {
    let (real, exp) = run_both(history, inj);
    !matches!(real, Ok(r) if first_mismatch(&r, &exp).is_none())
}

fn trace(history: &[Op], inj: Inject) -> Value {
    let (real, exp) = run_both(history, inj);
    let real_recs = real.clone().unwrap_or_default();
    let pick = |recs: &[(usize, Rec)], i: usize| -> Vec<Value> { recs.iter().filter(|(s, _)| *s == i).map(|(_, r)| r.to_json()).collect() };
    let mut m = Model::default();
    let mut steps = Vec::new();
    for (i, &op) in history.iter().enumerate() {
        m.apply(op);
        steps.push(json!({"step": i, "op": op.name(), "model_after": {"now_s": m.now, "first_stop_at_s": m.first_stop, "reports": dur_json(Some(m.report()))}, "expected": pick(&exp, i), "real": pick(&real_recs, i)}));
    }
    steps.push(json!({"step": history.len(), "op": "(final close: by reference, then by value)", "expected": pick(&exp, history.len()), "real": pick(&real_recs, history.len())}));
    json!({"steps": steps, "real_panic": real.err()})
}

#[derive(Default)]
struct St {
    histories: u64,
    ops: u64,
    observations: u64,
    non_minimal: u64,
    v: Violations,
    values: BTreeSet<u64>,
    sample: Option<Value>,
}

fn report_failure(st: &mut St, history: &[Op], inj: Inject) {
    for k in 0..history.len() {
        if failing(&history[..k], inj) {
            st.non_minimal += 1;
            return;
        }
    }
    let (real, exp) = run_both(history, inj);
    let stops = history.iter().filter(|o| **o == Op::Stop).count();
    let last = history.last().copied();
    let (key, what) = match &real {
        Err(msg) => ("timer:panic".to_string(), format!("the real code panicked: {msg}")),
        Ok(real) => {
            let i = first_mismatch(real, &exp).expect("mismatch");
            match (real.get(i).map(|r| r.1), exp.get(i).map(|r| r.1)) {
                (Some(Rec::Stop(g)), Some(Rec::Stop(e))) => (
                    if stops <= 1 { "timer:first-stop-returns-wrong-span" } else { "timer:repeated-stop-returns-different-value" }.to_string(),
                    format!("stop() number {stops} returned {g:?}, creation to first stop is {e:?}"),
                ),
                (Some(Rec::FinalVal(g)), Some(Rec::FinalVal(e))) => ("timer:close-by-value-differs-from-by-reference".to_string(), format!("timer.close() gave {g:?}, expected {e:?}")),
                (Some(Rec::Obs(g)), Some(Rec::Obs(e))) | (Some(Rec::FinalRef(g)), Some(Rec::FinalRef(e))) => {
                    let key = if stops == 0 {
                        "timer:never-stopped:not-creation-to-close"
                    } else if last == Some(Op::Stop) && stops >= 2 {
                        "timer:second-stop-changes-value"
                    } else if last == Some(Op::Stop) {
                        "timer:first-stop:wrong-span"
                    } else if matches!(last, Some(Op::Adv(_))) {
                        "timer:keeps-running-after-stop"
                    } else {
                        "timer:observation-changes-value"
                    };
                    (key.to_string(), format!("closing reports {g:?}, expected {e:?} ({})", if stops == 0 { "creation to close" } else { "creation to first stop" }))
                }
                (g, e) => ("timer:observations-differ-in-kind".to_string(), format!("real {g:?} vs model {e:?}")),
            }
        }
    };
    if let Some(v) = st.v.by_key.get_mut(&key) {
        v.count += 1;
        if v.replay["history"].as_array().is_some_and(|h| h.len() <= history.len()) {
            return;
        }
    }
    let names: Vec<String> = history.iter().map(|o| o.name()).collect();
    let what = format!("{what} [history: create, {}; time source: {}]", names.join(", "), inj.name());
    let replay = json!({"part": "timer", "injection": inj.name(), "history": names, "trace": trace(history, inj)});
    match st.v.by_key.get_mut(&key) {
        Some(v) => {
            v.what = what;
            v.replay = replay;
        }
        None => st.v.add(key, what, replay),
    }
}

fn check(st: &mut St, history: &[Op], inj: Inject, real: &mut Vec<(usize, Rec)>, exp: &mut Vec<(usize, Rec)>) {
    st.histories += 1;
    st.ops += history.len() as u64;
    real.clear();
    exp.clear();
    let m = model_run(history, exp);
    match guarded(|| exec(history, inj, real)) {
        Err(_) => report_failure(st, history, inj),
        Ok(()) => {
            for (_, r) in real.iter() {
                let (Rec::Obs(d) | Rec::FinalRef(d) | Rec::FinalVal(d) | Rec::Stop(d)) = r;
                st.observations += 1;
                st.values.insert(d.as_nanos() as u64);
            }
            if first_mismatch(real, exp).is_some() {
                report_failure(st, history, inj);
            } else if st.sample.is_none() && history.len() >= 5 && m.stops >= 2 && m.first_stop.is_some_and(|s| s >= 2 && s < m.now) {
                st.sample = Some(json!({"part": "timer", "injection": inj.name(), "history": history.iter().map(|o| o.name()).collect::<Vec<_>>(), "model_reports": dur_json(Some(m.report())), "verdict": "real == model at every observation"}));
            }
        }
    }
}

pub struct Summary {
    pub histories: u64,
    pub ops_applied: u64,
    pub undetermined: u64,
}

pub fn run(rep: &mut Report) -> Summary {
    let depth: u32 = rep.tier.pick(7, 10);
    let n = OPS.len() as u64;
    let mut count = 0u64;
    for d in 0..=depth {
        count += n.pow(d);
    }
    let states = par::for_each_index(count * INJECTS.len() as u64, 256, || (St::default(), Vec::new(), Vec::new(), Vec::new()), |(st, hist, real, exp), idx| {
        let inj = INJECTS[(idx % INJECTS.len() as u64) as usize];
        let mut idx = idx / INJECTS.len() as u64;
        let mut len = 0;
        while idx >= n.pow(len) {
            idx -= n.pow(len);
            len += 1;
        }
        hist.clear();
        for _ in 0..len {
            hist.push(OPS[(idx % n) as usize]);
            idx /= n;
        }
        check(st, hist, inj, real, exp);
    });
    let mut total = St::default();
    for (s, ..) in states {
        total.histories += s.histories;
        total.ops += s.ops;
        total.observations += s.observations;
        total.non_minimal += s.non_minimal;
        total.values.extend(s.values);
        total.v.merge(s.v);
        if total.sample.is_none() {
            total.sample = s.sample;
        }
    }
    rep.violations.merge(std::mem::take(&mut total.v));
    rep.set("timer_histories", total.histories);
    rep.set("timer_depth", depth);
    rep.set("timer_time_source_injections", INJECTS.iter().map(|i| i.name()).collect::<Vec<_>>());
    rep.set("timer_operations_applied_to_real_objects", total.ops);
    rep.set("timer_values_compared", total.observations);
    rep.set("timer_distinct_reported_values", total.values.len() as u64);
    rep.set("timer_non_minimal_failures_folded", total.non_minimal);
    if let Some(s) = total.sample {
        rep.sample(s);
    }
    Summary { histories: total.histories, ops_applied: total.ops, undetermined: 0 }
}

pub fn replay(case: &Value, rep: &mut Report) -> bool {
    let inj = case.get("injection").and_then(|v| v.as_str()).and_then(Inject::parse).unwrap_or(Inject::Explicit);
    let hist: Option<Vec<Op>> = case.get("history").and_then(|h| h.as_array()).and_then(|a| a.iter().map(|s| s.as_str().and_then(Op::parse)).collect());
    let Some(hist) = hist else {
        println!("MACHINERY-FAILURE: replay case has no timer history");
        std::process::exit(2);
    };
    let t = trace(&hist, inj);
    println!("timer history (after creation), time source {}:", inj.name());
    for s in t["steps"].as_array().unwrap() {
        println!("  step {:>2} {:<14} expected {}  real {}  {}", s["step"], s["op"].as_str().unwrap_or(""), s["expected"], s["real"], if s["expected"] == s["real"] { "ok" } else { "<-- DIFFERS" });
    }
    let mut st = St::default();
    for k in 0..=hist.len() {
        if failing(&hist[..k], inj) {
            report_failure(&mut st, &hist[..k], inj);
            break;
        }
    }
    let bad = !st.v.is_empty();
    rep.violations.merge(st.v);
    bad
}
