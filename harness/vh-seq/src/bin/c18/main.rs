//! C18 - timers and stopwatches report exactly the spans they were asked to measure.
//!
//! Three exhaustive parts, all against the real `metrique::timers` types driven by a
//! `ManuallyAdvancedTimeSource`:
//!  * `stopwatch`  - explicit-state search over ALL operation sequences up to the depth; a state is
//!                   the history, the real objects are rebuilt by replaying it from scratch
//!                   (nothing in timers.rs is `Clone`); no state merging, so no argument about
//!                   hidden implementation state is needed.
//!  * `timer`      - all sequences of {advance 1s, advance 2s, stop, observe} after creation.
//!  * `timestamps` - Timestamp / TimestampOnClose x every epoch format x injected wall clocks.
//! The reference models are written from the property statement (sum of kept spans since the last
//! clear/overwrite; creation -> first stop; wall clock at creation / at close in the chosen unit).
mod resolution;
mod stopwatch;
mod timer;
mod timestamps;

use serde_json::{Value, json};
use std::cell::Cell;
use std::time::Duration;
use vh_common::Report;

thread_local! {
    /// true while a worker is inside the real code under a catch_unwind: panics there are
    /// reported as violations, not printed
    pub static QUIET_PANIC: Cell<bool> = const { Cell::new(false) };
}

/// A `with_time_source` scope with another clock that is left by a panic (caught here): whatever
/// override was in force before must be in force again afterwards.
pub fn time_source_scope_left_by_a_panic() {
    use metrique_timesource::{TimeSource, fakes::ManuallyAdvancedTimeSource};
    let decoy = ManuallyAdvancedTimeSource::at_time(std::time::UNIX_EPOCH + std::time::Duration::from_secs(55_000_000));
    let prev = QUIET_PANIC.with(|q| q.replace(true));
    let r = std::panic::catch_unwind(std::panic::AssertUnwindSafe(|| metrique_timesource::with_time_source(TimeSource::custom(decoy), || -> () { panic!("expected: the scope panics") })));
    QUIET_PANIC.with(|q| q.set(prev));
    assert!(r.is_err());
}

/// Runs `f` (real code) and turns a panic into Err(message) without printing anything.
pub fn guarded<R>(f: impl FnOnce() -> R) -> Result<R, String> {
    QUIET_PANIC.with(|q| q.set(true));
    let r = std::panic::catch_unwind(std::panic::AssertUnwindSafe(f));
    QUIET_PANIC.with(|q| q.set(false));
    r.map_err(|e| {
        if let Some(s) = e.downcast_ref::<&str>() {
            s.to_string()
        } else if let Some(s) = e.downcast_ref::<String>() {
            s.clone()
        } else {
            "panic".to_string()
        }
    })
}

pub fn dur_json(d: Option<Duration>) -> Value {
    match d {
        None => Value::Null,
        Some(d) => json!(format!("{}.{:09}s", d.as_secs(), d.subsec_nanos())),
    }
}

fn main() {
    let mut rep = Report::from_args("C18", "model_checking");
    let default_hook = std::panic::take_hook();
    std::panic::set_hook(Box::new(move |info| {
        if !QUIET_PANIC.with(|q| q.get()) {
            default_hook(info);
        }
    }));

    if let Some(path) = rep.replay.clone() {
        let text = match std::fs::read_to_string(&path) {
            Ok(t) => t,
            Err(e) => {
                println!("MACHINERY-FAILURE: cannot read replay file {path:?}: {e}");
                std::process::exit(2);
            }
        };
        let v: Value = match serde_json::from_str(&text) {
            Ok(v) => v,
            Err(e) => {
                println!("MACHINERY-FAILURE: replay file is not JSON: {e}");
                std::process::exit(2);
            }
        };
        let case = v.get("replay").cloned().unwrap_or(v);
        let reproduced = match case.get("part").and_then(|p| p.as_str()) {
            Some("stopwatch") => stopwatch::replay(&case, &mut rep),
            Some("timer") => timer::replay(&case, &mut rep),
            Some("timestamp") => timestamps::replay(&case, &mut rep),
            other => {
                println!("MACHINERY-FAILURE: replay case has unknown part {other:?}");
                std::process::exit(2);
            }
        };
        println!("replay: {}", if reproduced { "the violation reproduces" } else { "real code and reference model agree on every step" });
        rep.finish();
    }

    let sw = stopwatch::run(&mut rep);
    let tm = timer::run(&mut rep);
    let ts = timestamps::run(&mut rep);
    let res = resolution::run(&mut rep);
    rep.set("time_source_resolution_cases", res);

    rep.set("states", sw.histories + tm.histories + ts.scenarios);
    rep.set("transitions", sw.ops_applied + tm.ops_applied + ts.real_calls);
    rep.set("traces_validated_against_impl", sw.histories + tm.histories + ts.scenarios);
    rep.set("exhaustive", true);
    rep.set("depth", sw.depth);
    rep.set(
        "statement_does_not_determine",
        sw.undetermined + tm.undetermined + ts.undetermined,
    );
    rep.set("explanation", "a state is a history (operation sequence); every history up to the depth is enumerated WITHOUT merging and executed from scratch on fresh real objects, so every prefix is its own checked history; the value reported by closing (by reference, then by value) and every Duration returned by stop() must equal the reference model written from the property statement");
    rep.assume("ManuallyAdvancedTimeSource is the injected clock: `update_instant` moves the monotonic clock, `update_time` the wall clock (the check moves both for stopwatch/timer steps, and independently for timestamps)");
    rep.assume("a guard that is ended with no clock advance is a completed span of length 0, so the stopwatch reports Some(0), not None");
    rep.assume("per the docs of `Stopwatch::clear` and `overwrite`, a guard that is still live at a clear/overwrite contributes its WHOLE span when it completes afterwards");
    rep.assume("the property's 'long random sequences' are outside this technique family and not attempted");
    rep.finish();
}
