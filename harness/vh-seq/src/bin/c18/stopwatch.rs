//! Stopwatch: explicit-state search over all operation sequences (state = history).
use crate::{dur_json, guarded};
use metrique::timers::{OwnedTimerGuard, Stopwatch};
use metrique_core::CloseValue;
use metrique_timesource::{TimeSource, fakes::ManuallyAdvancedTimeSource, set_time_source};
use serde_json::{Value, json};
use std::collections::{BTreeSet, HashSet};
use std::time::{Duration, SystemTime, UNIX_EPOCH};
use vh_common::report::Violations;
use vh_common::{Report, par};

pub const MAX_OWNED: u8 = 3;

/// How a guard's life ends (the real API: `drop(guard)`, `guard.stop()`, `guard.discard()`,
/// `guard.overwrite()` on both `TimerGuard` and `OwnedTimerGuard`).
#[derive(Clone, Copy, PartialEq, Eq, Debug)]
pub enum End {
    Drop,
    Stop,
    Discard,
    Overwrite,
    /// the guard is dropped by the unwinding of a (caught) panic of its owner: still a drop
    DropUnwinding,
}
pub const ENDS: [End; 5] = [End::Drop, End::Stop, End::Discard, End::Overwrite, End::DropUnwinding];

fn drop_unwinding<T>(x: T) {
    let prev = crate::QUIET_PANIC.with(|q| q.replace(true));
    let r = std::panic::catch_unwind(std::panic::AssertUnwindSafe(move || {
        let _owned = x;
        panic!("expected: the guard's owner panics");
    }));
    crate::QUIET_PANIC.with(|q| q.set(prev));
    assert!(r.is_err());
}

#[derive(Clone, Copy, PartialEq, Eq, Debug)]
pub enum Op {
    /// `stopwatch.start()`; while the borrowed guard lives only clock advances and ends of live
    /// OWNED guards are possible (the stopwatch itself is mutably borrowed)
    BStart,
    BEnd(End),
    /// `stopwatch.start_owned()`
    OStart,
    /// end of the i-th live owned guard (in start order)
    OEnd(u8, End),
    /// `stopwatch.clear()`
    Clear,
    /// advance the injected clock by this many seconds
    Adv(u8),
    /// `(&stopwatch).close()`
    Observe,
}

impl End {
    fn name(self) -> &'static str {
        match self {
            End::Drop => "drop",
            End::DropUnwinding => "drop-by-unwinding",
            End::Stop => "stop",
            End::Discard => "discard",
            End::Overwrite => "overwrite",
        }
    }
    fn parse(s: &str) -> Option<End> {
        ENDS.into_iter().find(|e| e.name() == s)
    }
}

impl Op {
    pub fn name(self) -> String {
        match self {
            Op::BStart => "borrowed.start".into(),
            Op::BEnd(e) => format!("borrowed.{}", e.name()),
            Op::OStart => "owned.start".into(),
            Op::OEnd(i, e) => format!("owned[{i}].{}", e.name()),
            Op::Clear => "clear".into(),
            Op::Adv(s) => format!("advance({s}s)"),
            Op::Observe => "observe".into(),
        }
    }
    pub fn parse(s: &str) -> Option<Op> {
        match s {
            "borrowed.start" => return Some(Op::BStart),
            "owned.start" => return Some(Op::OStart),
            "clear" => return Some(Op::Clear),
            "observe" => return Some(Op::Observe),
            _ => {}
        }
        if let Some(r) = s.strip_prefix("borrowed.") {
            return End::parse(r).map(Op::BEnd);
        }
        if let Some(r) = s.strip_prefix("advance(") {
            return r.strip_suffix("s)")?.parse().ok().map(Op::Adv);
        }
        if let Some(r) = s.strip_prefix("owned[") {
            let (i, e) = r.split_once("].")?;
            return Some(Op::OEnd(i.parse().ok()?, End::parse(e)?));
        }
        None
    }
    /// short class used in violation keys
    fn class(self) -> String {
        match self {
            Op::BStart => "borrowed-start".into(),
            Op::BEnd(e) => format!("borrowed-{}", e.name()),
            Op::OStart => "owned-start".into(),
            Op::OEnd(_, e) => format!("owned-{}", e.name()),
            Op::Clear => "clear".into(),
            Op::Adv(_) => "advance".into(),
            Op::Observe => "observe".into(),
        }
    }
}

/// Which operations are possible depends only on the structure (is a borrowed guard live, how
/// many owned guards are live) - this is Rust's borrow checker, not the implementation.
fn enabled(borrowed: bool, owned: u8, out: &mut Vec<Op>) {
    out.clear();
    out.push(Op::Adv(1));
    out.push(Op::Adv(2));
    for i in 0..owned {
        for e in ENDS {
            out.push(Op::OEnd(i, e));
        }
    }
    if borrowed {
        for e in ENDS {
            out.push(Op::BEnd(e));
        }
    } else {
        out.push(Op::BStart);
        if owned < MAX_OWNED {
            out.push(Op::OStart);
        }
        out.push(Op::Clear);
        out.push(Op::Observe);
    }
}

fn step_structure(borrowed: bool, owned: u8, op: Op) -> (bool, u8) {
    match op {
        Op::BStart => (true, owned),
        Op::BEnd(_) => (false, owned),
        Op::OStart => (borrowed, owned + 1),
        Op::OEnd(..) => (borrowed, owned - 1),
        _ => (borrowed, owned),
    }
}

fn well_formed(h: &[Op]) -> bool {
    let (mut b, mut n) = (false, 0u8);
    let mut en = Vec::new();
    for &op in h {
        enabled(b, n, &mut en);
        if !en.contains(&op) && !matches!(op, Op::Adv(_)) {
            return false;
        }
        (b, n) = step_structure(b, n, op);
    }
    true
}

thread_local! {
    static RT: tokio::runtime::Runtime = tokio::runtime::Builder::new_current_thread().build().expect("runtime");
}
/// Installs `ts` as the runtime-wide time source of this thread's runtime and enters the runtime;
/// with `rejected_second` a second install (another clock) is attempted and must panic without
/// replacing the first.
fn runtime_route(ts: TimeSource, rejected_second: bool) -> (tokio::runtime::EnterGuard<'static>, metrique_timesource::tokio::RuntimeTimeSourceGuard) {
    RT.with(|rt| {
        // the runtime lives as long as the thread: extend the borrow for the guards
        let rt: &'static tokio::runtime::Runtime = unsafe { &*(rt as *const tokio::runtime::Runtime) };
        let enter = rt.enter();
        let g = metrique_timesource::tokio::set_time_source_for_runtime(rt.handle(), ts);
        if rejected_second {
            let decoy = ManuallyAdvancedTimeSource::at_time(UNIX_EPOCH + Duration::from_secs(77_000_000));
            let r = std::panic::catch_unwind(std::panic::AssertUnwindSafe(|| {
                metrique_timesource::tokio::set_time_source_for_runtime(rt.handle(), TimeSource::custom(decoy))
            }));
            assert!(r.is_err(), "a second runtime time source must be refused");
        }
        (enter, g)
    })
}

/// How the time source reaches the stopwatch.
#[derive(Clone, Copy, PartialEq, Eq, Debug)]
pub enum Inject {
    /// `Stopwatch::new_from_timesource(ts)`
    Explicit,
    /// `set_time_source(ts)` + `Stopwatch::new()`, override kept for the whole history
    ThreadLocalHeld,
    /// `set_time_source(ts)` + `Stopwatch::default()`, override removed right after construction
    ThreadLocalDropped,
    /// `set_time_source(ts)` kept; an inner override with another clock begins and ends before
    /// `Stopwatch::new()` (the outer one must be in force again, also for later borrowed guards)
    ThreadLocalNested,
    /// runtime-wide time source of the entered tokio runtime, kept
    RuntimeHeld,
    /// the same after a second install on that runtime was refused (it panics)
    RuntimeAfterRejectedInstall,
}
impl Inject {
    pub fn name(self) -> &'static str {
        match self {
            Inject::Explicit => "explicit:new_from_timesource",
            Inject::ThreadLocalHeld => "thread-local-held:new",
            Inject::ThreadLocalDropped => "thread-local-dropped:default",
            Inject::ThreadLocalNested => "thread-local-outer-after-inner-override-ended:new",
            Inject::RuntimeHeld => "tokio-runtime-wide:new",
            Inject::RuntimeAfterRejectedInstall => "tokio-runtime-wide-after-refused-second-install:new",
        }
    }
    pub fn parse(s: &str) -> Option<Inject> {
        [Inject::Explicit, Inject::ThreadLocalHeld, Inject::ThreadLocalDropped, Inject::ThreadLocalNested, Inject::RuntimeHeld, Inject::RuntimeAfterRejectedInstall].into_iter().find(|i| i.name() == s)
    }
}

/// One thing observed at step `usize` (history.len() = after the last step).
#[derive(Clone, Copy, PartialEq, Eq, Debug)]
pub enum Rec {
    /// Duration returned by `guard.stop()`
    Stop(Duration),
    /// `(&stopwatch).close()` in the middle of the history
    Obs(Option<Duration>),
    /// `(&stopwatch).close()` after the last step
    FinalRef(Option<Duration>),
    /// `stopwatch.close()` (by value) after that
    FinalVal(Option<Duration>),
    /// the history ends while the borrowed guard is live: nothing can be observed
    FinalUnobservable,
}
impl Rec {
    fn to_json(self) -> Value {
        match self {
            Rec::Stop(d) => json!({"stop() returned": dur_json(Some(d))}),
            Rec::Obs(d) => json!({"(&stopwatch).close()": dur_json(d)}),
            Rec::FinalRef(d) => json!({"final (&stopwatch).close()": dur_json(d)}),
            Rec::FinalVal(d) => json!({"final stopwatch.close()": dur_json(d)}),
            Rec::FinalUnobservable => json!("borrowed guard still live: unobservable"),
        }
    }
}

// ---------------------------------------------------------------------------------------------
// the real thing
// ---------------------------------------------------------------------------------------------

struct Clock {
    handle: ManuallyAdvancedTimeSource,
    wall: SystemTime,
}
impl Clock {
    fn advance(&mut self, secs: u8) {
        let d = Duration::from_secs(secs as u64);
        self.handle.update_instant(d);
        self.wall += d;
        self.handle.update_time(self.wall);
    }
}

fn end_owned(owned: &mut Vec<OwnedTimerGuard>, i: u8, e: End, step: usize, recs: &mut Vec<(usize, Rec)>) {
    let g = owned.remove(i as usize);
    match e {
        End::Drop => drop(g),
        End::DropUnwinding => drop_unwinding(g),
        End::Stop => recs.push((step, Rec::Stop(g.stop()))),
        End::Discard => g.discard(),
        End::Overwrite => g.overwrite(),
    }
}

/// Replays `history` on a fresh real stopwatch and records everything observable.
pub fn exec(history: &[Op], inj: Inject, recs: &mut Vec<(usize, Rec)>) {
    let wall = UNIX_EPOCH + Duration::from_secs(1_000);
    let mut clock = Clock { handle: ManuallyAdvancedTimeSource::at_time(wall), wall };
    let ts = TimeSource::custom(clock.handle.clone());
    let mut tl_guard = None;
    let mut rt_guards = None;
    let mut sw = match inj {
        Inject::RuntimeHeld | Inject::RuntimeAfterRejectedInstall => {
            rt_guards = Some(runtime_route(ts, inj == Inject::RuntimeAfterRejectedInstall));
            Stopwatch::new()
        }
        Inject::Explicit => Stopwatch::new_from_timesource(ts),
        Inject::ThreadLocalHeld => {
            tl_guard = Some(set_time_source(ts));
            Stopwatch::new()
        }
        Inject::ThreadLocalDropped => {
            let g = set_time_source(ts);
            let sw = Stopwatch::default();
            drop(g);
            sw
        }
        Inject::ThreadLocalNested => {
            tl_guard = Some(set_time_source(ts));
            let decoy = ManuallyAdvancedTimeSource::at_time(UNIX_EPOCH + Duration::from_secs(77_000_000));
            let inner = set_time_source(TimeSource::custom(decoy));
            drop(inner);
            crate::time_source_scope_left_by_a_panic();
            Stopwatch::new()
        }
    };
    let mut owned: Vec<OwnedTimerGuard> = Vec::new();
    let n = history.len();
    let mut i = 0;
    while i < n {
        match history[i] {
            Op::BStart => {
                let mut guard = Some(sw.start());
                i += 1;
                while i < n {
                    match history[i] {
                        Op::Adv(s) => clock.advance(s),
                        Op::OEnd(k, e) => end_owned(&mut owned, k, e, i, recs),
                        Op::BEnd(e) => {
                            let g = guard.take().unwrap();
                            match e {
                                End::Drop => drop(g),
                                End::DropUnwinding => drop_unwinding(g),
                                End::Stop => recs.push((i, Rec::Stop(g.stop()))),
                                End::Discard => g.discard(),
                                End::Overwrite => g.overwrite(),
                            }
                            break;
                        }
                        other => unreachable!("{other:?} is impossible while the stopwatch is mutably borrowed"),
                    }
                    i += 1;
                }
                if guard.is_some() {
                    // history ended inside the episode; dropping the guard now would be the
                    // history `.. + borrowed.drop`, which is enumerated on its own
                    recs.push((n, Rec::FinalUnobservable));
                    drop(guard);
                    drop(sw);
                    drop(owned);
                    drop(tl_guard);
                    return;
                }
            }
            Op::BEnd(_) => unreachable!("borrowed end without a live borrowed guard"),
            Op::OStart => owned.push(sw.start_owned()),
            Op::OEnd(k, e) => end_owned(&mut owned, k, e, i, recs),
            Op::Clear => sw.clear(),
            Op::Adv(s) => clock.advance(s),
            Op::Observe => recs.push((i, Rec::Obs((&sw).close()))),
        }
        i += 1;
    }
    recs.push((n, Rec::FinalRef((&sw).close())));
    recs.push((n, Rec::FinalVal(sw.close())));
    // guards that are still live outlive the (consumed) stopwatch
    drop(owned);
    drop(tl_guard);
}

// ---------------------------------------------------------------------------------------------
// the reference model (from the property statement, not from timers.rs)
// ---------------------------------------------------------------------------------------------

/// "the duration it reports when closed equals the total of the completed guard spans that were
/// not discarded since the last clear or overwrite, and is absent if there is none"
#[derive(Default, Clone)]
pub struct Model {
    /// seconds since the stopwatch was created
    now: u64,
    /// completed, not discarded spans since the last clear / overwrite
    kept: Vec<u64>,
    /// start time of the live borrowed guard
    borrowed: Option<u64>,
    /// start times of the live owned guards, in start order
    owned: Vec<u64>,
    /// (not used by the model; part of the canonical state count only)
    owned_ever_started: bool,
}

impl Model {
    fn reset(&mut self) {
        self.now = 0;
        self.kept.clear();
        self.borrowed = None;
        self.owned.clear();
        self.owned_ever_started = false;
    }
    pub fn report(&self) -> Option<Duration> {
        if self.kept.is_empty() { None } else { Some(Duration::from_secs(self.kept.iter().sum())) }
    }
    fn end(&mut self, start: u64, e: End) -> Option<Duration> {
        let span = self.now - start;
        match e {
            // a dropped or stopped guard completes its span
            End::Drop | End::DropUnwinding => self.kept.push(span),
            End::Stop => {
                self.kept.push(span);
                return Some(Duration::from_secs(span));
            }
            // a discarded span never counts
            End::Discard => {}
            // overwrite: everything before is forgotten, this guard's span is what remains
            End::Overwrite => {
                self.kept.clear();
                self.kept.push(span);
            }
        }
        None
    }
    /// applies one operation; returns what the real code must let us observe at this step
    pub fn apply(&mut self, op: Op) -> Option<Rec> {
        match op {
            Op::BStart => self.borrowed = Some(self.now),
            Op::BEnd(e) => {
                let s = self.borrowed.take().expect("well-formed history");
                return self.end(s, e).map(Rec::Stop);
            }
            Op::OStart => {
                self.owned.push(self.now);
                self.owned_ever_started = true;
            }
            Op::OEnd(i, e) => {
                let s = self.owned.remove(i as usize);
                return self.end(s, e).map(Rec::Stop);
            }
            // clear: nothing completed so far counts any more; live guards keep ticking
            Op::Clear => self.kept.clear(),
            Op::Adv(s) => self.now += s as u64,
            Op::Observe => return Some(Rec::Obs(self.report())),
        }
        None
    }
    /// canonical state (only COUNTED as evidence of how many different situations were visited;
    /// never used to prune the search)
    fn canonical(&self) -> u64 {
        let mut k = self.owned_ever_started as u64;
        k = k << 1 | !self.kept.is_empty() as u64;
        k = k << 7 | self.kept.iter().sum::<u64>().min(127);
        k = k << 7 | self.borrowed.map(|s| 1 + (self.now - s).min(100)).unwrap_or(0);
        k = k << 2 | self.owned.len() as u64;
        for s in &self.owned {
            k = k << 7 | (self.now - s).min(127);
        }
        k
    }
    fn to_json(&self) -> Value {
        json!({"now_s": self.now, "kept_spans_s": self.kept, "live_borrowed_started_at_s": self.borrowed, "live_owned_started_at_s": self.owned, "reports": dur_json(self.report())})
    }
}

fn model_run(m: &mut Model, history: &[Op], recs: &mut Vec<(usize, Rec)>) {
    m.reset();
    for (i, &op) in history.iter().enumerate() {
        if let Some(r) = m.apply(op) {
            recs.push((i, r));
        }
    }
    if m.borrowed.is_some() {
        recs.push((history.len(), Rec::FinalUnobservable));
    } else {
        recs.push((history.len(), Rec::FinalRef(m.report())));
        recs.push((history.len(), Rec::FinalVal(m.report())));
    }
}

// ---------------------------------------------------------------------------------------------
// search
// ---------------------------------------------------------------------------------------------

#[derive(Default)]
struct St {
    histories: u64,
    ops: u64,
    observations: u64,
    unobservable: u64,
    non_minimal: u64,
    stop_returns: u64,
    v: Violations,
    values: BTreeSet<Option<u64>>,
    model_states: HashSet<u64>,
    real: Vec<(usize, Rec)>,
    exp: Vec<(usize, Rec)>,
    model: Model,
    samples: Vec<Value>,
}

/// Some(index of the first differing record) or None when real == model
fn first_mismatch(real: &[(usize, Rec)], exp: &[(usize, Rec)]) -> Option<usize> {
    (0..real.len().max(exp.len())).find(|&i| real.get(i) != exp.get(i))
}

/// full comparison of one history: (real records or panic, expected records)
fn run_both(history: &[Op], inj: Inject) -> (Result<Vec<(usize, Rec)>, String>, Vec<(usize, Rec)>) {
    let mut exp = Vec::new();
    model_run(&mut Model::default(), history, &mut exp);
    let real = guarded(|| {
        let mut r = Vec::new();
        exec(history, inj, &mut r);
        r
    });
    (real, exp)
}

fn agrees(history: &[Op], inj: Inject) -> bool {
    let (real, exp) = run_both(history, inj);
    matches!(real, Ok(r) if first_mismatch(&r, &exp).is_none())
}

fn history_json(h: &[Op]) -> Value {
    Value::Array(h.iter().map(|o| json!(o.name())).collect())
}

fn direction(got: Option<Duration>, exp: Option<Duration>) -> &'static str {
    match (got, exp) {
        (None, Some(_)) => "reports-absent-but-spans-were-kept",
        (Some(_), None) => "reports-a-duration-but-no-span-was-kept",
        (Some(g), Some(e)) if g > e => "reports-too-much",
        _ => "reports-too-little",
    }
}

/// names the failing shape of a MINIMAL failing history (all proper prefixes agree, so the last
/// operation - or the final observation itself - introduced the difference)
fn classify(history: &[Op], got: Option<Rec>, exp: Option<Rec>) -> (String, String) {
    let last = history.last().copied();
    let lastc = last.map(|o| o.class()).unwrap_or_else(|| "fresh".into());
    let side = |o: Option<Op>| match o {
        Some(Op::BEnd(_)) => "borrowed",
        _ => "owned",
    };
    match (got, exp) {
        (Some(Rec::Stop(g)), Some(Rec::Stop(e))) => (
            format!("stopwatch:stop-returns-wrong-span:{}", side(last)),
            format!("guard.stop() returned {g:?} but the guard's span is {e:?}"),
        ),
        (Some(Rec::FinalVal(g)), Some(Rec::FinalVal(e))) => (
            "stopwatch:close-by-value-differs-from-by-reference".into(),
            format!("stopwatch.close() gave {g:?}, (&stopwatch).close() just before gave the expected {e:?}"),
        ),
        (Some(Rec::Obs(g)), Some(Rec::Obs(e))) | (Some(Rec::FinalRef(g)), Some(Rec::FinalRef(e))) => {
            let dir = direction(g, e);
            let more = matches!(dir, "reports-too-much" | "reports-a-duration-but-no-span-was-kept");
            let key = match last {
                Some(Op::BEnd(End::Discard)) | Some(Op::OEnd(_, End::Discard)) if more => format!("stopwatch:discarded-span-counted:{}", side(last)),
                Some(Op::BEnd(End::Overwrite)) | Some(Op::OEnd(_, End::Overwrite)) if more => format!("stopwatch:overwrite-keeps-old-total:{}", side(last)),
                Some(Op::Clear) if more => "stopwatch:clear-keeps-old-total".to_string(),
                _ => format!("stopwatch:{lastc}:{dir}"),
            };
            (key, format!("after `{}` the stopwatch reports {g:?}, the kept spans total {e:?}", last.map(|o| o.name()).unwrap_or_else(|| "creation".into())))
        }
        (g, e) => (format!("stopwatch:{lastc}:observations-differ-in-kind"), format!("real code produced {g:?} where the model expects {e:?}")),
    }
}

/// step-by-step comparison (replay artefact and `--replay` output)
fn trace(history: &[Op], inj: Inject) -> Value {
    let (real, exp) = run_both(history, inj);
    let mut m = Model::default();
    let mut steps = Vec::new();
    let pick = |recs: &[(usize, Rec)], i: usize| -> Vec<Value> { recs.iter().filter(|(s, _)| *s == i).map(|(_, r)| r.to_json()).collect() };
    let real_recs = real.clone().unwrap_or_default();
    for (i, &op) in history.iter().enumerate() {
        m.apply(op);
        steps.push(json!({"step": i, "op": op.name(), "model_after": m.to_json(), "expected": pick(&exp, i), "real": pick(&real_recs, i)}));
    }
    steps.push(json!({"step": history.len(), "op": "(final close: by reference, then by value)", "expected": pick(&exp, history.len()), "real": pick(&real_recs, history.len())}));
    json!({"steps": steps, "real_panic": real.err()})
}

fn report_failure(st: &mut St, history: &[Op], inj: Inject, real: Result<&[(usize, Rec)], &str>, exp: &[(usize, Rec)]) {
    // only minimal failing histories are reported: every proper prefix is a history of its own
    for k in 0..history.len() {
        if !agrees(&history[..k], inj) {
            st.non_minimal += 1;
            return;
        }
    }
    let (key, what) = match real {
        Err(msg) => ("stopwatch:panic".to_string(), format!("the real code panicked: {msg}")),
        Ok(real) => {
            let i = first_mismatch(real, exp).expect("called on a mismatch");
            classify(history, real.get(i).map(|r| r.1), exp.get(i).map(|r| r.1))
        }
    };
    // keep the SHORTEST history per key; the (costly) step-by-step trace is only built for it
    if let Some(v) = st.v.by_key.get_mut(&key) {
        v.count += 1;
        if v.replay["history"].as_array().is_some_and(|h| h.len() <= history.len()) {
            return;
        }
    }
    let what = format!("{what} [history: {}; time source: {}]", history.iter().map(|o| o.name()).collect::<Vec<_>>().join(", "), inj.name());
    let replay = json!({"part": "stopwatch", "injection": inj.name(), "history": history_json(history), "trace": trace(history, inj)});
    match st.v.by_key.get_mut(&key) {
        Some(v) => {
            v.what = what;
            v.replay = replay;
        }
        None => st.v.add(key, what, replay),
    }
}

fn check(st: &mut St, history: &[Op], inj: Inject) {
    st.histories += 1;
    st.ops += history.len() as u64;
    let mut exp = std::mem::take(&mut st.exp);
    let mut real = std::mem::take(&mut st.real);
    exp.clear();
    real.clear();
    model_run(&mut st.model, history, &mut exp);
    st.model_states.insert(st.model.canonical());
    let outcome = guarded(|| exec(history, inj, &mut real));
    match outcome {
        Err(msg) => report_failure(st, history, inj, Err(&msg), &exp),
        Ok(()) => {
            for (_, r) in &real {
                match r {
                    Rec::Obs(d) | Rec::FinalRef(d) | Rec::FinalVal(d) => {
                        st.observations += 1;
                        st.values.insert(d.map(|d| d.as_nanos() as u64));
                    }
                    Rec::Stop(_) => st.stop_returns += 1,
                    Rec::FinalUnobservable => st.unobservable += 1,
                }
            }
            if first_mismatch(&real, &exp).is_some() {
                report_failure(st, history, inj, Ok(&real), &exp);
            } else if st.samples.len() < 2 && history.len() >= 6 && {
                // an interesting sample: several kinds of endings and a non-trivial value
                let kinds: BTreeSet<String> = history.iter().map(|o| o.class()).collect();
                kinds.len() >= 5 && st.model.report().is_some_and(|d| d.as_secs() >= 2) && kinds.iter().any(|k| k.ends_with("overwrite") || k == "clear")
            } {
                st.samples.push(json!({"part": "stopwatch", "injection": inj.name(), "history": history_json(history), "model_kept_spans_s": st.model.kept.clone(), "real_reports": dur_json(st.model.report()), "verdict": "real == model at every observation"}));
            }
        }
    }
    st.exp = exp;
    st.real = real;
}

fn dfs(st: &mut St, hist: &mut Vec<Op>, b: bool, n: u8, depth: usize, inj: Inject) {
    check(st, hist, inj);
    if hist.len() >= depth {
        return;
    }
    let mut en = Vec::with_capacity(20);
    enabled(b, n, &mut en);
    for op in en {
        let (b2, n2) = step_structure(b, n, op);
        hist.push(op);
        dfs(st, hist, b2, n2, depth, inj);
        hist.pop();
    }
}

/// all histories of exactly `len` steps (work items for the parallel loop), plus the shorter ones
fn collect(len: usize, hist: &mut Vec<Op>, b: bool, n: u8, roots: &mut Vec<(Vec<Op>, bool, u8)>, shallow: &mut Vec<Vec<Op>>) {
    if hist.len() == len {
        roots.push((hist.clone(), b, n));
        return;
    }
    shallow.push(hist.clone());
    let mut en = Vec::new();
    enabled(b, n, &mut en);
    for op in en {
        let (b2, n2) = step_structure(b, n, op);
        hist.push(op);
        collect(len, hist, b2, n2, roots, shallow);
        hist.pop();
    }
}

pub struct Summary {
    pub histories: u64,
    pub ops_applied: u64,
    pub depth: u64,
    pub undetermined: u64,
}

pub fn run(rep: &mut Report) -> Summary {
    // measured on 16 cores: depth 8 = 11.8 M histories in ~1 s, depth 9 = 105 M in ~10 s,
    // depth 10 = 944 M in ~80 s (VERIF_C18_DEPTH overrides, for measuring only)
    let depth: usize = std::env::var("VERIF_C18_DEPTH").ok().and_then(|s| s.parse().ok()).unwrap_or(rep.tier.pick(8, 10));
    // the thread-local injection routes are searched two levels less deep
    let plans = [(Inject::Explicit, depth), (Inject::ThreadLocalHeld, depth - 2), (Inject::ThreadLocalDropped, depth - 2), (Inject::ThreadLocalNested, depth - 3), (Inject::RuntimeHeld, depth - 3), (Inject::RuntimeAfterRejectedInstall, depth - 3)];
    let mut total = St::default();
    let mut per_route = Vec::new();
    for (inj, d) in plans {
        let split = d.min(4);
        let (mut roots, mut shallow) = (Vec::new(), Vec::new());
        collect(split, &mut Vec::new(), false, 0, &mut roots, &mut shallow);
        let mut first = St::default();
        for h in &shallow {
            check(&mut first, h, inj);
        }
        let mut states = par::for_each_index(roots.len() as u64, 1, St::default, |st, i| {
            let (h, b, n) = &roots[i as usize];
            let mut hist = h.clone();
            dfs(st, &mut hist, *b, *n, d, inj);
        });
        states.push(first);
        let mut route_histories = 0;
        for s in states {
            route_histories += s.histories;
            total.histories += s.histories;
            total.ops += s.ops;
            total.observations += s.observations;
            total.unobservable += s.unobservable;
            total.non_minimal += s.non_minimal;
            total.stop_returns += s.stop_returns;
            total.values.extend(s.values);
            total.model_states.extend(s.model_states);
            total.v.merge(s.v);
            for x in s.samples {
                if total.samples.len() < 2 {
                    total.samples.push(x);
                }
            }
        }
        per_route.push(json!({"time_source_injection": inj.name(), "depth": d, "histories": route_histories}));
    }
    rep.violations.merge(std::mem::take(&mut total.v));
    rep.set("stopwatch_histories", total.histories);
    rep.set("stopwatch_routes", per_route);
    rep.set("stopwatch_operations_applied_to_real_objects", total.ops);
    rep.set("stopwatch_close_observations_compared", total.observations);
    rep.set("stopwatch_stop_return_values_compared", total.stop_returns);
    rep.set("stopwatch_histories_ending_inside_a_borrowed_episode", total.unobservable);
    rep.set("stopwatch_distinct_reported_values", total.values.len() as u64);
    rep.set("stopwatch_distinct_canonical_model_states_visited", total.model_states.len() as u64);
    rep.set("stopwatch_non_minimal_failures_folded", total.non_minimal);
    rep.set("stopwatch_max_live_owned_guards", MAX_OWNED as u64);
    rep.set("stopwatch_state_merging", "none: every operation sequence is executed (canonical states are only counted)");
    for s in total.samples {
        rep.sample(s);
    }
    Summary { histories: total.histories, ops_applied: total.ops, depth: depth as u64, undetermined: 0 }
}

pub fn replay(case: &Value, rep: &mut Report) -> bool {
    let inj = case.get("injection").and_then(|v| v.as_str()).and_then(Inject::parse).unwrap_or(Inject::Explicit);
    let hist: Option<Vec<Op>> = case.get("history").and_then(|h| h.as_array()).and_then(|a| a.iter().map(|s| s.as_str().and_then(Op::parse)).collect());
    let Some(hist) = hist.filter(|h| well_formed(h)) else {
        println!("MACHINERY-FAILURE: replay case has no well-formed stopwatch history");
        std::process::exit(2);
    };
    let t = trace(&hist, inj);
    println!("stopwatch history, time source {}:", inj.name());
    for s in t["steps"].as_array().unwrap() {
        let same = s["expected"] == s["real"];
        println!("  step {:>2} {:<24} model {}  expected {}  real {}  {}", s["step"], s["op"].as_str().unwrap_or(""), s.get("model_after").map(|m| m["reports"].to_string()).unwrap_or_default(), s["expected"], s["real"], if same { "ok" } else { "<-- DIFFERS" });
    }
    if let Some(p) = t["real_panic"].as_str() {
        println!("  real code panicked: {p}");
    }
    let (real, exp) = run_both(&hist, inj);
    let bad = match &real {
        Err(_) => true,
        Ok(r) => first_mismatch(r, &exp).is_some(),
    };
    if bad {
        let mut st = St::default();
        // report under the key of the minimal failing prefix
        for k in 0..=hist.len() {
            let (r, e) = run_both(&hist[..k], inj);
            let failing = match &r {
                Err(_) => true,
                Ok(r) => first_mismatch(r, &e).is_some(),
            };
            if failing {
                report_failure(&mut st, &hist[..k], inj, r.as_ref().map(|v| v.as_slice()).map_err(|s| s.as_str()), &e);
                break;
            }
        }
        rep.violations.merge(st.v);
    }
    bad
}
