//! C11 - histograms conserve observation counts and stay within their stated error.
//!
//! Bounded exhaustive exploration against the REAL `metrique_aggregation::histogram` types:
//!
//! * E3: every bucket of the base-2 log-linear layout (grouping power 4, max power 64; the table is
//!   derived here from the definition, the `histogram` crate is never consulted by the oracle) that
//!   lies in the property's domain (values < 2^43, i.e. scaled values < 2^53) is probed at its
//!   edges, their one-ulp neighbours, its midpoints and quartiles, through every source type the
//!   histogram accepts (f64, f32, u64, u32, u16, u8, bool, Duration (milliseconds), Observation).
//! * E2: all multisets up to a size bound over a boundary alphabet x occurrence counts.
//! * SortAndMerge: exact values, ascending, equal merged.
//! * re-aggregation of the closed histogram is the identity.
//! * all serial orders of 2 threads x 2 adds + 1 drain on the shared (atomic) strategy.
use metrique::test_util::{TestEntrySink, test_entry_sink};
use metrique::unit_of_work::metrics;
use metrique_aggregation::histogram::{
    AggregationStrategy, AtomicExponentialAggregationStrategy as AtomicExp, ExponentialAggregationStrategy as Exp, Histogram, HistogramClosed,
    SharedAggregationStrategy, SharedHistogram, SortAndMerge,
};
use metrique_aggregation::traits::AggregateValue;
use metrique_core::CloseValue;
use metrique_writer::{MetricFlags, MetricValue, Observation, Unit, ValidationError, Value, ValueWriter};
use serde_json::{Value as J, json};
use std::collections::BTreeSet;
use std::time::Duration;
use vh_common::report::Violations;
use vh_common::{Report, par};

// ---------------------------------------------------------------------------------------------
// independent description of the layout

/// grouping power: 2^G sub-buckets per power of two => relative bucket width 2^-G = 6.25 %
const G: u32 = 4;
/// values are representable up to 2^MAXP - 1
const MAXP: u32 = 64;
/// the histogram stores floor(value * 2^10)
const SCALE: f64 = 1024.0;
/// the property speaks about values below 2^43
const DOMAIN_END: f64 = 8_796_093_022_208.0;
const NANOS_PER_MS: u128 = 1_000_000;

#[derive(Clone, Copy, Debug)]
struct Bucket {
    lo: u64,
    hi: u64, // inclusive
}

/// Base-2 log-linear histogram: below 2^(G+1) a bucket of width 2^-G relative would be narrower
/// than one unit, so every integer has its own bucket; each octave [2^p, 2^(p+1)), p = G+1..MAXP-1,
/// is cut into 2^G equal buckets of width 2^(p-G).
fn table() -> Vec<Bucket> {
    let mut t = Vec::new();
    for s in 0..(1u64 << (G + 1)) {
        t.push(Bucket { lo: s, hi: s });
    }
    for p in (G + 1)..MAXP {
        let w = 1u128 << (p - G);
        for j in 0..(1u128 << G) {
            let lo = (1u128 << p) + j * w;
            t.push(Bucket { lo: lo as u64, hi: (lo + w - 1) as u64 });
        }
    }
    // self check of the table: contiguous cover of 0..=u64::MAX, relative width <= 2^-G
    let mut next: u128 = 0;
    for b in &t {
        if b.lo as u128 != next || b.hi < b.lo {
            machinery("bucket table is not contiguous");
        }
        let w = (b.hi - b.lo) as u128 + 1;
        if w > 1 && w * (1 << G) > b.lo as u128 {
            machinery("bucket table violates the relative width");
        }
        next = b.hi as u128 + 1;
    }
    if next != 1u128 << MAXP {
        machinery("bucket table does not end at 2^64");
    }
    t
}

fn bucket_of(tab: &[Bucket], scaled: u64) -> usize {
    tab.partition_point(|b| b.hi < scaled)
}

fn machinery(msg: &str) -> ! {
    println!("MACHINERY-FAILURE: {msg}");
    std::process::exit(2)
}

// ---------------------------------------------------------------------------------------------
// reading the closed distribution

#[derive(Clone, Copy, Debug)]
struct Out {
    total: f64,
    occ: u64,
}
impl Out {
    fn value(&self) -> f64 {
        if self.occ == 1 { self.total } else { self.total / self.occ as f64 }
    }
}
fn same(a: &[Out], b: &[Out]) -> bool {
    a.len() == b.len() && a.iter().zip(b).all(|(x, y)| x.total.to_bits() == y.total.to_bits() && x.occ == y.occ)
}
fn outs_json(o: &[Out]) -> J {
    J::Array(o.iter().map(|x| json!({"total": fj(x.total), "occurrences": x.occ})).collect())
}
/// f64 as JSON, keeping the exact bits readable for non-trivial values
fn fj(x: f64) -> J {
    if x.is_finite() { json!(x) } else { json!(format!("{x}")) }
}

struct Cap<'a> {
    obs: &'a mut Vec<Observation>,
    other: &'a mut u32,
}
impl ValueWriter for Cap<'_> {
    fn string(self, _value: &str) {
        *self.other += 1;
    }
    fn metric<'a>(self, distribution: impl IntoIterator<Item = Observation>, _unit: Unit, _dimensions: impl IntoIterator<Item = (&'a str, &'a str)>, _flags: MetricFlags<'_>) {
        self.obs.extend(distribution);
    }
    fn error(self, _error: ValidationError) {
        *self.other += 1;
    }
}

fn observations(v: &impl Value) -> Vec<Observation> {
    let (mut obs, mut other) = (Vec::new(), 0);
    v.write(Cap { obs: &mut obs, other: &mut other });
    if other != 0 {
        // neither a histogram nor a numeric source ever writes a string or an error
        obs.push(Observation::Repeated { total: f64::NAN, occurrences: u64::MAX });
    }
    obs
}

fn read(v: &impl Value) -> Vec<Out> {
    observations(v)
        .into_iter()
        .map(|o| match o {
            Observation::Repeated { total, occurrences } => Out { total, occ: occurrences },
            Observation::Unsigned(u) => Out { total: u as f64, occ: 1 },
            Observation::Floating(f) => Out { total: f, occ: 1 },
            _ => Out { total: f64::NAN, occ: u64::MAX },
        })
        .collect()
}

/// closed distribution, and the closed distribution after re-aggregating it into a fresh
/// histogram of the same strategy through the real `AggregateValue<HistogramClosed<T>>` impl
fn run_hist<T: MetricValue, S: AggregationStrategy + Default>(vals: &[T]) -> (Vec<Out>, Vec<Out>) {
    let mut h: Histogram<T, S> = Histogram::default();
    for v in vals {
        h.add_value(v);
    }
    let closed = h.close();
    let first = read(&closed);
    // the other route by which a closed histogram is aggregated again: as the VALUE of a histogram
    // (one `add_value` handing over all its observations at once)
    let mut acc2: Histogram<HistogramClosed<T>, S> = Histogram::default();
    acc2.add_value(&closed);
    let via_add_value = read(&acc2.close());
    let mut acc: Histogram<T, S> = Histogram::default();
    <Histogram<T, S> as AggregateValue<HistogramClosed<T>>>::insert(&mut acc, closed);
    let again = read(&acc.close());
    if !same(&via_add_value, &again) {
        // the two routes disagree: hand back the one that is not the identity (the callers judge
        // `again` against `first`)
        return if same(&again, &first) { (first, via_add_value) } else { (first, again) };
    }
    (first, again)
}

/// same for the shared histogram; its closed form is re-aggregated into the non-atomic
/// exponential histogram (the only accumulator the crate offers for closed histograms)
fn run_shared<T: MetricValue + Clone>(vals: &[T]) -> (Vec<Out>, Vec<Out>) {
    let h: SharedHistogram<T, AtomicExp> = SharedHistogram::default();
    for v in vals {
        h.add_value(v.clone());
    }
    let closed = h.close();
    let first = read(&closed);
    let mut acc: Histogram<T, Exp> = Histogram::default();
    <Histogram<T, Exp> as AggregateValue<HistogramClosed<T>>>::insert(&mut acc, closed);
    let again = read(&acc.close());
    (first, again)
}

// ---------------------------------------------------------------------------------------------
// the error bound, decided in exact integer arithmetic wherever the original is known exactly

/// the original observation in scaled units (value * 1024) as the rational p/q
#[derive(Clone, Copy, Debug)]
struct Orig {
    p: i128,
    q: i128,
    /// p was rounded down by less than one unit of 1/q (only for values below 2^-21)
    inexact: bool,
    /// exact == false: only `approx` is meaningful (mean of a Repeated observation)
    exact: bool,
    approx: f64,
}

const FX: u32 = 64;

fn orig_f64(v: f64) -> Orig {
    assert!(v >= 0.0 && v < DOMAIN_END);
    let bits = v.to_bits();
    let be = ((bits >> 52) & 0x7ff) as i32;
    let frac = (bits & ((1u64 << 52) - 1)) as i128;
    let (m, e) = if be == 0 { (frac, -1074) } else { (frac | (1i128 << 52), be - 1075) };
    // v = m * 2^e ; p = v * 2^10 * 2^FX
    let sh = e + 10 + FX as i32;
    let (p, inexact) = if sh >= 0 {
        (m << sh, false)
    } else if -sh >= 127 {
        (0, m != 0)
    } else {
        (m >> -sh, m & ((1i128 << -sh) - 1) != 0)
    };
    Orig { p, q: 1i128 << FX, inexact, exact: true, approx: v }
}
fn orig_int(n: u64) -> Orig {
    Orig { p: (n as i128 * 1024) << FX, q: 1i128 << FX, inexact: false, exact: true, approx: n as f64 }
}
/// a Duration of n nanoseconds is n / 10^6 milliseconds
fn orig_nanos(n: u64) -> Orig {
    Orig { p: n as i128 * 1024, q: NANOS_PER_MS as i128, inexact: false, exact: true, approx: n as f64 / 1e6 }
}
/// `occurrences` observations whose sum is `total`: each is total / occurrences
fn orig_mean(total: f64, occ: u64) -> Orig {
    Orig { p: 0, q: 1, inexact: false, exact: false, approx: total / occ as f64 }
}

/// Is `r` within 6.25 % of the original (within 1/1024 absolute for originals under 1/32)?
fn err_ok(r: f64, o: &Orig) -> bool {
    let kf = r * SCALE;
    if !kf.is_finite() || kf < 0.0 {
        return false;
    }
    if o.exact && kf.fract() == 0.0 && kf < 3.6e16 {
        // exact: |k - p/q| <= (p/q)/16  <=>  16 |kq - p| <= p ; absolute: |kq - p| <= q
        let k = kf as i128;
        let d = (k * o.q - o.p).abs();
        if o.p < 32 * o.q { d <= o.q + o.inexact as i128 } else { 16 * d <= o.p }
    } else {
        // f64 with a relative slack of 1e-12 that dominates the oracle's own rounding; true errors
        // of a conforming implementation stay below 5.9 % resp. at most 1/1024
        const SLACK: f64 = 1e-12;
        let x = o.approx;
        let e = (r - x).abs();
        let bound = if x < (1.0 / 32.0) * (1.0 - SLACK) { 1.0 / 1024.0 } else { x / 16.0 };
        e <= bound * (1.0 + SLACK)
    }
}

/// Does a way exist to attribute every input (original, count) to one reported value such that
/// every reported count is exactly the sum of its inputs and every input is within the bound?
fn assignable(outs: &[Out], inputs: &[(Orig, u64)]) -> bool {
    fn dfs(i: usize, inputs: &[(Orig, u64)], ok: &[Vec<bool>], left: &mut [u64]) -> bool {
        if i == inputs.len() {
            return left.iter().all(|l| *l == 0);
        }
        for j in 0..left.len() {
            if ok[i][j] && left[j] >= inputs[i].1 {
                left[j] -= inputs[i].1;
                let r = dfs(i + 1, inputs, ok, left);
                left[j] += inputs[i].1;
                if r {
                    return true;
                }
            }
        }
        false
    }
    let ok: Vec<Vec<bool>> = inputs.iter().map(|(o, _)| outs.iter().map(|out| err_ok(out.value(), o)).collect()).collect();
    let mut left: Vec<u64> = outs.iter().map(|o| o.occ).collect();
    dfs(0, inputs, &ok, &mut left)
}

/// count conservation and representation of every input; Err((key suffix, text))
fn check_exponential(outs: &[Out], inputs: &[(Orig, u64)]) -> Result<(), (&'static str, String)> {
    let want: u128 = inputs.iter().map(|(_, c)| *c as u128).sum();
    let got: u128 = outs.iter().map(|o| o.occ as u128).sum();
    if got != want {
        return Err(("count-not-conserved", format!("total occurrence count {got} but {want} observations were recorded")));
    }
    let nz: Vec<Out> = outs.iter().copied().filter(|o| o.occ > 0).collect();
    if !assignable(&nz, inputs) {
        return Err(("error-bound", "some observation is not reported within 6.25 % (1/1024 below 1/32) of its original".to_string()));
    }
    Ok(())
}

// ---------------------------------------------------------------------------------------------
// worker state

#[derive(Default)]
struct St {
    evals: u64,
    probes: u64,
    by_source: std::collections::BTreeMap<&'static str, u64>,
    outside_domain: u64,
    v: Violations,
    nontrivial: BTreeSet<u32>,
    /// (input bits, reported bits exponential, reported bits atomic) of every f64 probe
    mono: Vec<(u64, u64, u64)>,
    layout_mismatch: u64,
    layout_example: Option<J>,
    mean_not_bit_exact: u64,
    reagg_undetermined: u64,
    multisets: u64,
    sample: Vec<J>,
}

impl St {
    fn merge_into(self, rep: &mut Report, acc: &mut St) {
        acc.evals += self.evals;
        acc.probes += self.probes;
        for (k, n) in self.by_source {
            *acc.by_source.entry(k).or_default() += n;
        }
        acc.outside_domain += self.outside_domain;
        acc.nontrivial.extend(self.nontrivial);
        acc.mono.extend(self.mono);
        acc.layout_mismatch += self.layout_mismatch;
        if acc.layout_example.is_none() {
            acc.layout_example = self.layout_example;
        }
        acc.mean_not_bit_exact += self.mean_not_bit_exact;
        acc.reagg_undetermined += self.reagg_undetermined;
        acc.multisets += self.multisets;
        if acc.sample.len() < 3 {
            acc.sample.extend(self.sample.into_iter().take(1));
        }
        rep.violations.merge(self.v);
    }
}

// ---------------------------------------------------------------------------------------------
// E3: one observation

/// One observation of source type T into the exponential, atomic and sort-and-merge histograms.
/// Returns the values reported by (exponential, atomic).
fn single<T: MetricValue + Clone>(st: &mut St, tab: &[Bucket], src: &'static str, t: T, o: Orig, expect: Option<usize>, input: J) -> (f64, f64) {
    st.probes += 1;
    *st.by_source.entry(src).or_default() += 1;
    let (e, e2) = run_hist::<T, Exp>(std::slice::from_ref(&t));
    let (a, a2) = run_shared::<T>(std::slice::from_ref(&t));
    let (s, s2) = run_hist::<T, SortAndMerge>(std::slice::from_ref(&t));
    let replay = |strategy: &str, got: &[Out]| json!({"source": src, "input": input.clone(), "original": fj(o.approx), "strategy": strategy, "closed_distribution": outs_json(got)});
    for (name, got) in [("exponential", &e), ("atomic", &a)] {
        st.evals += 1;
        if let Err((k, what)) = check_exponential(got, &[(o, 1)]) {
            st.v.add(format!("exp:{k}:{name}"), format!("one {src} observation: {what}"), replay(name, got));
        }
    }
    st.evals += 1;
    if !same(&e, &a) {
        st.v.add("atomic-vs-nonatomic-disagree", format!("one {src} observation is reported differently by the atomic and the non-atomic exponential strategy"), json!({"source": src, "input": input.clone(), "exponential": outs_json(&e), "atomic": outs_json(&a)}));
    }
    for (name, first, again) in [("exponential", &e, &e2), ("atomic-into-exponential", &a, &a2), ("sort-and-merge", &s, &s2)] {
        st.evals += 1;
        if !same(first, again) {
            st.v.add(format!("reaggregate:not-identity:{name}"), format!("re-aggregating the closed histogram of one {src} observation changes it"), json!({"source": src, "input": input.clone(), "closed": outs_json(first), "reaggregated": outs_json(again)}));
        }
    }
    // sort-and-merge: exactly the value the source writes
    st.evals += 1;
    let recorded: Vec<Out> = read(&t);
    if !(recorded.len() == 1 && recorded[0].occ == 1 && same(&s, &recorded)) {
        st.v.add("sort-merge:values", format!("one {src} observation is not reported exactly"), json!({"source": src, "input": input.clone(), "recorded": outs_json(&recorded), "closed_distribution": outs_json(&s)}));
    }
    let r = if e.len() == 1 { e[0].value() } else { f64::NAN };
    let ra = if a.len() == 1 { a[0].value() } else { f64::NAN };
    // which bucket was hit (by the reported value), is the report non-trivial?
    let k = r * SCALE;
    if k.is_finite() && k >= 0.0 && k.fract() == 0.0 && k < 1.8e19 {
        let hit = bucket_of(tab, k as u64);
        if r != o.approx || !o.exact {
            st.nontrivial.insert(hit as u32);
        }
        if let Some(want) = expect {
            let b = tab[want];
            let mid = (((b.lo as u128 + b.hi as u128) / 2) as u64) as f64 / SCALE;
            if hit != want || r.to_bits() != mid.to_bits() {
                st.layout_mismatch += 1;
                if st.layout_example.is_none() {
                    st.layout_example = Some(json!({"source": src, "input": input, "table_bucket": [b.lo, b.hi], "reported": fj(r)}));
                }
            } else if st.sample.is_empty() && b.lo > 4096 && r != o.approx {
                st.sample.push(json!({"source": src, "input": input, "scaled_bucket": [b.lo, b.hi], "reported": fj(r), "occurrences": 1}));
            }
        }
    } else if expect.is_some() {
        st.layout_mismatch += 1;
    }
    (r, ra)
}

/// all probes of one value through every source type that can carry it exactly
fn probe_value(st: &mut St, tab: &[Bucket], v: f64) {
    if !(v >= 0.0 && v < DOMAIN_END) {
        st.outside_domain += 1;
        return;
    }
    let expect = Some(bucket_of(tab, (v * SCALE) as u64));
    let inp = json!({"value": v, "bits": format!("{:#018x}", v.to_bits())});
    let (r, ra) = single::<f64>(st, tab, "f64", v, orig_f64(v), expect, inp.clone());
    st.mono.push((v.to_bits(), r.to_bits(), ra.to_bits()));
    single::<Observation>(st, tab, "Observation::Floating", Observation::Floating(v), orig_f64(v), expect, inp.clone());
    single::<Observation>(st, tab, "Observation::Repeated(x1)", Observation::Repeated { total: v, occurrences: 1 }, orig_f64(v), expect, inp.clone());
    if (v as f32) as f64 == v {
        single::<f32>(st, tab, "f32", v as f32, orig_f64(v), expect, inp.clone());
    }
    if v.fract() == 0.0 {
        let n = v as u64;
        single::<u64>(st, tab, "u64", n, orig_int(n), expect, json!(n));
        single::<usize>(st, tab, "usize", n as usize, orig_int(n), expect, json!(n));
        single::<Observation>(st, tab, "Observation::Unsigned", Observation::Unsigned(n), orig_int(n), expect, json!(n));
        if let Ok(x) = u32::try_from(n) {
            single::<u32>(st, tab, "u32", x, orig_int(n), expect, json!(n));
        }
        if let Ok(x) = u16::try_from(n) {
            single::<u16>(st, tab, "u16", x, orig_int(n), expect, json!(n));
        }
        if let Ok(x) = u8::try_from(n) {
            single::<u8>(st, tab, "u8", x, orig_int(n), expect, json!(n));
        }
        if n <= 1 {
            single::<bool>(st, tab, "bool", n == 1, orig_int(n), expect, json!(n == 1));
        }
    }
    // Duration is recorded in milliseconds: the two whole-nanosecond durations around v ms
    let n0 = (v * 1e6).floor() as u64;
    for n in [n0, n0 + 1] {
        if (n as u128) < (1u128 << 43) * NANOS_PER_MS {
            // no layout expectation: the conversion to f64 milliseconds may round across an edge
            single::<Duration>(st, tab, "Duration", Duration::from_nanos(n), orig_nanos(n), None, json!({"nanos": n}));
        } else {
            st.outside_domain += 1;
        }
    }
}

fn sweep_bucket(st: &mut St, tab: &[Bucket], i: usize) {
    let b = tab[i];
    let w = (b.hi - b.lo) as u128 + 1;
    let lo = b.lo as f64 / SCALE; // exact: at most 53 significant bits below 2^53
    let end = (b.hi as u128 + 1) as f64 / SCALE;
    let mut vs: Vec<f64> = Vec::new();
    if b.lo > 0 {
        vs.push(lo.next_down());
    }
    vs.push(lo);
    vs.push(lo.next_up());
    vs.push(((b.lo as u128 + b.hi as u128) / 2) as f64 / SCALE); // the integer midpoint
    vs.push((b.lo as f64 + w as f64 / 2.0) / SCALE); // the real midpoint
    vs.push((b.lo as f64 + w as f64 / 4.0) / SCALE);
    vs.push((b.lo as f64 + 3.0 * w as f64 / 4.0) / SCALE);
    vs.push(b.hi as f64 / SCALE);
    vs.push(end.next_down());
    vs.push(end); // = lower edge of the next bucket, outside the domain for the last one
    vs.sort_by(|a, b| a.total_cmp(b));
    vs.dedup_by(|a, b| a.to_bits() == b.to_bits());
    for v in vs {
        probe_value(st, tab, v);
    }
}

// ---------------------------------------------------------------------------------------------
// E2: multisets

fn alphabet(tab: &[Bucket]) -> Vec<f64> {
    let s = |scaled: u64| scaled as f64 / SCALE;
    let last = tab.iter().rposition(|b| (b.lo as f64) < DOMAIN_END * SCALE).unwrap();
    let (l, lp) = (tab[last], tab[last - 1]);
    let one = tab[bucket_of(tab, 1024)];
    let mut a = vec![
        // small: the unit-width (absolute error) region
        0.0,
        // negative zero is a finite, non-negative value too (it equals 0)
        -0.0,
        f64::from_bits(1),
        0.5 / SCALE,
        s(1).next_down(),
        s(1),
        s(2),
        // around 1/32 where the rule changes
        s(31),
        s(32).next_down(),
        s(32),
        s(32).next_up(),
        s(33),
        s(34).next_down(),
        s(34),
        s(63),
        s(64),
        // around 1
        s(one.lo - 1),
        s(one.lo).next_down(),
        s(one.lo),
        s(one.lo).next_up(),
        s((one.lo + one.hi) / 2),
        s(one.hi),
        s(one.hi + 1).next_down(),
        s(one.hi + 1),
        // ordinary values
        0.1,
        0.5,
        2.5,
        100.0,
        1000.0,
        12345.678,
        65536.0,
        1e6,
        3e12,
        // large: the last buckets below 2^43
        s(lp.lo),
        s(1 << 52).next_down(),
        s(1 << 52),
        s(l.lo).next_down(),
        s(l.lo),
        s((l.lo + l.hi) / 2),
        s(l.hi),
        s(l.hi - 1),
    ];
    a.sort_by(|x, y| x.total_cmp(y));
    a.dedup_by(|x, y| x.to_bits() == y.to_bits());
    for v in &a {
        if !(*v >= 0.0 && *v < DOMAIN_END) {
            machinery("alphabet value outside the domain");
        }
    }
    a
}

const COUNTS: [u64; 4] = [1, 2, 1_000_000, 1 << 32];
const SM_COUNTS: [u64; 3] = [1, 2, 3];

/// feeds the multiset; `repeat_adds`: a count of 2 or 3 is expressed by that many separate adds,
/// otherwise by one `Observation::Repeated { total: v * c, occurrences: c }`
fn feed(inputs: &[(f64, u64)], repeat_adds: bool, obs: &mut Vec<Observation>, origs: &mut Vec<(Orig, u64)>) {
    obs.clear();
    origs.clear();
    for &(v, c) in inputs {
        if c == 1 {
            obs.push(Observation::Floating(v));
            origs.push((orig_f64(v), 1));
        } else if repeat_adds && c <= 3 {
            for _ in 0..c {
                obs.push(Observation::Floating(v));
            }
            origs.push((orig_f64(v), c));
        } else {
            let total = v * c as f64;
            obs.push(Observation::Repeated { total, occurrences: c });
            origs.push((orig_mean(total, c), c));
        }
    }
}

fn multiset_json(inputs: &[(f64, u64)], repeat_adds: bool) -> J {
    json!({"observations": inputs.iter().map(|(v, c)| json!({"value": v, "bits": format!("{:#018x}", v.to_bits()), "occurrences": c})).collect::<Vec<_>>(),
           "small_counts_as_separate_adds": repeat_adds})
}

fn exp_multiset(st: &mut St, inputs: &[(f64, u64)], obs: &mut Vec<Observation>, origs: &mut Vec<(Orig, u64)>) {
    st.multisets += 1;
    let encodings: &[bool] = if inputs.iter().any(|(_, c)| *c == 2) { &[false, true] } else { &[false] };
    for &repeat_adds in encodings {
        feed(inputs, repeat_adds, obs, origs);
        let (e, e2) = run_hist::<Observation, Exp>(obs);
        let (a, a2) = run_shared::<Observation>(obs);
        let replay = || multiset_json(inputs, repeat_adds);
        st.evals += 1;
        if let Err((k, what)) = check_exponential(&e, origs) {
            let mut r = replay();
            r["closed_distribution"] = outs_json(&e);
            st.v.add(format!("exp:{k}:exponential"), format!("multiset of {}: {what}", inputs.len()), r);
        }
        st.evals += 1;
        if !same(&e, &a) {
            let mut r = replay();
            r["exponential"] = outs_json(&e);
            r["atomic"] = outs_json(&a);
            st.v.add("atomic-vs-nonatomic-disagree", "a multiset is reported differently by the atomic and the non-atomic exponential strategy", r);
            if let Err((k, what)) = check_exponential(&a, origs) {
                let mut r = replay();
                r["closed_distribution"] = outs_json(&a);
                st.v.add(format!("exp:{k}:atomic"), format!("multiset of {}: {what}", inputs.len()), r);
            }
        }
        for (name, first, again) in [("exponential", &e, &e2), ("atomic-into-exponential", &a, &a2)] {
            st.evals += 1;
            if !same(first, again) {
                let mut r = replay();
                r["closed"] = outs_json(first);
                r["reaggregated"] = outs_json(again);
                st.v.add(format!("reaggregate:not-identity:{name}"), "re-aggregating a closed histogram into a fresh histogram changes counts or reported values", r);
            }
        }
        if st.sample.is_empty() && e.len() >= 3 && inputs.iter().any(|(_, c)| *c > 2) {
            let mut r = replay();
            r["closed_distribution"] = outs_json(&e);
            st.sample.push(r);
        }
    }
}

fn sm_multiset(st: &mut St, inputs: &[(f64, u64)], obs: &mut Vec<Observation>, origs: &mut Vec<(Orig, u64)>) {
    st.multisets += 1;
    let encodings: &[bool] = if inputs.iter().any(|(_, c)| *c > 1) { &[false, true] } else { &[false] };
    // (arrival order: as given - ascending for the enumerated multisets - and reversed)
    for (&repeat_adds, reversed) in encodings.iter().flat_map(|e| [(e, false), (e, true)]) {
        if reversed && inputs.len() < 2 {
            continue;
        }
        feed(inputs, repeat_adds, obs, origs);
        if reversed {
            obs.reverse();
        }
        // what was recorded: a Repeated observation records its mean `occurrences` times
        let mut rec: Vec<(f64, u64)> = obs
            .iter()
            .map(|o| match o {
                Observation::Floating(v) => (*v, 1),
                Observation::Repeated { total, occurrences } => (*total / *occurrences as f64, *occurrences),
                _ => unreachable!(),
            })
            .collect();
        rec.sort_by(|a, b| a.0.total_cmp(&b.0));
        let mut want: Vec<(f64, u64)> = Vec::new();
        for (v, c) in rec {
            match want.last_mut() {
                Some(l) if l.0 == v => l.1 += c,
                _ => want.push((v, c)),
            }
        }
        let want_outs: Vec<Out> = want.iter().map(|(v, c)| Out { total: v * *c as f64, occ: *c }).collect();
        for (v, c) in &want {
            if (v * *c as f64) / *c as f64 != *v {
                st.mean_not_bit_exact += 1;
            }
        }
        let (s, s2) = run_hist::<Observation, SortAndMerge>(obs);
        st.evals += 1;
        // -0.0 and +0.0 are equal values: merged into one entry whose sign is that of whichever
        // arrived first (not determined by the statement); compared as +0.0
        let unsigned_zero = |o: &[Out]| -> Vec<Out> { o.iter().map(|x| Out { total: if x.total == 0.0 { 0.0 } else { x.total }, occ: x.occ }).collect() };
        let (s, s2, want_outs) = (unsigned_zero(&s), unsigned_zero(&s2), unsigned_zero(&want_outs));
        if !same(&s, &want_outs) {
            let got_n: u128 = s.iter().map(|o| o.occ as u128).sum();
            let want_n: u128 = want.iter().map(|x| x.1 as u128).sum();
            let vals: Vec<f64> = s.iter().map(|o| o.value()).collect();
            let key = if got_n != want_n {
                "sort-merge:count-not-conserved"
            } else if vals.windows(2).any(|w| w[0] > w[1]) {
                "sort-merge:order"
            } else if vals.windows(2).any(|w| w[0] == w[1]) {
                "sort-merge:equal-not-merged"
            } else {
                "sort-merge:values"
            };
            let mut r = multiset_json(inputs, repeat_adds);
            r["arrival_order"] = json!(if reversed { "reversed (descending)" } else { "as listed" });
            r["closed_distribution"] = outs_json(&s);
            r["expected"] = outs_json(&want_outs);
            st.v.add(key, "sort-and-merge does not report exactly the recorded values, ascending, equal values merged", r);
        }
        // The (total, occurrences) form of the output cannot carry every (value, count) pair: for
        // counts that are not powers of two fl(fl(v * n) / n) may differ from v in the last bit
        // (0.1 x3 -> total 0.30000000000000004 -> mean 0.10000000000000002). Re-aggregation records
        // that mean, so the statement does not determine the outcome there; only conservation of
        // the count is judged in such cases, the full identity in all others.
        st.evals += 1;
        let lossless = want.iter().all(|(v, c)| (v * *c as f64) / *c as f64 == *v);
        let identity = if lossless {
            same(&s, &s2)
        } else {
            st.reagg_undetermined += 1;
            s.iter().map(|o| o.occ as u128).sum::<u128>() == s2.iter().map(|o| o.occ as u128).sum::<u128>()
        };
        if !identity {
            let mut r = multiset_json(inputs, repeat_adds);
            r["arrival_order"] = json!(if reversed { "reversed (descending)" } else { "as listed" });
            r["closed"] = outs_json(&s);
            r["reaggregated"] = outs_json(&s2);
            st.v.add("reaggregate:not-identity:sort-and-merge", "re-aggregating a closed sort-and-merge histogram changes counts or reported values", r);
        }
    }
}

/// every multiset of size <= k over `letters` exactly once: non-decreasing k-tuples over the
/// letters plus a trailing "absent" symbol; the first two positions are the parallel index
fn for_all_multisets(letters: &[(f64, u64)], k: usize, f: impl Fn(&mut St, &[(f64, u64)], &mut Vec<Observation>, &mut Vec<(Orig, u64)>) + Sync) -> Vec<St> {
    let n = letters.len() as u64; // symbol n = absent
    par::for_each_index((n + 1) * (n + 1), 1, St::default, |st, idx| {
        let (s0, s1) = (idx / (n + 1), idx % (n + 1));
        if s0 > s1 {
            return;
        }
        let (mut obs, mut origs) = (Vec::new(), Vec::new());
        let mut cur: Vec<(f64, u64)> = Vec::with_capacity(k);
        let mut tuple = vec![s0, s1];
        fn rec(tuple: &mut Vec<u64>, k: usize, n: u64, letters: &[(f64, u64)], cur: &mut Vec<(f64, u64)>, st: &mut St, obs: &mut Vec<Observation>, origs: &mut Vec<(Orig, u64)>, f: &(impl Fn(&mut St, &[(f64, u64)], &mut Vec<Observation>, &mut Vec<(Orig, u64)>) + Sync)) {
            if tuple.len() == k {
                cur.clear();
                cur.extend(tuple.iter().filter(|s| **s < n).map(|s| letters[*s as usize]));
                f(st, cur, obs, origs);
                return;
            }
            let from = *tuple.last().unwrap();
            for s in from..=n {
                tuple.push(s);
                rec(tuple, k, n, letters, cur, st, obs, origs, f);
                tuple.pop();
            }
        }
        rec(&mut tuple, k, n, letters, &mut cur, st, &mut obs, &mut origs, &f);
    })
}

// ---------------------------------------------------------------------------------------------
// concurrency clause: serial orders of adds and a drain on the strategy objects

#[derive(Clone, Copy, PartialEq, Debug)]
enum Op {
    Add(usize), // index into the four adds: 0,1 = thread A, 2,3 = thread B
    Drain,
}

/// all interleavings of A = [Add0, Add1], B = [Add2, Add3], D = [Drain] that keep program order
fn serial_orders() -> Vec<Vec<Op>> {
    fn go(a: usize, b: usize, d: usize, cur: &mut Vec<Op>, out: &mut Vec<Vec<Op>>) {
        if a == 2 && b == 2 && d == 1 {
            out.push(cur.clone());
            return;
        }
        if a < 2 {
            cur.push(Op::Add(a));
            go(a + 1, b, d, cur, out);
            cur.pop();
        }
        if b < 2 {
            cur.push(Op::Add(2 + b));
            go(a, b + 1, d, cur, out);
            cur.pop();
        }
        if d < 1 {
            cur.push(Op::Drain);
            go(a, b, d + 1, cur, out);
            cur.pop();
        }
    }
    let mut out = Vec::new();
    go(0, 0, 0, &mut Vec::new(), &mut out);
    out
}

trait Strat {
    const NAME: &'static str;
    const EXACT: bool;
    fn new() -> Self;
    fn add(&mut self, v: f64, c: u64);
    fn take(&mut self) -> Vec<Out>;
}
fn norm(o: Vec<Observation>) -> Vec<Out> {
    o.into_iter()
        .map(|o| match o {
            Observation::Repeated { total, occurrences } => Out { total, occ: occurrences },
            _ => Out { total: f64::NAN, occ: u64::MAX },
        })
        .collect()
}
impl Strat for AtomicExp {
    const NAME: &'static str = "shared";
    const EXACT: bool = false;
    fn new() -> Self {
        AtomicExp::new()
    }
    fn add(&mut self, v: f64, c: u64) {
        // through the shared reference, as concurrent recorders do
        let s: &AtomicExp = self;
        if c == 1 { SharedAggregationStrategy::record(s, v) } else { SharedAggregationStrategy::record_many(s, v, c) }
    }
    fn take(&mut self) -> Vec<Out> {
        norm(SharedAggregationStrategy::drain(&*self))
    }
}
impl Strat for Exp {
    const NAME: &'static str = "exponential";
    const EXACT: bool = false;
    fn new() -> Self {
        Exp::new()
    }
    fn add(&mut self, v: f64, c: u64) {
        if c == 1 { AggregationStrategy::record(self, v) } else { AggregationStrategy::record_many(self, v, c) }
    }
    fn take(&mut self) -> Vec<Out> {
        norm(AggregationStrategy::drain(self))
    }
}
impl Strat for SortAndMerge {
    const NAME: &'static str = "sort-and-merge";
    const EXACT: bool = true;
    fn new() -> Self {
        SortAndMerge::new()
    }
    fn add(&mut self, v: f64, c: u64) {
        if c == 1 { AggregationStrategy::record(self, v) } else { AggregationStrategy::record_many(self, v, c) }
    }
    fn take(&mut self) -> Vec<Out> {
        norm(AggregationStrategy::drain(self))
    }
}

fn drain_orders<S: Strat>(st: &mut St, orders: &[Vec<Op>], adds: &[(f64, u64); 4]) {
    for order in orders {
        let mut s = S::new();
        let mut pending: Vec<(f64, u64)> = Vec::new();
        let mut drains: Vec<(Vec<Out>, Vec<(f64, u64)>)> = Vec::new();
        for op in order {
            match op {
                Op::Add(i) => {
                    s.add(adds[*i].0, adds[*i].1);
                    pending.push(adds[*i]);
                }
                Op::Drain => drains.push((s.take(), std::mem::take(&mut pending))),
            }
        }
        drains.push((s.take(), std::mem::take(&mut pending)));
        drains.push((s.take(), Vec::new())); // a further drain must be empty
        st.evals += 1;
        let got: u128 = drains.iter().flat_map(|d| d.0.iter()).map(|o| o.occ as u128).sum();
        let want: u128 = adds.iter().map(|a| a.1 as u128).sum();
        let replay = || {
            json!({"strategy": S::NAME, "adds": {"thread_a": [[adds[0].0, adds[0].1], [adds[1].0, adds[1].1]], "thread_b": [[adds[2].0, adds[2].1], [adds[3].0, adds[3].1]]},
                   "order": order.iter().map(|o| match o { Op::Add(i) => format!("{}{}", if *i < 2 { "a" } else { "b" }, i % 2 + 1), Op::Drain => "drain".into() }).collect::<Vec<_>>(),
                   "drains": drains.iter().map(|d| outs_json(&d.0)).collect::<Vec<_>>()})
        };
        if got < want {
            st.v.add(format!("{}:add-lost", S::NAME), format!("adds and a drain in a serial order: {want} observations recorded, {got} drained in total"), replay());
            continue;
        }
        if got > want {
            st.v.add(format!("{}:add-counted-twice", S::NAME), format!("adds and a drain in a serial order: {want} observations recorded, {got} drained in total"), replay());
            continue;
        }
        for (outs, ins) in &drains {
            let ok = if S::EXACT {
                let mut w: Vec<(f64, u64)> = ins.clone();
                w.sort_by(|a, b| a.0.total_cmp(&b.0));
                let mut m: Vec<(f64, u64)> = Vec::new();
                for (v, c) in w {
                    match m.last_mut() {
                        Some(l) if l.0 == v => l.1 += c,
                        _ => m.push((v, c)),
                    }
                }
                let m: Vec<Out> = m.into_iter().map(|(v, c)| Out { total: v * c as f64, occ: c }).collect();
                same(outs, &m)
            } else {
                let origs: Vec<(Orig, u64)> = ins.iter().map(|(v, c)| (orig_f64(*v), *c)).collect();
                check_exponential(outs, &origs).is_ok()
            };
            if !ok {
                st.v.add(format!("{}:drain-misattributed", S::NAME), "a drain does not report exactly the adds that completed since the previous drain", replay());
                break;
            }
        }
    }
}

// ---------------------------------------------------------------------------------------------
// the complete path: #[metrics] struct -> close -> entry sink, read back with metrique::test_util

#[metrics(rename_all = "PascalCase")]
#[derive(Default)]
struct Pipe {
    latency: Histogram<Duration>,
    size: Histogram<u64>,
    shared: SharedHistogram<f64>,
    precise: Histogram<f64, SortAndMerge>,
}

fn pipeline(rep: &mut Report, values: &[f64]) -> u64 {
    let mut n = 0;
    for w in values.windows(2) {
        let (x, y) = (w[0], w[1]);
        let d = |v: f64| Duration::from_nanos((v * 1e6) as u64);
        let TestEntrySink { inspector, sink } = test_entry_sink();
        let mut m = Pipe::default().append_on_drop(sink);
        for v in [x, y, y] {
            m.latency.add_value(d(v));
            m.size.add_value(v as u64);
            m.shared.add_value(v);
            m.precise.add_value(v);
        }
        drop(m);
        let entries = inspector.entries();
        let direct = [
            ("Latency", run_hist::<Duration, Exp>(&[d(x), d(y), d(y)]).0),
            ("Size", run_hist::<u64, Exp>(&[x as u64, y as u64, y as u64]).0),
            ("Shared", run_shared::<f64>(&[x, y, y]).0),
            ("Precise", run_hist::<f64, SortAndMerge>(&[x, y, y]).0),
        ];
        for (name, want) in direct {
            n += 1;
            let got: Vec<Out> = if entries.len() == 1 {
                entries[0].metrics[name]
                    .distribution
                    .iter()
                    .map(|o| match o {
                        Observation::Repeated { total, occurrences } => Out { total: *total, occ: *occurrences },
                        _ => Out { total: f64::NAN, occ: u64::MAX },
                    })
                    .collect()
            } else {
                Vec::new()
            };
            let want_unit = if name == "Latency" { "Milliseconds" } else { "None" };
            if entries.len() != 1 || !same(&got, &want) || entries[0].metrics[name].unit.to_string() != want_unit {
                rep.violation(
                    format!("pipeline:{name}"),
                    "a histogram field of a #[metrics] struct read back through the test entry sink differs from the closed histogram value (or has the wrong unit)",
                    json!({"values": [x, y, y], "field": name, "via_entry_sink": outs_json(&got), "closed_value": outs_json(&want)}),
                );
            }
        }
    }
    n
}

// ---------------------------------------------------------------------------------------------

fn main() {
    let mut rep = Report::from_args("C11", "exploration");
    let tier = rep.tier;
    let tab = table();
    let mut acc = St::default();

    // ---- E3 boundary sweep
    let in_domain = tab.iter().filter(|b| (b.lo as f64) < DOMAIN_END * SCALE).count();
    let t0 = std::time::Instant::now();
    for s in par::for_each_index(in_domain as u64, 2, St::default, |st, i| sweep_bucket(st, &tab, i as usize)) {
        s.merge_into(&mut rep, &mut acc);
    }
    let e3_evals = acc.evals;
    let e3_s = t0.elapsed().as_secs_f64();

    // monotonicity and per-bucket constancy over the ordered f64 probes
    acc.mono.sort();
    acc.mono.dedup();
    let mut non_monotone = 0u64;
    let mut not_constant = 0u64;
    let mut mono_example = None;
    for w in acc.mono.windows(2) {
        let (v0, v1) = (f64::from_bits(w[0].0), f64::from_bits(w[1].0));
        let (b0, b1) = (bucket_of(&tab, (v0 * SCALE) as u64), bucket_of(&tab, (v1 * SCALE) as u64));
        for (r0, r1) in [(f64::from_bits(w[0].1), f64::from_bits(w[1].1)), (f64::from_bits(w[0].2), f64::from_bits(w[1].2))] {
            if !(r0 <= r1) {
                non_monotone += 1;
                mono_example.get_or_insert(json!({"inputs": [v0, v1], "reported": [fj(r0), fj(r1)]}));
            } else if (b0 == b1) != (r0 == r1) {
                not_constant += 1;
                mono_example.get_or_insert(json!({"inputs": [v0, v1], "table_buckets": [b0, b1], "reported": [fj(r0), fj(r1)]}));
            }
        }
    }
    let mono_pairs = acc.mono.len().saturating_sub(1) as u64;
    acc.evals += 2 * mono_pairs;

    // bucket count of the real layout: the lower edge of every table bucket (also beyond the
    // domain; informational there) must be reported at a distinct value, the table midpoint
    let mut distinct = BTreeSet::new();
    let mut edge_mismatch = 0u64;
    for b in &tab {
        let v = b.lo as f64 / SCALE; // exact: a lower edge has at most 5 significant bits
        for outs in [run_hist::<f64, Exp>(&[v]).0, run_shared::<f64>(&[v]).0] {
            let mid = (((b.lo as u128 + b.hi as u128) / 2) as u64) as f64 / SCALE;
            if outs.len() == 1 && outs[0].occ == 1 {
                distinct.insert(outs[0].total.to_bits());
                if outs[0].total.to_bits() != mid.to_bits() {
                    edge_mismatch += 1;
                }
            } else {
                edge_mismatch += 1;
            }
        }
    }

    // ---- E2 multisets
    let alpha = alphabet(&tab);
    let k = tier.pick(3, 4);
    let letters: Vec<(f64, u64)> = alpha.iter().flat_map(|v| COUNTS.iter().map(move |c| (*v, *c))).collect();
    let t1 = std::time::Instant::now();
    let mut e2 = St::default();
    for s in for_all_multisets(&letters, k, exp_multiset) {
        s.merge_into(&mut rep, &mut e2);
    }
    let e2_s = t1.elapsed().as_secs_f64();
    let sm_letters: Vec<(f64, u64)> = alpha.iter().flat_map(|v| SM_COUNTS.iter().map(move |c| (*v, *c))).collect();
    let t2 = std::time::Instant::now();
    let mut sm = St::default();
    for s in for_all_multisets(&sm_letters, k, sm_multiset) {
        s.merge_into(&mut rep, &mut sm);
    }
    // sort-and-merge with larger occurrence counts (it stores every occurrence: 2^32 would need 32 GiB)
    let mut sm_big = St::default();
    {
        let (mut obs, mut origs) = (Vec::new(), Vec::new());
        for (i, v) in alpha.iter().enumerate() {
            sm_multiset(&mut sm_big, &[(*v, 1 << 16)], &mut obs, &mut origs);
            sm_multiset(&mut sm_big, &[(*v, 1 << 16), (alpha[(i + 1) % alpha.len()], 3), (*v, 1)], &mut obs, &mut origs);
        }
        for v in [alpha[alpha.len() / 2], alpha[alpha.len() - 1]] {
            sm_multiset(&mut sm_big, &[(v, 1_000_000), (v, 2)], &mut obs, &mut origs);
        }
    }
    // every occurrence count 1..=300 (not only round ones) on every alphabet value, alone and next
    // to an equal single observation: a mean computed any other way than total / occurrences
    // is off by an ulp for some counts (49, 75, 77, ...), which moves a value that sits on a
    // bucket edge into the bucket below
    {
        let (mut obs, mut origs) = (Vec::new(), Vec::new());
        for v in alpha.iter() {
            for c in 1..=300u64 {
                exp_multiset(&mut sm_big, &[(*v, c)], &mut obs, &mut origs);
                sm_multiset(&mut sm_big, &[(*v, c), (*v, 1)], &mut obs, &mut origs);
            }
        }
    }
    // many distinct values in one histogram (a closed distribution of n entries, n around 100 and
    // up to one value per bucket of a 3-octave stretch): each one in its own bucket (exponential)
    // resp. kept exactly (sort-and-merge), counts 1 and 2 alternating
    let mut many_cases = 0u64;
    {
        let (mut obs, mut origs) = (Vec::new(), Vec::new());
        let first = bucket_of(&tab, 1024);
        let mids: Vec<f64> = tab[first..].iter().take(600).map(|b| ((b.lo + b.hi) / 2) as f64 / SCALE).collect();
        for n in [31usize, 32, 33, 99, 100, 101, 102, 128, 199, 200, 201, 255, 256, 257, 500, 600] {
            for stride in [1usize, 2] {
                let inputs: Vec<(f64, u64)> = mids.iter().step_by(stride).take(n).enumerate().map(|(i, v)| (*v, 1 + (i as u64 % 2))).collect();
                if inputs.len() < n {
                    continue;
                }
                exp_multiset(&mut sm_big, &inputs, &mut obs, &mut origs);
                sm_multiset(&mut sm_big, &inputs, &mut obs, &mut origs);
                many_cases += 2;
            }
        }
    }
    rep.set("histograms_with_many_distinct_values", many_cases);
    let sm_s = t2.elapsed().as_secs_f64();
    let (e2_multisets, sm_multisets, sm_big_cases) = (e2.multisets, sm.multisets, sm_big.multisets);
    let e2_evals = e2.evals + sm.evals + sm_big.evals;
    let mut e2_acc = St::default();
    for s in [e2, sm, sm_big] {
        s.merge_into(&mut rep, &mut e2_acc);
    }
    acc.evals += e2_acc.evals;
    acc.sample.extend(std::mem::take(&mut e2_acc.sample));
    let (mean_drift, reagg_joined) = (e2_acc.mean_not_bit_exact, e2_acc.reagg_undetermined);

    // ---- NaN is outside the statement ("finite, non-negative"): behaviour recorded, never judged
    let nan_cases: [&[f64]; 3] = [&[f64::NAN], &[1.0, f64::NAN, 0.5], &[f64::NAN, f64::NAN, 2.0, 2.0]];
    let mut nan_seen = Vec::new();
    for c in nan_cases {
        nan_seen.push(json!({"recorded": c.iter().map(|x| fj(*x)).collect::<Vec<_>>(), "sort_and_merge": outs_json(&run_hist::<f64, SortAndMerge>(c).0)}));
    }

    // ---- concurrency clause
    let orders = serial_orders();
    let tvals = [0.0, 1.0, 1.0 + 63.0 / SCALE, 1088.0 / SCALE, alpha[alpha.len() - 1]];
    let tletters: Vec<(f64, u64)> = tvals.iter().flat_map(|v| [1u64, 1 << 32].into_iter().map(move |c| (*v, c))).collect();
    let nl = tletters.len() as u64;
    let t3 = std::time::Instant::now();
    let mut conc = St::default();
    for s in par::for_each_index(nl.pow(4), 16, St::default, |st, idx| {
        let mut d = [0u64; 4];
        par::decode(idx, &[nl, nl, nl, nl], &mut d);
        let adds = [tletters[d[0] as usize], tletters[d[1] as usize], tletters[d[2] as usize], tletters[d[3] as usize]];
        drain_orders::<AtomicExp>(st, &orders, &adds);
        drain_orders::<Exp>(st, &orders, &adds);
        // sort-and-merge stores every occurrence: small counts only
        let small = adds.map(|(v, c)| (v, if c == 1 { 1 } else { 2 }));
        drain_orders::<SortAndMerge>(st, &orders, &small);
    }) {
        s.merge_into(&mut rep, &mut conc);
    }
    // SharedHistogram itself: every order of the four add_value calls of two threads, then close
    let mut shared_orders = 0u64;
    {
        let adds_only: BTreeSet<Vec<usize>> = orders.iter().map(|o| o.iter().filter_map(|op| if let Op::Add(i) = op { Some(*i) } else { None }).collect()).collect();
        for idx in 0..(tvals.len() as u64).pow(4) {
            let mut d = [0u64; 4];
            let n = tvals.len() as u64;
            par::decode(idx, &[n, n, n, n], &mut d);
            let vals = d.map(|i| tvals[i as usize]);
            let mut first: Option<Vec<Out>> = None;
            for o in &adds_only {
                shared_orders += 1;
                let h: SharedHistogram<f64> = SharedHistogram::default();
                for i in o {
                    h.add_value(vals[*i]);
                }
                let out = read(&h.close());
                let origs: Vec<(Orig, u64)> = vals.iter().map(|v| (orig_f64(*v), 1)).collect();
                let total: u64 = out.iter().map(|x| x.occ).sum();
                if total < 4 {
                    rep.violation("shared:add-lost", "SharedHistogram: four add_value calls, fewer than four occurrences after close", json!({"values": vals, "order": o, "closed_distribution": outs_json(&out)}));
                } else if check_exponential(&out, &origs).is_err() || first.as_ref().is_some_and(|f| !same(f, &out)) {
                    rep.violation("shared:order-dependent", "SharedHistogram: the closed distribution depends on the order of the add_value calls or misreports them", json!({"values": vals, "order": o, "closed_distribution": outs_json(&out)}));
                }
                first.get_or_insert(out);
            }
        }
    }
    let conc_s = t3.elapsed().as_secs_f64();
    let conc_evals = conc.evals + shared_orders;
    acc.evals += conc_evals;

    // ---- complete path through a #[metrics] struct and the test entry sink
    let pipe_vals: Vec<f64> = alpha.iter().copied().filter(|v| *v < 1e9).collect();
    let pipeline_checks = pipeline(&mut rep, &pipe_vals);
    acc.evals += pipeline_checks;

    // ---- evidence
    let layout_ok = acc.layout_mismatch == 0 && edge_mismatch == 0 && non_monotone == 0 && not_constant == 0 && distinct.len() == tab.len();
    rep.set("evaluations", acc.evals);
    rep.set("distinct_nontrivial", acc.nontrivial.len() as u64);
    rep.set("rule", "E3: every bucket of the independently derived base-2 log-linear table (grouping power 4, scaled by 2^10) whose lower edge is below 2^53 scaled (= values below 2^43) is probed at {lower-1ulp, lower, lower+1ulp, integer midpoint, real midpoint, quartiles, upper, next lower-1ulp, next lower}/1024 through f64, f32, u64, usize, u32, u16, u8, bool (where the value is representable), Observation::{Floating, Unsigned, Repeated x1} and the two whole-nanosecond Durations around the value (recorded in milliseconds); each single observation goes into Histogram<_, Exponential>, SharedHistogram<_, AtomicExponential> and Histogram<_, SortAndMerge>; the oracle decides the error bound in exact integer arithmetic on the rational original. E2: all multisets up to the size bound over (boundary alphabet x occurrence counts). distinct_nontrivial = number of distinct table buckets that were hit by a single observation whose reported value differs from the input");
    rep.set("exhaustive", true);
    rep.set("buckets_in_table", tab.len() as u64);
    rep.set("buckets_in_domain_swept", in_domain as u64);
    rep.set("bucket_count_found", distinct.len() as u64);
    rep.set("layout_matches_table", layout_ok);
    rep.set("single_observation_probes", acc.probes);
    rep.set("probes_by_source", json!(acc.by_source));
    rep.set("probe_values_outside_domain_skipped", acc.outside_domain);
    rep.set("e3_evaluations", e3_evals);
    rep.set("monotonicity_pairs_checked", mono_pairs);
    rep.set("multiset_size_bound", k as u64);
    rep.set("alphabet_values", alpha.len() as u64);
    rep.set("occurrence_counts", json!(COUNTS));
    rep.set("exponential_multisets", e2_multisets);
    rep.set("sort_and_merge_multisets", sm_multisets);
    rep.set("sort_and_merge_occurrence_counts", json!(SM_COUNTS));
    rep.set("sort_and_merge_large_count_cases", sm_big_cases);
    rep.set("e2_evaluations", e2_evals);
    rep.set("serial_orders_per_case", orders.len() as u64);
    rep.set("serial_order_cases", nl.pow(4));
    rep.set("concurrency_evaluations", conc_evals);
    rep.set("pipeline_crosschecks", pipeline_checks);
    rep.set("nan_cases_outside_statement_not_judged", nan_seen.len() as u64);
    rep.set("nan_behaviour_observed", json!(nan_seen));
    rep.set("sort_and_merge_groups_whose_mean_total_div_count_is_not_bit_exact", mean_drift);
    rep.set("sort_and_merge_reaggregations_with_lossy_total_count_form_only_count_judged", reagg_joined);
    rep.set("phase_wall_s", json!({"e3": e3_s, "e2_exponential": e2_s, "e2_sort_and_merge": sm_s, "concurrency": conc_s}));
    for s in std::mem::take(&mut acc.sample) {
        rep.sample(s);
    }
    rep.sample(json!({"serial_order": ["a1", "drain", "b1", "a2", "b2"], "expect": "first drain reports a1 only, the final drain a2, b1, b2; a further drain is empty"}));
    rep.assume("SharedHistogram's only shared state is inside histogram::AtomicHistogram (external crate, trusted linearizable); metrique adds no shared step of its own, so every schedule of concurrent add_value calls equals one of the enumerated serial orders; the inside of histogram::AtomicHistogram is not explored");
    rep.assume("the value -> bucket map is monotone between two consecutive probes (it is checked to be monotone and constant per bucket at all probes, one ulp around every edge included)");
    rep.assume("a Repeated observation (total, n) stands for n observations of total/n; its original is compared in f64 with relative slack 1e-12, all single observations in exact integer arithmetic");
    rep.assume("sort-and-merge expected output is Repeated { total: value * count (one f64 multiplication), occurrences: count }; total/count may differ from value in the last bit for counts that are not powers of two (counted); re-aggregation records total/count, so for such lossy groups only count conservation is judged, the bit-exact identity in all other cases");
    rep.assume("sort-and-merge with occurrence counts 10^6 only in a few cases and never 2^32: the strategy stores every occurrence");
    rep.assume("values >= 2^43, negative, infinite and NaN are outside the statement and not judged");
    if !layout_ok && rep.violations.is_empty() {
        println!(
            "MACHINERY-FAILURE: the real layout disagrees with the independent 976-bucket table (distinct reported values {}, midpoint mismatches {}, edge mismatches {}, non-monotone {}, not constant per bucket {}): {}",
            distinct.len(),
            acc.layout_mismatch,
            edge_mismatch,
            non_monotone,
            not_constant,
            acc.layout_example.or(mono_example).unwrap_or(J::Null)
        );
        std::process::exit(2);
    }
    rep.finish();
}
