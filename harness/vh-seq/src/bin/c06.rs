//! C06 (sequential part) - a unit-of-work entry is closed and appended exactly once, at the
//! right moment: explicit-state search over every order of creating/dropping handles, flush
//! guards, force-flush guards, mutating and dropping the owner, against a reference model
//! written from the property statement. (The thread-placement part runs under loom in vh-sched.)
use metrique::unit_of_work::metrics;
use metrique::{AppendAndCloseOnDrop, AppendAndCloseOnDropHandle, FlushGuard, ForceFlushGuard, RootMetric};
use metrique_writer::sink::VecEntrySink;
use metrique_writer::test_util::to_test_entry;
use serde_json::json;
use std::collections::BTreeSet;
use vh_common::report::Violations;
use vh_common::{Report, par};

#[metrics]
#[derive(Default)]
struct Work {
    a: usize,
}

type Sink = VecEntrySink<RootMetric<Work>>;

#[derive(Clone, Copy, Debug, PartialEq, Eq, PartialOrd, Ord, Hash)]
enum Op {
    MkHandle,
    DropHandle(u8),
    MkGuard,
    DropGuard(u8),
    MkForce,
    DropForce(u8),
    Mutate,
    DropOwner,
    /// the owner is consumed by `Instrumented::from_parts((), owner).emit()`
    EmitOwner,
    /// the owner is consumed by `Instrumented::from_parts((), owner).discard_metrics()` (the
    /// metrics are dropped, which for an append-on-drop owner is its drop point)
    DiscardOwner,
    /// a mutation made inside `Instrumented::instrument(owner, |m| ..)`, owner taken back with `into_parts`
    InstrumentMutate,
}

/// Drops `x` plainly or by the unwinding of a caught panic of its owner.
fn drop_it<T>(x: T, unwinding: bool) {
    if unwinding {
        let r = std::panic::catch_unwind(std::panic::AssertUnwindSafe(move || {
            let _owned = x;
            std::panic::panic_any(ExpectedUnwind);
        }));
        assert!(r.is_err());
    } else {
        drop(x);
    }
}
struct ExpectedUnwind;

struct World {
    /// environment of this replay: every drop happens by unwinding
    unwinding: bool,
    sink: Sink,
    owner: Option<AppendAndCloseOnDrop<Work, Sink>>,
    handles: Vec<AppendAndCloseOnDropHandle<Work, Sink>>,
    guards: Vec<FlushGuard>,
    forces: Vec<ForceFlushGuard>,
}

/// reference model, from the statement
#[derive(Clone, Debug, Default, PartialEq, Eq, PartialOrd, Ord, Hash)]
struct Model {
    owner_alive: bool,
    handles: u8,
    guards: u8,
    forces: u8,
    force_dropped: bool,
    mutations: u64,
    appended: Option<u64>,
}

impl Model {
    fn settle(&mut self) {
        let owners_gone = !self.owner_alive && self.handles == 0;
        if self.appended.is_none() && owners_gone && (self.guards == 0 || self.force_dropped) {
            self.appended = Some(self.mutations);
        }
    }
    fn enabled(&self, max: u8) -> Vec<Op> {
        let mut v = Vec::new();
        if self.owner_alive {
            // guards can only be created through the owner
            if self.guards < max {
                v.push(Op::MkGuard);
            }
            if self.forces < max {
                v.push(Op::MkForce);
            }
            v.push(Op::Mutate);
            v.push(Op::DropOwner);
            v.push(Op::DiscardOwner);
            v.push(Op::EmitOwner);
            v.push(Op::InstrumentMutate);
            v.push(Op::MkHandle); // converts the owner into a handle
        } else if self.handles > 0 && self.handles < max {
            v.push(Op::MkHandle);
        }
        for i in 0..self.handles {
            v.push(Op::DropHandle(i));
        }
        for i in 0..self.guards {
            v.push(Op::DropGuard(i));
        }
        for i in 0..self.forces {
            v.push(Op::DropForce(i));
        }
        v
    }
    fn apply(&mut self, op: Op) {
        match op {
            Op::MkHandle => {
                if self.owner_alive {
                    self.owner_alive = false;
                }
                self.handles += 1;
            }
            Op::DropHandle(_) => self.handles -= 1,
            Op::MkGuard => self.guards += 1,
            Op::DropGuard(_) => self.guards -= 1,
            Op::MkForce => self.forces += 1,
            Op::DropForce(_) => {
                self.forces -= 1;
                self.force_dropped = true;
            }
            Op::Mutate | Op::InstrumentMutate => self.mutations += 1,
            Op::DropOwner | Op::EmitOwner | Op::DiscardOwner => self.owner_alive = false,
        }
        self.settle();
    }
}

impl World {
    fn new(unwinding: bool) -> World {
        let sink = VecEntrySink::new();
        World {
            unwinding,
            owner: Some(Work::default().append_on_drop(sink.clone())),
            sink,
            handles: vec![],
            guards: vec![],
            forces: vec![],
        }
    }
    fn apply(&mut self, op: Op) {
        match op {
            Op::MkHandle => match self.owner.take() {
                Some(o) => self.handles.push(o.handle()),
                None => {
                    let h = self.handles[0].clone();
                    self.handles.push(h)
                }
            },
            Op::DropHandle(i) => drop_it(self.handles.remove(i as usize), self.unwinding),
            Op::MkGuard => self.guards.push(self.owner.as_ref().unwrap().flush_guard()),
            Op::DropGuard(i) => drop_it(self.guards.remove(i as usize), self.unwinding),
            Op::MkForce => self.forces.push(self.owner.as_ref().unwrap().force_flush_guard()),
            Op::DropForce(i) => drop_it(self.forces.remove(i as usize), self.unwinding),
            Op::Mutate => self.owner.as_mut().unwrap().a += 1,
            Op::DropOwner => drop_it(self.owner.take(), self.unwinding),
            Op::EmitOwner => metrique::instrument::Instrumented::from_parts((), self.owner.take().unwrap()).emit(),
            Op::DiscardOwner => metrique::instrument::Instrumented::from_parts((), self.owner.take().unwrap()).discard_metrics(),
            Op::InstrumentMutate => {
                let o = self.owner.take().unwrap();
                let ((), o) = metrique::instrument::Instrumented::instrument(o, |m| m.a += 1).into_parts();
                self.owner = Some(o);
            }
        }
    }
}

#[derive(Default)]
struct St {
    histories: u64,
    transitions: u64,
    v: Violations,
    model_states: BTreeSet<Model>,
    appended_histories: u64,
}

fn explore(st: &mut St, hist: &mut Vec<Op>, model: &Model, depth: usize, max: u8) {
    st.histories += 1;
    st.model_states.insert(model.clone());
    if hist.len() >= depth {
        return;
    }
    for op in model.enabled(max) {
        hist.push(op);
        let mut m2 = model.clone();
        m2.apply(op);
        // twice: every drop plain / every drop by the unwinding of a caught panic
        for unwinding in [false, true] {
        // (unwinding costs microseconds per drop: that environment is searched two levels less deep)
        if unwinding && hist.len() + 2 > depth {
            continue;
        }
        // rebuild the real world by replaying the history (live objects do not copy)
        let mut w = World::new(unwinding);
        let mut seen: Vec<u64> = Vec::new();
        for o in hist.iter() {
            w.apply(*o);
            st.transitions += 1;
            for e in w.sink.drain() {
                seen.push(to_test_entry(&e).metrics["a"].as_u64());
            }
        }
        // compare after this step (earlier steps were compared by shorter histories)
        let expect: Vec<u64> = m2.appended.into_iter().collect();
        let env = if unwinding { ":drops-by-unwinding" } else { "" };
        if seen != expect {
            let what = if seen.len() > expect.len() && expect.is_empty() { "appended-too-early" }
                else if seen.len() > 1 { "appended-twice" }
                else if seen.is_empty() { "not-appended-when-due" }
                else { "mutation-lost" };
            st.v.add(
                format!("seq:{what}{env}"),
                format!("after {hist:?} the sink received {seen:?}, the statement predicts {expect:?}"),
                json!({"history": hist.iter().map(|o| format!("{o:?}")).collect::<Vec<_>>(), "received": seen, "expected": expect, "every_drop_by_unwinding_a_caught_panic": unwinding}),
            );
        }
        drop(w);
        }
        if m2.appended.is_some() {
            st.appended_histories += 1;
        }
        explore(st, hist, &m2, depth, max);
        hist.pop();
    }
}

fn main() {
    let mut rep = Report::from_args("C06", "model_checking");
    let default_hook = std::panic::take_hook();
    std::panic::set_hook(Box::new(move |info| {
        if !info.payload().is::<ExpectedUnwind>() {
            default_hook(info);
        }
    }));
    let depth: usize = rep.tier.pick(10, 12);
    let max: u8 = 2;
    let init = Model { owner_alive: true, ..Default::default() };
    // parallelise over the first two operations
    let mut prefixes: Vec<Vec<Op>> = Vec::new();
    for a in init.enabled(max) {
        let mut m = init.clone();
        m.apply(a);
        for b in m.enabled(max) {
            prefixes.push(vec![a, b]);
        }
        prefixes.push(vec![a]);
    }
    let states = par::for_each_index(prefixes.len() as u64, 1, St::default, |st, i| {
        let p = &prefixes[i as usize];
        let mut m = init.clone();
        let mut hist = Vec::new();
        // the prefix itself is checked as a history of its own length
        for (k, op) in p.iter().enumerate() {
            if k + 1 == p.len() {
                // run the generic step for the last op of the prefix
                let mut h2 = hist.clone();
                let mut stub = St::default();
                // check this single extension
                explore_one(&mut stub, &mut h2, &m, *op);
                st.v.merge(stub.v);
                st.transitions += stub.transitions;
            }
            hist.push(*op);
            m.apply(*op);
        }
        if p.len() == 2 {
            explore(st, &mut hist, &m, depth, max);
        } else {
            st.histories += 1;
        }
    });
    let parked = parked_owner_histories(&mut rep.violations);
    rep.set("parked_owner_histories", parked);
    let cancelled = cancelled_async_histories(&mut rep.violations);
    rep.set("cancelled_instrument_async_histories", cancelled);
    let mut all_states = BTreeSet::new();
    let (mut h, mut t, mut ap) = (1u64, 0u64, 0u64);
    for s in states {
        h += s.histories; t += s.transitions; ap += s.appended_histories;
        all_states.extend(s.model_states);
        rep.violations.merge(s.v);
    }
    rep.set("states", h);
    rep.set("transitions", t);
    rep.set("traces_validated_against_impl", h);
    rep.set("distinct_model_states", all_states.len() as u64);
    rep.set("histories_in_which_the_entry_was_appended", ap);
    rep.set("depth", depth as u64);
    rep.set("exhaustive", true);
    rep.set("explanation", "every sequence (up to the depth, at most 2 handles / 2 flush guards / 2 force-flush guards alive) of make-handle, drop-handle, make/drop flush guard, make/drop force-flush guard, mutate (directly or inside Instrumented::instrument), drop-owner (plain or through Instrumented::emit) is replayed twice (every drop plain; every drop by the unwinding of a caught panic) on the real AppendAndCloseOnDrop with a VecEntrySink; after every step the sink contents must equal the reference model's prediction (appended exactly when owner and handles are gone and all guards are gone or a force guard was dropped; value = number of mutations)");
    rep.sample(json!({"history": ["MkGuard", "MkForce", "Mutate", "DropOwner", "DropForce(0)", "DropGuard(0)"], "expected": "appended once at DropForce(0) with a=1"}));
    rep.assume("flush guards and force-flush guards can only be created through the owner (the handle derefs to the entry, not to the wrapper)");
    rep.finish();
}

/// Owners parked in a caller-side `Option` through `Instrumented::split_metrics_to`: writing a
/// second owner into the occupied target is the drop point of the first one, and the parked owner
/// is the one mutated and dropped later. Every combination of what each of the two owners has
/// alive when it is parked (nothing / a second reference / a flush guard / a force-flush guard),
/// the leftovers dropped afterwards in both orders. Entry i is created with a = 10 * i.
fn parked_owner_histories(v: &mut Violations) -> u64 {
    use metrique::instrument::Instrumented;
    #[derive(Clone, Copy, Debug, PartialEq)]
    enum Extra {
        Nothing,
        /// owner 1: a second flush guard taken through the parked owner; owner 2: leaves the
        /// target as a handle (a handle consumes the owner)
        Second,
        Guard,
        Force,
    }
    enum Kept {
        Nothing,
        Handle(AppendAndCloseOnDropHandle<Work, Sink>),
        Guard(FlushGuard),
        Force(ForceFlushGuard),
    }
    #[derive(Clone, Copy, Debug)]
    enum Act {
        Park1,
        Park2,
        Mutate,
        DropKept1,
        DropKept2,
        DropTarget,
    }
    let all = [Extra::Nothing, Extra::Second, Extra::Guard, Extra::Force];
    let mut n = 0;
    for e1 in all {
        for e2 in all {
            for first_leftover_first in [true, false] {
                n += 1;
                let sink: Sink = VecEntrySink::new();
                let mut target: Option<AppendAndCloseOnDrop<Work, Sink>> = None;
                let (mut k1, mut k2) = (Kept::Nothing, Kept::Nothing);
                // (a force-flush guard that is merely alive delays nothing)
                let o1_waits = matches!(e1, Extra::Second | Extra::Guard);
                // owner 2 is gone from the target and waits for what it kept
                let mut pending2 = false;
                let (mut steps, mut expect, mut seen): (Vec<String>, Vec<u64>, Vec<u64>) = (vec![], vec![], vec![]);
                let mut bad: Option<String> = None;
                let tail = if first_leftover_first { [Act::DropKept1, Act::DropTarget, Act::DropKept2] } else { [Act::DropTarget, Act::DropKept2, Act::DropKept1] };
                for act in [Act::Park1, Act::Park2, Act::Mutate].into_iter().chain(tail) {
                    match act {
                        Act::Park1 | Act::Park2 => {
                            let (i, e) = if matches!(act, Act::Park1) { (1, e1) } else { (2, e2) };
                            let mut o = Work::default().append_on_drop(sink.clone());
                            o.a = 10 * i;
                            let kept = match e {
                                Extra::Guard => Kept::Guard(o.flush_guard()),
                                Extra::Force => Kept::Force(o.force_flush_guard()),
                                _ => Kept::Nothing,
                            };
                            let occupied = target.is_some();
                            let () = Instrumented::from_parts((), o).split_metrics_to(&mut target);
                            steps.push(format!("owner{i} (a={}, keeps {e:?}) split_metrics_to({} target)", 10 * i, if occupied { "the occupied" } else { "the empty" }));
                            if i == 1 {
                                k1 = if e1 == Extra::Second { Kept::Guard(target.as_ref().unwrap().flush_guard()) } else { kept };
                            } else {
                                k2 = kept;
                                // owner 1 was dropped by the second split
                                if !o1_waits {
                                    expect.push(10);
                                }
                            }
                        }
                        Act::Mutate => {
                            // the parked owner is owner 2: a mutation through the target is owner 2's
                            match target.as_mut() {
                                Some(t) => t.a += 1,
                                None => bad = bad.or(Some("the target is empty after two splits".into())),
                            }
                            steps.push("target.a += 1".into());
                            if e2 == Extra::Second {
                                if let Some(t) = target.take() {
                                    k2 = Kept::Handle(t.handle());
                                    steps.push("owner2 leaves the target as a handle".into());
                                }
                            }
                        }
                        Act::DropTarget => {
                            drop(target.take());
                            steps.push("drop the target".into());
                            if matches!(e2, Extra::Nothing | Extra::Force) {
                                expect.push(21);
                            } else {
                                pending2 = true;
                            }
                        }
                        Act::DropKept1 => {
                            drop(std::mem::replace(&mut k1, Kept::Nothing));
                            steps.push(format!("drop what owner1 kept ({e1:?})"));
                            if o1_waits {
                                expect.push(10);
                            }
                        }
                        Act::DropKept2 => {
                            drop(std::mem::replace(&mut k2, Kept::Nothing));
                            steps.push(format!("drop what owner2 kept ({e2:?})"));
                            if pending2 {
                                expect.push(21);
                                pending2 = false;
                            }
                        }
                    }
                    for e in sink.drain() {
                        seen.push(to_test_entry(&e).metrics["a"].as_u64());
                    }
                    if bad.is_none() && seen != expect {
                        bad = Some(format!("after {:?}: the sink has seen a = {seen:?}, expected {expect:?}", steps.last().unwrap()));
                    }
                }
                if let Some(what) = bad {
                    v.add(
                        "seq:parked-owner:split-into-occupied-target".to_string(),
                        format!("owners parked with split_metrics_to: {what}"),
                        json!({"history": steps, "seen": seen, "expected": expect}),
                    );
                }
            }
        }
    }
    n
}

/// The owner kept across an `.await` inside `Instrumented::instrument_async`: the future is polled
/// `polls` times and then either completes (the result is emitted) or is dropped while suspended
/// (cancellation: a timeout, a lost select!). Either way the entry is appended exactly once, when
/// the owner goes (and a flush guard taken before has gone), with the mutations made so far.
fn cancelled_async_histories(v: &mut Violations) -> u64 {
    use metrique::instrument::Instrumented;
    use std::future::Future;
    let mut n = 0;
    for suspend_points in 0..=2usize {
        for cancel_after_polls in [None, Some(1usize), Some(2)] {
            for guard_first in [false, true] {
                if let Some(p) = cancel_after_polls {
                    if p > suspend_points {
                        continue; // the future would have completed
                    }
                }
                n += 1;
                let sink: Sink = VecEntrySink::new();
                let owner = Work::default().append_on_drop(sink.clone());
                let guard = guard_first.then(|| owner.flush_guard());
                // one mutation before every suspension point and one at the end
                let fut = Instrumented::instrument_async(owner, async |m: &mut AppendAndCloseOnDrop<Work, Sink>| {
                    for _ in 0..suspend_points {
                        m.a += 1;
                        YieldOnce(false).await;
                    }
                    m.a += 1;
                });
                let mut fut = Box::pin(fut);
                let mut cx = std::task::Context::from_waker(std::task::Waker::noop());
                let mut polls = 0;
                let mut done = None;
                loop {
                    if cancel_after_polls == Some(polls) {
                        break;
                    }
                    polls += 1;
                    if let std::task::Poll::Ready(r) = fut.as_mut().poll(&mut cx) {
                        done = Some(r);
                        break;
                    }
                }
                let history = json!({"suspension_points": suspend_points, "future_dropped_after_polls": cancel_after_polls, "flush_guard_taken_before": guard_first});
                let mutations = match (&done, cancel_after_polls) {
                    (Some(_), _) => suspend_points as u64 + 1,
                    (None, Some(p)) => p as u64, // one mutation per poll that ran up to a suspension point
                    (None, None) => unreachable!(),
                };
                match done {
                    Some(instrumented) => instrumented.emit(),
                    None => drop(fut),
                }
                let seen_before_guard: Vec<u64> = sink.drain().iter().map(|e| to_test_entry(e).metrics["a"].as_u64()).collect();
                let expect_before: Vec<u64> = if guard_first { vec![] } else { vec![mutations] };
                if seen_before_guard != expect_before {
                    v.add("seq:instrument-async:owner-across-await", format!("after the future {} the sink has seen a = {seen_before_guard:?}, expected {expect_before:?}", if cancel_after_polls.is_some() { "was dropped while suspended" } else { "completed and was emitted" }), history.clone());
                }
                drop(guard);
                let seen_after: Vec<u64> = sink.drain().iter().map(|e| to_test_entry(e).metrics["a"].as_u64()).collect();
                let expect_after: Vec<u64> = if guard_first { vec![mutations] } else { vec![] };
                if seen_after != expect_after {
                    v.add("seq:instrument-async:owner-across-await", format!("after the flush guard was dropped the sink has seen a = {seen_after:?} more, expected {expect_after:?}"), history);
                }
            }
        }
    }
    n
}

/// a future that is pending exactly once
struct YieldOnce(bool);
impl std::future::Future for YieldOnce {
    type Output = ();
    fn poll(mut self: std::pin::Pin<&mut Self>, _: &mut std::task::Context<'_>) -> std::task::Poll<()> {
        if self.0 {
            std::task::Poll::Ready(())
        } else {
            self.0 = true;
            std::task::Poll::Pending
        }
    }
}

fn explore_one(st: &mut St, hist: &mut Vec<Op>, model: &Model, op: Op) {
    hist.push(op);
    let mut m2 = model.clone();
    m2.apply(op);
    let mut w = World::new(false);
    let mut seen: Vec<u64> = Vec::new();
    for o in hist.iter() {
        w.apply(*o);
        st.transitions += 1;
        for e in w.sink.drain() {
            seen.push(to_test_entry(&e).metrics["a"].as_u64());
        }
    }
    let expect: Vec<u64> = m2.appended.into_iter().collect();
    if seen != expect {
        st.v.add("seq:short-history", format!("after {hist:?} the sink received {seen:?}, the statement predicts {expect:?}"), json!({"history": hist.iter().map(|o| format!("{o:?}")).collect::<Vec<_>>()}));
    }
    hist.pop();
}
