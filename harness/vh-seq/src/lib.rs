//! E2/E3 harnesses (operation-sequence search and exhaustive sweeps) over the real metrique crates.
pub mod emfx;
pub mod writer_model;
