//! Explicit-state search over the REAL writer loop of the background queue, stepped by the
//! harness instead of a thread (`__verif_writer` hook, `--cfg metrique_verif`): real
//! `Inner::push` / `flush_async`, real `ArrayQueue`, real `Receiver::drain_until_deadline` /
//! `consume` / `flush_stream` / `shut_down`, real `WakerTracker`. A state is its event history;
//! the real objects are rebuilt by replay. The stream is scripted (every entry Ok / Io error /
//! validation error / a mix) and can re-fill the queue from inside `next` (a producer that never
//! lets the queue run empty) and append / request a flush from inside `flush`.
//!
//! Decides, per property:
//!   C04  a completed flush future => every entry appended before the request reached the stream
//!        (or was displaced) and the stream was flushed after the last of them; a pending request
//!        completes within a bounded number of entries handed to the stream although the queue
//!        never runs empty, whatever the stream answers; shutdown completes every request.
//!   C09  entries reach the stream in append order, an entry is missing only if displaced by
//!        `capacity` newer ones, the overflow counter equals the number of displaced entries.
//!   C01  without overflow every entry reaches the stream exactly once, in order, whatever
//!        errors the stream returns for other entries (also through the final drain).
use metrique_writer::sink::BackgroundQueueBuilder;
use metrique_writer::sink::__verif_writer::{Producer, Status, Writer};
use metrique_writer::{Entry, EntryIoStream, EntryWriter, IoStreamError, ValidationError};
use metrique_writer_core::sink::FlushWait;
use serde_json::json;
use std::cell::{Cell, RefCell};
use std::collections::{BTreeMap, HashMap};
use std::future::Future;
use std::pin::Pin;
use std::rc::Rc;
use std::sync::{Arc, Mutex};
use std::task::{Context, Poll, Waker};
use vh_common::report::Violations;
use vh_common::{Report, par};

pub struct Tag(u64);
impl Entry for Tag {
    fn write<'a>(&'a self, w: &mut impl EntryWriter<'a>) {
        w.value("id", &self.0);
    }
}

fn id_of(e: &impl Entry) -> Option<u64> {
    let t = metrique_writer::test_util::to_test_entry(e);
    t.metrics.get("id").map(|m| m.as_u64())
}

#[derive(Clone, Copy, Debug, PartialEq, Eq, Hash, PartialOrd, Ord)]
pub enum Mode {
    AllOk,
    AllIo,
    AllValidation,
    /// id % 3: Ok, Io, Validation
    Mixed,
    /// every entry accepted / rejected as invalid, and every `flush` of the stream fails
    AllOkFlushFails,
    AllValidationFlushFails,
}

#[derive(Clone, Copy, Debug, PartialEq, Eq)]
enum Res {
    Ok,
    Io,
    Val,
}

#[derive(Clone, Debug, PartialEq, Eq)]
enum Log {
    Next(u64, Res),
    /// the queue's in-band error report (rate limited by real time: ignored by every oracle)
    Report,
    Flush,
    Dropped,
}

/// shared between the harness and the scripted stream
struct Ctl {
    cap: usize,
    mode: Mode,
    log: RefCell<Vec<Log>>,
    next_id: Cell<u64>,
    /// `next` pushes one new entry per call while this is positive
    refill: Cell<u32>,
    /// what arrives while `flush` runs: 0 nothing, 1 a push then a flush request, 2 a request
    inject_on_flush: Cell<u8>,
    arrived: RefCell<Vec<(FlushWait, u64)>>,
    producer: RefCell<Option<Producer<Tag>>>,
}

impl Ctl {
    fn push_one(&self) {
        let id = self.next_id.get();
        self.next_id.set(id + 1);
        let p = self.producer.borrow().as_ref().unwrap().clone();
        p.push(Tag(id));
    }
    fn queue_len(&self) -> usize {
        self.producer.borrow().as_ref().unwrap().queue_len()
    }
    /// an entry that never reached the stream may have been displaced only if at least
    /// `capacity` newer entries were appended
    fn may_be_displaced(&self, id: u64) -> bool {
        self.next_id.get() - 1 - id >= self.cap as u64
    }
    fn request(&self) -> (FlushWait, u64) {
        let p = self.producer.borrow().as_ref().unwrap().clone();
        (p.flush_async(), self.next_id.get())
    }
}

struct ScriptStream(Rc<Ctl>);
// the real builder wants a stream it could move into its thread; here the writer is stepped by
// the harness on this thread only
unsafe impl Send for ScriptStream {}

impl EntryIoStream for ScriptStream {
    fn next(&mut self, entry: &impl Entry) -> Result<(), IoStreamError> {
        let c = &self.0;
        let Some(id) = id_of(entry) else {
            c.log.borrow_mut().push(Log::Report);
            return Ok(());
        };
        // a scripted failure is transient: should the same entry ever be handed over again it is
        // accepted (on the unchanged tree no entry is handed over twice; a writer that re-queues
        // a failed entry then shows up as a duplicate out of order, not as an endless loop)
        let handed_before = c.log.borrow().iter().any(|l| matches!(l, Log::Next(i, _) if *i == id));
        let res = match c.mode {
            _ if handed_before => Res::Ok,
            Mode::AllOk | Mode::AllOkFlushFails => Res::Ok,
            Mode::AllIo => Res::Io,
            Mode::AllValidation | Mode::AllValidationFlushFails => Res::Val,
            Mode::Mixed => [Res::Ok, Res::Io, Res::Val][(id % 3) as usize],
        };
        c.log.borrow_mut().push(Log::Next(id, res));
        if c.refill.get() > 0 {
            c.refill.set(c.refill.get() - 1);
            c.push_one();
        }
        match res {
            Res::Ok => Ok(()),
            // (the kind of an I/O error is the stream's business: the queue treats them alike,
            // also those that elsewhere invite a retry)
            Res::Io => Err(IoStreamError::Io(std::io::Error::new([std::io::ErrorKind::Other, std::io::ErrorKind::WouldBlock, std::io::ErrorKind::Interrupted, std::io::ErrorKind::TimedOut][(id % 4) as usize], "scripted"))),
            Res::Val => Err(IoStreamError::Validation(ValidationError::invalid("scripted"))),
        }
    }
    fn flush(&mut self) -> std::io::Result<()> {
        let c = &self.0;
        c.log.borrow_mut().push(Log::Flush);
        match c.inject_on_flush.replace(0) {
            1 => {
                c.push_one();
                let r = c.request();
                c.arrived.borrow_mut().push(r);
            }
            2 => {
                let r = c.request();
                c.arrived.borrow_mut().push(r);
            }
            _ => {}
        }
        if matches!(c.mode, Mode::AllOkFlushFails | Mode::AllValidationFlushFails) {
            return Err(std::io::Error::other("scripted flush failure"));
        }
        Ok(())
    }
}

impl Drop for ScriptStream {
    fn drop(&mut self) {
        self.0.log.borrow_mut().push(Log::Dropped);
    }
}

// ---- a metrics.rs recorder that counts counter increments by name
#[derive(Clone, Default)]
struct Counts(Arc<Mutex<BTreeMap<String, u64>>>);
struct Cell1(String, Counts);
impl metrics_024::CounterFn for Cell1 {
    fn increment(&self, v: u64) {
        *self.1.0.lock().unwrap().entry(self.0.clone()).or_default() += v;
    }
    fn absolute(&self, v: u64) {
        self.1.0.lock().unwrap().insert(self.0.clone(), v);
    }
}
impl metrics_024::Recorder for Counts {
    fn describe_counter(&self, _: metrics_024::KeyName, _: Option<metrics_024::Unit>, _: metrics_024::SharedString) {}
    fn describe_gauge(&self, _: metrics_024::KeyName, _: Option<metrics_024::Unit>, _: metrics_024::SharedString) {}
    fn describe_histogram(&self, _: metrics_024::KeyName, _: Option<metrics_024::Unit>, _: metrics_024::SharedString) {}
    fn register_counter(&self, key: &metrics_024::Key, _: &metrics_024::Metadata<'_>) -> metrics_024::Counter {
        metrics_024::Counter::from_arc(Arc::new(Cell1(key.name().to_string(), self.clone())))
    }
    fn register_gauge(&self, _: &metrics_024::Key, _: &metrics_024::Metadata<'_>) -> metrics_024::Gauge {
        metrics_024::Gauge::noop()
    }
    fn register_histogram(&self, _: &metrics_024::Key, _: &metrics_024::Metadata<'_>) -> metrics_024::Histogram {
        metrics_024::Histogram::noop()
    }
}

#[derive(Clone, Copy, Debug, PartialEq, Eq, Hash, PartialOrd, Ord)]
pub enum Ev {
    Push,
    /// push until the queue is full
    Fill,
    Request,
    /// one real `drain_until_deadline` pass with a far deadline: runs until the queue is empty
    DrainFar,
    /// a pass whose clock check (after every 32nd entry) sees the deadline passed
    DrainPassed,
    /// like DrainPassed while a producer appends one entry per entry written (32 of them): the
    /// queue never runs empty during the pass
    DrainPassedRefilling,
    /// `handle_waiting_wakers(status, count of the last pass)`; the argument is what arrives
    /// while the stream is being flushed (0 nothing, 1 push + request, 2 request)
    Call(u8),
    /// the writer leaves its loop: real `shut_down`, then the tracker is dropped (terminal).
    /// true: the join handle asked for it (flag set); false: no queue handle is left
    ShutDown(bool),
}

struct Req {
    fut: Pin<Box<FlushWait>>,
    /// ids below this were appended before the request
    before: u64,
    complete: bool,
    /// entries handed to the stream / calls made since the first call after the request
    nexts_at_first_call: Option<usize>,
    calls: u32,
}

struct World {
    ctl: Rc<Ctl>,
    writer: Option<Writer<ScriptStream, Tag>>,
    counts: Counts,
    latched: Option<(Status, usize)>,
    reqs: Vec<Req>,
    shut: bool,
}

fn nexts(log: &[Log]) -> usize {
    log.iter().filter(|l| matches!(l, Log::Next(..))).count()
}

impl World {
    fn new(cap: usize, mode: Mode, short_shutdown_timeout: bool) -> World {
        let ctl = Rc::new(Ctl {
            cap,
            mode,
            log: Default::default(),
            next_id: Cell::new(0),
            refill: Cell::new(0),
            inject_on_flush: Cell::new(0),
            arrived: Default::default(),
            producer: RefCell::new(None),
        });
        let counts = Counts::default();
        let mut builder = BackgroundQueueBuilder::new().capacity(cap).metrics_recorder_local::<dyn metrics_024::Recorder, _>(counts.clone());
        if short_shutdown_timeout {
            // a configured drain time below one second (still ample: a drain pass of the model
            // takes microseconds)
            builder = builder.shutdown_timeout(std::time::Duration::from_millis(999));
        }
        let (producer, writer) = builder.__verif_build_unstarted::<ScriptStream, Tag>(ScriptStream(ctl.clone()));
        *ctl.producer.borrow_mut() = Some(producer);
        World { ctl, writer: Some(writer), counts, latched: None, reqs: Vec::new(), shut: false }
    }

    fn enabled(&self, max_reqs: usize) -> Vec<Ev> {
        if self.shut {
            return vec![];
        }
        let open = self.reqs.iter().filter(|r| !r.complete).count();
        let mut v = vec![Ev::Push];
        if self.ctl.queue_len() + 1 < self.ctl.cap {
            v.push(Ev::Fill);
        }
        if open < max_reqs {
            v.push(Ev::Request);
        }
        match self.latched {
            Some(_) => {
                v.push(Ev::Call(0));
                if open < max_reqs {
                    v.push(Ev::Call(1));
                    v.push(Ev::Call(2));
                }
            }
            None => {
                v.push(Ev::DrainFar);
                if self.ctl.queue_len() > 0 {
                    v.push(Ev::DrainPassed);
                    v.push(Ev::DrainPassedRefilling);
                }
                v.push(Ev::ShutDown(true));
                v.push(Ev::ShutDown(false));
            }
        }
        v
    }

    fn add_req(&mut self, fut: FlushWait, before: u64) {
        self.reqs.push(Req { fut: Box::pin(fut), before, complete: false, nexts_at_first_call: None, calls: 0 });
    }

    /// returns violations (property, key, text) found after this event
    fn apply(&mut self, ev: Ev) -> Vec<(&'static str, String, String)> {
        let ctl = self.ctl.clone();
        match ev {
            Ev::Push => ctl.push_one(),
            Ev::Fill => {
                while ctl.queue_len() < ctl.cap {
                    ctl.push_one();
                }
            }
            Ev::Request => {
                let (f, before) = ctl.request();
                self.add_req(f, before);
            }
            Ev::DrainFar => self.latched = Some(self.writer.as_mut().unwrap().drain(false)),
            Ev::DrainPassed => self.latched = Some(self.writer.as_mut().unwrap().drain(true)),
            Ev::DrainPassedRefilling => {
                ctl.refill.set(32);
                self.latched = Some(self.writer.as_mut().unwrap().drain(true));
                ctl.refill.set(0);
            }
            Ev::Call(inject) => {
                let (status, count) = self.latched.take().expect("enabled only when latched");
                ctl.inject_on_flush.set(inject);
                self.writer.as_mut().unwrap().handle_waiting_wakers(status, count);
                ctl.inject_on_flush.set(0);
                let n = nexts(&ctl.log.borrow());
                for r in &mut self.reqs {
                    if !r.complete {
                        r.calls += 1;
                        r.nexts_at_first_call.get_or_insert(n);
                    }
                }
                let arrived: Vec<_> = ctl.arrived.borrow_mut().drain(..).collect();
                for (f, before) in arrived {
                    self.add_req(f, before);
                }
            }
            Ev::ShutDown(signalled) => {
                self.writer.take().unwrap().shut_down(signalled);
                self.shut = true;
            }
        }
        self.judge(ev)
    }

    fn judge(&mut self, ev: Ev) -> Vec<(&'static str, String, String)> {
        let mut out: Vec<(&'static str, String, String)> = Vec::new();
        let ctl = &self.ctl;
        let log = ctl.log.borrow();
        let cap = ctl.cap;
        // ---- C09 / C01: order, exactly once
        let mut seen: Vec<u64> = Vec::new();
        for l in log.iter() {
            if let Log::Next(id, _) = l {
                if seen.contains(id) {
                    out.push(("C01", "writer:entry-duplicated".into(), format!("entry {id} was handed to the stream twice")));
                }
                if let Some(last) = seen.last() {
                    if last > id {
                        out.push(("C09", "writer:order".into(), format!("entry {id} reached the stream after entry {last}")));
                        out.push(("C01", "writer:order".into(), format!("entry {id} reached the stream after entry {last}")));
                    }
                }
                seen.push(*id);
            }
        }
        // nothing nobody appended reaches the stream, except the in-band error report after a
        // validation failure
        let mut rejected_before = false;
        for l in log.iter() {
            match l {
                Log::Next(_, Res::Val) => rejected_before = true,
                Log::Report if !rejected_before => {
                    out.push(("C01", "writer:entry-nobody-appended".into(), "the stream was handed an error-report entry although no entry had been rejected as invalid before".to_string()));
                    break;
                }
                _ => {}
            }
        }
        let overflows = self.counts.0.lock().unwrap().get("metrique_queue_overflows").copied().unwrap_or(0);
        // the first `capacity` appends cannot discard anything
        if overflows > ctl.next_id.get().saturating_sub(cap as u64) {
            out.push(("C09", "writer:overflow-counter".into(), format!("{} entries were appended to a queue of capacity {cap}, the overflow counter says {overflows}", ctl.next_id.get())));
        }
        // ---- C04: completion implies written + flushed; bounded response
        let noop = Waker::noop();
        let mut cx = Context::from_waker(noop);
        let total_nexts = nexts(&log);
        for r in &mut self.reqs {
            if r.complete {
                continue;
            }
            if let Poll::Ready(()) = r.fut.as_mut().poll(&mut cx) {
                r.complete = true;
                let mut last_next = None;
                for id in 0..r.before {
                    match log.iter().rposition(|l| matches!(l, Log::Next(i, _) if *i == id)) {
                        Some(p) => last_next = last_next.max(Some(p)),
                        None => {
                            if !ctl.may_be_displaced(id) {
                                out.push(("C04", "writer:completed-before-write".into(), format!("a flush request completed (at {ev:?}) but entry {id}, appended before it, has not been handed to the stream")));
                            }
                        }
                    }
                }
                if let Some(p) = last_next {
                    if !log[p + 1..].iter().any(|l| *l == Log::Flush) {
                        out.push(("C04", "writer:completed-without-flush-after-last-entry".into(), format!("a flush request completed (at {ev:?}) but the stream was not flushed after entry written at log position {p}")));
                    }
                }
            } else {
                if self.shut {
                    out.push(("C04", "writer:request-pending-after-shutdown".into(), "a flush request is still pending after the writer shut down".into()));
                }
                // bounded response, counted from the first call after the request: an older collected
                // request completes within ceil(cap/32) passes, then this one is collected and needs as
                // many again: 32 * (2 * ceil(cap/32) - 1) < 2 * (cap + 32) entries
                if let Some(n0) = r.nexts_at_first_call {
                    let handed = total_nexts - n0;
                    if handed >= 2 * (cap + 32) && r.calls >= 3 {
                        out.push(("C04", "writer:flush-not-completed-after-bounded-progress".into(), format!("a flush request is still pending after {handed} entries were handed to the stream and {} waker calls (capacity {cap}, stream answers {:?})", r.calls, ctl.mode)));
                    }
                }
            }
        }
        // ---- shutdown: final drain, flush, close
        if self.shut {
            // now it is decided which entries were discarded: those that never reached the stream
            let lost: Vec<u64> = (0..ctl.next_id.get()).filter(|id| !seen.contains(id)).collect();
            for id in &lost {
                if !ctl.may_be_displaced(*id) {
                    for p in ["C01", "C05", "C09"] {
                        out.push((p, "writer:entry-lost-at-shutdown".into(), format!("the writer shut down but entry {id} never reached the stream although fewer than {cap} newer entries were appended (stream answers {:?})", ctl.mode)));
                    }
                }
            }
            if overflows != lost.len() as u64 {
                out.push(("C09", "writer:overflow-counter".into(), format!("{} entries were discarded (never reached the stream), the overflow counter says {overflows}", lost.len())));
            }
            let last_next = log.iter().rposition(|l| matches!(l, Log::Next(..)));
            let last_flush = log.iter().rposition(|l| *l == Log::Flush);
            if last_flush.is_none() || last_next.map(|n| last_flush.unwrap() < n).unwrap_or(false) {
                out.push(("C05", "writer:shutdown-without-final-flush".into(), "the writer shut down without flushing the stream after the last entry".into()));
            }
            if log.last() != Some(&Log::Dropped) {
                out.push(("C05", "writer:shutdown-without-close".into(), "the writer shut down but the stream was not dropped last".into()));
            }
        }
        out
    }

    fn key(&mut self) -> (usize, Option<(bool, usize)>, usize, usize, Vec<(u64, bool, Option<usize>, u32)>, u64, bool) {
        let qlen = self.ctl.queue_len();
        let total = nexts(&self.ctl.log.borrow());
        let base = self.ctl.next_id.get();
        let (waiting, ebw) = match &self.writer {
            Some(w) => (w.waiting(), w.entries_before_wake()),
            None => (0, 0),
        };
        // flushed since the last write? (matters for the flush-after-last-entry oracle)
        let log = self.ctl.log.borrow();
        let flushed_after_last = match log.iter().rposition(|l| matches!(l, Log::Next(..))) {
            Some(p) => log[p + 1..].iter().any(|l| *l == Log::Flush),
            None => true,
        };
        (
            qlen,
            self.latched.map(|(s, c)| (s == Status::Drained, c)),
            waiting,
            ebw,
            self.reqs.iter().filter(|r| !r.complete).map(|r| (base - r.before, r.complete, r.nexts_at_first_call.map(|n| total - n), r.calls)).collect(),
            // appended - handed to the stream - still in the ring - counted as overflow (0 unless the
            // writer keeps entries elsewhere or miscounts)
            (base + 1_000_000 - total as u64 - qlen as u64) - self.counts.0.lock().unwrap().get("metrique_queue_overflows").copied().unwrap_or(0),
            flushed_after_last,
        )
    }
}

#[derive(Default)]
struct St {
    states: u64,
    transitions: u64,
    completed: u64,
    shutdowns: u64,
    v: Violations,
}

fn replay(cap: usize, mode: Mode, short: bool, hist: &[Ev]) -> (World, Vec<(&'static str, String, String)>) {
    let mut w = World::new(cap, mode, short);
    let mut bad = Vec::new();
    watchdog::enter(cap, mode, short, hist);
    for e in hist {
        let r = w.apply(*e);
        if bad.is_empty() {
            bad = r;
        }
    }
    watchdog::leave();
    (w, bad)
}

/// A step of the code under test that never returns (an append spinning in a retry loop, a drain
/// pass that never ends) would hang the search. Every replay announces itself here; a monitor
/// thread reports a replay that has been running for 30 s (a replay is at most 13 operations of
/// microseconds each) - as a violation where the property covers the operation that hangs, as
/// a machinery failure (exit 2, no verdict) otherwise - and ends the process.
mod watchdog {
    use super::{Ev, Mode};
    use std::sync::{Arc, Mutex, OnceLock};
    use std::time::Instant;

    type Slot = Arc<Mutex<Option<(Instant, usize, Mode, bool, Vec<Ev>)>>>;
    static SLOTS: OnceLock<Mutex<Vec<Slot>>> = OnceLock::new();
    thread_local! {
        static MINE: Slot = {
            let s: Slot = Default::default();
            SLOTS.get_or_init(Default::default).lock().unwrap().push(s.clone());
            s
        };
    }
    pub fn enter(cap: usize, mode: Mode, short: bool, hist: &[Ev]) {
        MINE.with(|m| *m.lock().unwrap() = Some((Instant::now(), cap, mode, short, hist.to_vec())));
    }
    pub fn leave() {
        MINE.with(|m| *m.lock().unwrap() = None);
    }
    /// the replay that has been running longest, if longer than `secs`
    pub fn stuck(secs: u64) -> Option<(usize, Mode, bool, Vec<Ev>)> {
        let slots = SLOTS.get_or_init(Default::default).lock().unwrap();
        for s in slots.iter() {
            if let Some((t, cap, mode, short, hist)) = s.lock().unwrap().as_ref() {
                if t.elapsed().as_secs() >= secs {
                    return Some((*cap, *mode, *short, hist.clone()));
                }
            }
        }
        None
    }
}

/// Does `prop` say anything about the operation `ev` never returning?
fn covers_hang(prop: &str, ev: Ev) -> bool {
    match ev {
        // an append that does not return
        Ev::Push | Ev::Fill => prop == "C09",
        // the writer side: entries never reach the stream (C01), a flush request never
        // completes (C04), the shutdown never ends (C05); a refilling pass also appends (C09)
        Ev::DrainPassedRefilling => true,
        Ev::Request | Ev::DrainFar | Ev::DrainPassed | Ev::Call(_) => prop != "C09",
        Ev::ShutDown(_) => prop != "C09",
    }
}

fn start_watchdog(prop: &'static str) {
    std::thread::spawn(move || loop {
        std::thread::sleep(std::time::Duration::from_secs(2));
        if let Some((cap, mode, short, hist)) = watchdog::stuck(30) {
            // which operation hangs: replay the history with a per-operation announcement
            let names: Vec<String> = hist.iter().map(|e| format!("{e:?}")).collect();
            let last = *hist.last().expect("a replay of the empty history does nothing");
            // (the hanging operation is the last one: every proper prefix was replayed before)
            if covers_hang(prop, last) {
                let mut rep = Report::from_args(prop, "model_checking");
                rep.set("exhaustive", false);
                rep.set("aborted_by_watchdog", true);
                rep.violations.add(
                    format!("operation-does-not-return:{}", format!("{last:?}").split('(').next().unwrap_or("")),
                    format!("capacity {cap}, stream answers {mode:?}{}: after {:?} the operation {last:?} on the real queue / writer has not returned for 30 s (the search was abandoned)", if short { ", shutdown_timeout 999 ms" } else { "" }, &names[..names.len() - 1]),
                    json!({"capacity": cap, "stream_answers": format!("{mode:?}"), "shutdown_timeout_999ms": short, "history": names, "hangs_in": format!("{last:?}")}),
                );
                rep.finish();
            } else {
                println!("MACHINERY-FAILURE: property={prop} the operation {last:?} (after {:?}, capacity {cap}, {mode:?}) has not returned for 30 s; {prop} says nothing about it, and the search cannot continue", &names[..names.len() - 1]);
                std::process::exit(2);
            }
        }
    });
}

/// A subscriber that accepts everything and records nothing.
struct Quiet;
impl tracing::Subscriber for Quiet {
    fn enabled(&self, _: &tracing::Metadata<'_>) -> bool {
        true
    }
    fn new_span(&self, _: &tracing::span::Attributes<'_>) -> tracing::span::Id {
        tracing::span::Id::from_u64(1)
    }
    fn record(&self, _: &tracing::span::Id, _: &tracing::span::Record<'_>) {}
    fn record_follows_from(&self, _: &tracing::span::Id, _: &tracing::span::Id) {}
    fn event(&self, _: &tracing::Event<'_>) {}
    fn enter(&self, _: &tracing::span::Id) {}
    fn exit(&self, _: &tracing::span::Id) {}
}

/// C01, "nothing else reaches the stream except the in-band error report, written after a
/// validation failure when NO tracing subscriber is installed": one fixed history in which the
/// environment changes - a subscriber is installed after the queue's first validation failure.
/// It runs before the parallel search because the report's rate limiter (1 s, real time in
/// this build) is a process-wide static.
fn subscriber_installed_later(rep: &mut Report) {
    let reports = |w: &World| w.ctl.log.borrow().iter().filter(|l| **l == Log::Report).count();
    let mut w = World::new(8, Mode::AllValidation, false);
    w.apply(Ev::Push);
    w.apply(Ev::DrainFar);
    w.apply(Ev::Call(0));
    let first = reports(&w);
    std::thread::sleep(std::time::Duration::from_millis(1100)); // the limiter's interval
    let installed = tracing::subscriber::set_default(Quiet);
    w.apply(Ev::Push);
    w.apply(Ev::DrainFar);
    w.apply(Ev::Call(0));
    let second = reports(&w) - first;
    drop(installed);
    rep.set("writer_model_subscriber_installed_later", json!({"reports_without_subscriber": first, "reports_after_a_subscriber_was_installed": second}));
    if first != 1 {
        // not the property's business how often it reports, but the scenario below needs the first report
        rep.assume("the fixed history 'subscriber installed later' did not see exactly one report for the first validation failure");
    }
    if second != 0 {
        rep.violation(
            "writer:error-report-written-although-a-subscriber-is-installed",
            format!("after a tracing subscriber was installed, {second} in-band error report(s) were still written to the stream"),
            json!({"history": ["Push (rejected by validation, no subscriber): report entry written", "sleep 1.1 s", "install a tracing subscriber", "Push (rejected by validation)", "DrainFar"], "reports_after_install": second}),
        );
    }
}

/// An entry that is 8 KiB wide (the queue's slots hold entries inline).
pub struct Wide {
    id: u64,
    _pad: [u8; 8184],
}
impl Entry for Wide {
    fn write<'a>(&'a self, w: &mut impl EntryWriter<'a>) {
        w.value("id", &self.id);
    }
}
struct IdStream(Arc<Mutex<Vec<u64>>>);
impl EntryIoStream for IdStream {
    fn next(&mut self, entry: &impl Entry) -> Result<(), IoStreamError> {
        if let Some(id) = id_of(entry) {
            self.0.lock().unwrap().push(id);
        }
        Ok(())
    }
    fn flush(&mut self) -> std::io::Result<()> {
        Ok(())
    }
}

/// C09, "lost only if at least `capacity` newer entries were appended", for a configured
/// capacity and entry width whose product is large (128 MiB): exactly `capacity` appends to a
/// stalled writer lose nothing, `capacity + extra` lose exactly the `extra` oldest.
fn wide_entries_keep_their_capacity(rep: &mut Report) {
    let cap = 16_384usize;
    let mut runs = vec![];
    for extra in [0usize, 10] {
        let seen = Arc::new(Mutex::new(Vec::new()));
        let counts = Counts::default();
        let (producer, writer) = BackgroundQueueBuilder::new()
            .capacity(cap)
            .metrics_recorder_local::<dyn metrics_024::Recorder, _>(counts.clone())
            .__verif_build_unstarted::<IdStream, Wide>(IdStream(seen.clone()));
        for id in 0..(cap + extra) as u64 {
            producer.push(Wide { id, _pad: [0; 8184] });
        }
        writer.shut_down(true);
        let seen = seen.lock().unwrap().clone();
        let overflows = counts.0.lock().unwrap().get("metrique_queue_overflows").copied().unwrap_or(0);
        let expect: Vec<u64> = (extra as u64..(cap + extra) as u64).collect();
        runs.push(json!({"capacity": cap, "entry_bytes": std::mem::size_of::<Wide>(), "appended": cap + extra, "reached_the_stream": seen.len(), "overflow_counter": overflows}));
        if seen != expect || overflows != extra as u64 {
            rep.violation(
                "writer:wide-entries-lost-below-capacity",
                format!("capacity {cap}, {}-byte entries, {} appended to a stalled writer: {} reached the stream (expected the newest {cap}), overflow counter {overflows} (expected {extra})", std::mem::size_of::<Wide>(), cap + extra, seen.len()),
                json!({"capacity": cap, "entry_bytes": std::mem::size_of::<Wide>(), "appended": cap + extra, "reached_the_stream": seen.len(), "first_id_seen": seen.first(), "overflow_counter": overflows}),
            );
        }
    }
    // a capacity above the default (65536) set BEFORE the naming options: every option of the
    // builder must survive the ones set after it
    {
        let cap = 70_000usize;
        let seen = Arc::new(Mutex::new(Vec::new()));
        let counts = Counts::default();
        let (producer, writer) = BackgroundQueueBuilder::new()
            .capacity(cap)
            .metrics_recorder_local::<dyn metrics_024::Recorder, _>(counts.clone())
            .flush_interval(std::time::Duration::from_secs(7))
            .thread_name("vh-writer")
            .metric_name("vh-queue")
            .__verif_build_unstarted::<IdStream, Tag>(IdStream(seen.clone()));
        for id in 0..(cap + 5) as u64 {
            producer.push(Tag(id));
        }
        writer.shut_down(true);
        let seen = seen.lock().unwrap().clone();
        let overflows = counts.0.lock().unwrap().get("metrique_queue_overflows").copied().unwrap_or(0);
        runs.push(json!({"capacity": cap, "options_set_after_capacity": ["metrics_recorder_local", "flush_interval", "thread_name", "metric_name"], "appended": cap + 5, "reached_the_stream": seen.len(), "overflow_counter": overflows}));
        let expect: Vec<u64> = (5..(cap + 5) as u64).collect();
        if seen != expect || overflows != 5 {
            rep.violation(
                "writer:capacity-not-the-configured-one",
                format!("capacity({cap}) followed by recorder / flush_interval / thread_name / metric_name, {} appended to a stalled writer: {} reached the stream (expected the newest {cap}), overflow counter {overflows} (expected 5)", cap + 5, seen.len()),
                json!({"capacity": cap, "appended": cap + 5, "reached_the_stream": seen.len(), "overflow_counter": overflows}),
            );
        }
    }
    rep.set("writer_model_wide_entries", json!(runs));
}

/// A recorder that, when told about an overflow, appends one more entry to the same queue on the
/// same thread (a metrics pipeline or tracing layer that feeds back into the queue it observes);
/// a nested report does not append again.
#[derive(Clone)]
struct FeedbackRecorder {
    counts: Counts,
    producer: Arc<Mutex<Option<Producer<Tag>>>>,
    depth: Arc<std::sync::atomic::AtomicUsize>,
    next_id: Arc<std::sync::atomic::AtomicU64>,
}
struct FeedbackCell(String, FeedbackRecorder);
impl metrics_024::CounterFn for FeedbackCell {
    fn increment(&self, v: u64) {
        use std::sync::atomic::Ordering::SeqCst;
        let r = &self.1;
        *r.counts.0.lock().unwrap().entry(self.0.clone()).or_default() += v;
        if self.0 == "metrique_queue_overflows" && r.depth.fetch_add(1, SeqCst) == 0 {
            let p = r.producer.lock().unwrap().clone();
            if let Some(p) = p {
                p.push(Tag(r.next_id.fetch_add(1, SeqCst)));
            }
        }
        if self.0 == "metrique_queue_overflows" {
            r.depth.fetch_sub(1, SeqCst);
        }
    }
    fn absolute(&self, v: u64) {
        self.1.counts.0.lock().unwrap().insert(self.0.clone(), v);
    }
}
impl metrics_024::Recorder for FeedbackRecorder {
    fn describe_counter(&self, _: metrics_024::KeyName, _: Option<metrics_024::Unit>, _: metrics_024::SharedString) {}
    fn describe_gauge(&self, _: metrics_024::KeyName, _: Option<metrics_024::Unit>, _: metrics_024::SharedString) {}
    fn describe_histogram(&self, _: metrics_024::KeyName, _: Option<metrics_024::Unit>, _: metrics_024::SharedString) {}
    fn register_counter(&self, key: &metrics_024::Key, _: &metrics_024::Metadata<'_>) -> metrics_024::Counter {
        metrics_024::Counter::from_arc(Arc::new(FeedbackCell(key.name().to_string(), self.clone())))
    }
    fn register_gauge(&self, _: &metrics_024::Key, _: &metrics_024::Metadata<'_>) -> metrics_024::Gauge {
        metrics_024::Gauge::noop()
    }
    fn register_histogram(&self, _: &metrics_024::Key, _: &metrics_024::Metadata<'_>) -> metrics_024::Histogram {
        metrics_024::Histogram::noop()
    }
}

/// C09, the overflow counter with re-entrancy: every overflow report appends one more entry to
/// the same (full) queue from inside the report. Whatever is appended and never reaches the
/// stream has been discarded, and the counter says how many that is. Capacities 1..=5, 0..=12
/// appends by the caller, writer stalled until the shutdown drain.
fn overflow_counter_with_feedback(rep: &mut Report) {
    use std::sync::atomic::Ordering::SeqCst;
    let mut cases = 0u64;
    for cap in 1usize..=5 {
        for appends in 0u64..=12 {
            cases += 1;
            let seen = Arc::new(Mutex::new(Vec::new()));
            let rec = FeedbackRecorder { counts: Counts::default(), producer: Default::default(), depth: Default::default(), next_id: Arc::new(std::sync::atomic::AtomicU64::new(1000)) };
            let (producer, writer) = BackgroundQueueBuilder::new()
                .capacity(cap)
                .metrics_recorder_local::<dyn metrics_024::Recorder, _>(rec.clone())
                .__verif_build_unstarted::<IdStream, Tag>(IdStream(seen.clone()));
            *rec.producer.lock().unwrap() = Some(producer.clone());
            for id in 0..appends {
                producer.push(Tag(id));
            }
            *rec.producer.lock().unwrap() = None;
            writer.shut_down(true);
            let seen = seen.lock().unwrap().clone();
            let fed_back = rec.next_id.load(SeqCst) - 1000;
            let appended = appends + fed_back;
            let discarded = appended - seen.len() as u64;
            let overflows = rec.counts.0.lock().unwrap().get("metrique_queue_overflows").copied().unwrap_or(0);
            if overflows != discarded {
                rep.violation(
                    "writer:overflow-counter:report-feeds-back-into-the-queue",
                    format!("capacity {cap}: {appends} entries appended by the caller and {fed_back} from inside overflow reports, {} reached the stream, so {discarded} were discarded; the overflow counter says {overflows}", seen.len()),
                    json!({"capacity": cap, "appended_by_caller": appends, "appended_from_inside_overflow_reports": fed_back, "reached_the_stream": seen, "overflow_counter": overflows}),
                );
            }
        }
    }
    rep.set("writer_model_overflow_reports_feeding_back", cases);
}

/// C01 / C04 with the smallest legal configuration: a flush interval of 1 ns (the builder accepts
/// anything above zero) on a REAL queue with its writer thread. Fixed scenario with real time: 15
/// entries appended to a live queue (capacity 64, nothing overflows) reach the stream, in order,
/// and a flush request completes, within 30 s - orders of magnitude more than the microseconds
/// this takes; a writer that never gets to its drain pass is what the bound is for.
fn smallest_flush_interval(rep: &mut Report, prop: &str) {
    let seen = Arc::new(Mutex::new(Vec::new()));
    let (queue, handle) = BackgroundQueueBuilder::new()
        .capacity(64)
        .flush_interval(std::time::Duration::from_nanos(1))
        .build::<Tag>(IdStream(seen.clone()));
    use metrique_writer::EntrySink;
    for id in 0..15u64 {
        queue.append(Tag(id));
    }
    let fut = queue.flush_async();
    let (tx, rx) = std::sync::mpsc::channel();
    let waiter = std::thread::spawn(move || {
        futures_block_on(fut);
        let _ = tx.send(());
    });
    let flushed = rx.recv_timeout(std::time::Duration::from_secs(30)).is_ok();
    let got = seen.lock().unwrap().clone();
    let expect: Vec<u64> = (0..15).collect();
    rep.set("writer_model_flush_interval_1ns", json!({"appended": 15, "reached_the_stream_within_30s": got.len(), "flush_request_completed_within_30s": flushed}));
    if prop == "C01" && got != expect {
        rep.violation(
            "writer:live-queue-does-not-deliver:flush-interval-1ns",
            format!("flush_interval(1 ns), capacity 64: 15 entries appended to the live queue, after 30 s the stream has seen {got:?}"),
            json!({"flush_interval_ns": 1, "capacity": 64, "appended": 15, "reached_the_stream": got}),
        );
    }
    if prop == "C04" && !flushed {
        rep.violation(
            "writer:flush-request-never-completes:flush-interval-1ns",
            "flush_interval(1 ns), capacity 64: a flush request made after 15 appends has not completed after 30 s".to_string(),
            json!({"flush_interval_ns": 1, "capacity": 64, "appended": 15, "reached_the_stream": got}),
        );
    }
    if flushed {
        let _ = waiter.join();
        drop(queue);
        drop(handle);
    } else {
        // the writer is not making progress: do not join it
        std::mem::forget(waiter);
        std::mem::forget(handle);
    }
}

/// minimal block_on (no runtime needed: FlushWait is woken by the writer thread)
fn futures_block_on<F: std::future::Future>(fut: F) -> F::Output {
    struct Unpark(std::thread::Thread);
    impl std::task::Wake for Unpark {
        fn wake(self: Arc<Self>) {
            self.0.unpark();
        }
    }
    let waker = std::task::Waker::from(Arc::new(Unpark(std::thread::current())));
    let mut cx = Context::from_waker(&waker);
    let mut fut = std::pin::pin!(fut);
    loop {
        if let std::task::Poll::Ready(v) = fut.as_mut().poll(&mut cx) {
            return v;
        }
        std::thread::park_timeout(std::time::Duration::from_millis(50));
    }
}

/// C09, the overflow counter through the OTHER recorder route: `metrics_recorder_global` reports
/// to whichever metrics.rs recorder is in effect when an entry is discarded. Overflows under
/// recorder A, then under recorder B (`with_local_recorder` scopes), capacities 1..=4, 1..=4
/// discards under each: every recorder counts exactly the discards that happened under it.
fn overflow_counter_through_the_global_route(rep: &mut Report) {
    let mut cases = 0u64;
    for cap in 1usize..=4 {
        for under_a in 1u64..=4 {
            for under_b in 1u64..=4 {
                cases += 1;
                let seen = Arc::new(Mutex::new(Vec::new()));
                let (producer, writer) = BackgroundQueueBuilder::new()
                    .capacity(cap)
                    .metrics_recorder_global::<dyn metrics_024::Recorder>()
                    .__verif_build_unstarted::<IdStream, Tag>(IdStream(seen.clone()));
                let (a, b) = (Counts::default(), Counts::default());
                let mut id = 0u64;
                for _ in 0..cap {
                    producer.push(Tag(id));
                    id += 1;
                }
                metrics_024::with_local_recorder(&a, || {
                    for _ in 0..under_a {
                        producer.push(Tag(id));
                        id += 1;
                    }
                });
                metrics_024::with_local_recorder(&b, || {
                    for _ in 0..under_b {
                        producer.push(Tag(id));
                        id += 1;
                    }
                });
                writer.shut_down(true);
                let got = |c: &Counts| c.0.lock().unwrap().get("metrique_queue_overflows").copied().unwrap_or(0);
                if got(&a) != under_a || got(&b) != under_b {
                    rep.violation(
                        "writer:overflow-counter:global-recorder-route",
                        format!("capacity {cap}, metrics_recorder_global: {under_a} entries were discarded while recorder A was in effect and {under_b} under recorder B; A counted {}, B counted {}", got(&a), got(&b)),
                        json!({"capacity": cap, "discarded_under_recorder_a": under_a, "discarded_under_recorder_b": under_b, "counted_by_a": got(&a), "counted_by_b": got(&b)}),
                    );
                }
            }
        }
    }
    rep.set("writer_model_overflow_counter_global_route_cases", cases);
}

/// a stream that tells when it has been dropped
struct ClosingStream(Arc<Mutex<Vec<u64>>>, Arc<std::sync::atomic::AtomicBool>);
impl EntryIoStream for ClosingStream {
    fn next(&mut self, entry: &impl Entry) -> Result<(), IoStreamError> {
        if let Some(id) = id_of(entry) {
            self.0.lock().unwrap().push(id);
        }
        Ok(())
    }
    fn flush(&mut self) -> std::io::Result<()> {
        Ok(())
    }
}
impl Drop for ClosingStream {
    fn drop(&mut self) {
        self.1.store(true, std::sync::atomic::Ordering::SeqCst);
    }
}

/// C05, "if the join handle is forgotten ... the background thread then exits rather than
/// running forever", for every way of abandoning the handle: `forget()`, `mem::forget`, a leaked
/// box. Fixed scenario on a REAL queue (writer thread, 10 ms flush interval): three entries, all
/// queue handles dropped; the stream has seen them and has been dropped within 30 s.
fn abandoned_join_handle(rep: &mut Report) {
    use metrique_writer::EntrySink;
    let mut runs = vec![];
    for how in ["forget()", "std::mem::forget", "Box::leak"] {
        let seen = Arc::new(Mutex::new(Vec::new()));
        let closed = Arc::new(std::sync::atomic::AtomicBool::new(false));
        let (queue, handle) = BackgroundQueueBuilder::new()
            .capacity(16)
            .flush_interval(std::time::Duration::from_millis(10))
            .build::<Tag>(ClosingStream(seen.clone(), closed.clone()));
        match how {
            "forget()" => handle.forget(),
            "std::mem::forget" => std::mem::forget(handle),
            _ => {
                Box::leak(Box::new(handle));
            }
        }
        for id in 0..3u64 {
            queue.append(Tag(id));
        }
        drop(queue);
        let t0 = std::time::Instant::now();
        while !closed.load(std::sync::atomic::Ordering::SeqCst) && t0.elapsed() < std::time::Duration::from_secs(30) {
            std::thread::sleep(std::time::Duration::from_millis(5));
        }
        let is_closed = closed.load(std::sync::atomic::Ordering::SeqCst);
        let got = seen.lock().unwrap().clone();
        runs.push(json!({"join_handle_abandoned_by": how, "stream_dropped_within_30s": is_closed, "reached_the_stream": got}));
        if !is_closed || got != vec![0, 1, 2] {
            rep.violation(
                "writer:abandoned-join-handle:writer-does-not-shut-down",
                format!("the join handle was abandoned through {how} and the last queue handle dropped: after {} the stream has {}been dropped and has seen {got:?}", if is_closed { "that" } else { "30 s" }, if is_closed { "" } else { "NOT " }),
                json!({"join_handle_abandoned_by": how, "stream_dropped": is_closed, "reached_the_stream": got}),
            );
        }
    }
    // the queue is built while a scoped tracing subscriber is current that itself owns a handle of
    // the queue (it turns log lines into entries); handle forgotten, the user's handles and the
    // subscriber dropped: nobody can append any more
    {
        struct Holding(Arc<Mutex<Option<metrique_writer::sink::BackgroundQueue<Tag>>>>);
        impl tracing::Subscriber for Holding {
            fn enabled(&self, _: &tracing::Metadata<'_>) -> bool {
                true
            }
            fn new_span(&self, _: &tracing::span::Attributes<'_>) -> tracing::span::Id {
                tracing::span::Id::from_u64(1)
            }
            fn record(&self, _: &tracing::span::Id, _: &tracing::span::Record<'_>) {}
            fn record_follows_from(&self, _: &tracing::span::Id, _: &tracing::span::Id) {}
            fn event(&self, _: &tracing::Event<'_>) {}
            fn enter(&self, _: &tracing::span::Id) {}
            fn exit(&self, _: &tracing::span::Id) {}
        }
        let slot: Arc<Mutex<Option<metrique_writer::sink::BackgroundQueue<Tag>>>> = Default::default();
        let dispatch = tracing::Dispatch::new(Holding(slot.clone()));
        let seen = Arc::new(Mutex::new(Vec::new()));
        let closed = Arc::new(std::sync::atomic::AtomicBool::new(false));
        let (queue, handle) = tracing::dispatcher::with_default(&dispatch, || {
            BackgroundQueueBuilder::new()
                .capacity(16)
                .flush_interval(std::time::Duration::from_millis(10))
                .build::<Tag>(ClosingStream(seen.clone(), closed.clone()))
        });
        *slot.lock().unwrap() = Some(queue.clone());
        handle.forget();
        for id in 0..3u64 {
            queue.append(Tag(id));
        }
        drop(queue);
        drop(slot);
        drop(dispatch);
        let t0 = std::time::Instant::now();
        while !closed.load(std::sync::atomic::Ordering::SeqCst) && t0.elapsed() < std::time::Duration::from_secs(30) {
            std::thread::sleep(std::time::Duration::from_millis(5));
        }
        let is_closed = closed.load(std::sync::atomic::Ordering::SeqCst);
        let got = seen.lock().unwrap().clone();
        runs.push(json!({"join_handle_abandoned_by": "forget(), queue built under a scoped subscriber that owns a queue handle", "stream_dropped_within_30s": is_closed, "reached_the_stream": got}));
        if !is_closed || got != vec![0, 1, 2] {
            rep.violation(
                "writer:abandoned-join-handle:writer-does-not-shut-down",
                format!("the queue was built under a scoped tracing subscriber owning a queue handle; handle forgotten, every handle and the subscriber dropped: after {} the stream has {}been dropped and has seen {got:?}", if is_closed { "that" } else { "30 s" }, if is_closed { "" } else { "NOT " }),
                json!({"join_handle_abandoned_by": "forget()", "built_under_scoped_subscriber_owning_a_handle": true, "stream_dropped": is_closed, "reached_the_stream": got}),
            );
        }
    }
    rep.set("writer_model_abandoned_join_handle", json!(runs));
}

/// A stream whose first `next` stalls (an output that hangs for a while), then is fast.
struct StallFirst {
    seen: Arc<Mutex<Vec<u64>>>,
    stall: Option<std::time::Duration>,
}
impl EntryIoStream for StallFirst {
    fn next(&mut self, entry: &impl Entry) -> Result<(), IoStreamError> {
        if let Some(d) = self.stall.take() {
            std::thread::sleep(d);
        }
        if let Some(id) = id_of(entry) {
            self.seen.lock().unwrap().push(id);
        }
        Ok(())
    }
    fn flush(&mut self) -> std::io::Result<()> {
        Ok(())
    }
}

/// C01 / C05 / C09: the writer was stalled inside the stream for longer than the shutdown timeout
/// (3 s against 2 s) while 100 entries queued up (capacity 1000: nothing overflows); then the
/// join handle is dropped. The final drain has its own budget, counted from when it begins:
/// every entry reaches the stream, the overflow counter stays 0. Fixed scenario, real queue.
fn stalled_pass_then_shutdown(rep: &mut Report, prop: &str) {
    use metrique_writer::EntrySink;
    let seen = Arc::new(Mutex::new(Vec::new()));
    let counts = Counts::default();
    let (queue, handle) = BackgroundQueueBuilder::new()
        .capacity(1000)
        .flush_interval(std::time::Duration::from_millis(20))
        .shutdown_timeout(std::time::Duration::from_secs(2))
        .metrics_recorder_local::<dyn metrics_024::Recorder, _>(counts.clone())
        .build::<Tag>(StallFirst { seen: seen.clone(), stall: Some(std::time::Duration::from_secs(3)) });
    for id in 0..100u64 {
        queue.append(Tag(id));
    }
    drop(handle); // returns once the writer has drained, flushed and closed
    let got = seen.lock().unwrap().clone();
    let overflows = counts.0.lock().unwrap().get("metrique_queue_overflows").copied().unwrap_or(0);
    rep.set("writer_model_stalled_pass_then_shutdown", json!({"appended": 100, "reached_the_stream": got.len(), "overflow_counter": overflows}));
    let expect: Vec<u64> = (0..100).collect();
    if got != expect || (prop == "C09" && overflows != 0) {
        rep.violation(
            "writer:entries-lost-after-a-stalled-pass",
            format!("capacity 1000, flush interval 20 ms, shutdown timeout 2 s: the stream stalled for 3 s on the first of 100 queued entries, then the join handle was dropped; {} entries reached the stream (expected all 100), overflow counter {overflows}", got.len()),
            json!({"appended": 100, "reached_the_stream": got.len(), "overflow_counter": overflows, "first_missing": expect.iter().find(|i| !got.contains(i))}),
        );
    }
    drop(queue);
}

pub fn run(prop: &'static str) {
    let mut rep = Report::from_args(prop, "model_checking");
    if (prop == "C01" || prop == "C05" || prop == "C09") && rep.replay.is_none() {
        stalled_pass_then_shutdown(&mut rep, prop);
    }
    if prop == "C09" && rep.replay.is_none() {
        overflow_counter_through_the_global_route(&mut rep);
    }
    if prop == "C05" && rep.replay.is_none() {
        abandoned_join_handle(&mut rep);
    }
    if (prop == "C01" || prop == "C04") && rep.replay.is_none() {
        smallest_flush_interval(&mut rep, prop);
    }
    if prop == "C09" && rep.replay.is_none() {
        overflow_counter_with_feedback(&mut rep);
        wide_entries_keep_their_capacity(&mut rep);
    }
    if prop == "C01" && rep.replay.is_none() {
        subscriber_installed_later(&mut rep);
    }
    let depth: usize = rep.tier.pick(11, 13);
    let max_reqs = 2;
    if rep.replay.is_none() {
        start_watchdog(prop);
    }
    let caps: Vec<usize> = vec![1, 2, 3, 33, 40];
    let modes = [Mode::AllOk, Mode::AllIo, Mode::AllValidation, Mode::Mixed];
    let mut jobs: Vec<(usize, Mode, bool)> = caps.iter().flat_map(|c| modes.iter().map(move |m| (*c, *m, false))).collect();
    // builder option: a sub-second shutdown timeout (matters where one drain pass cannot empty the queue)
    jobs.extend([33usize, 40].iter().flat_map(|c| modes.iter().map(move |m| (*c, *m, true))));
    // a stream whose flush always fails
    jobs.extend([2usize, 33].iter().flat_map(|c| [Mode::AllOkFlushFails, Mode::AllValidationFlushFails].into_iter().map(move |m| (*c, m, false))));
    let states = par::for_each_index(jobs.len() as u64, 1, St::default, |st, ji| {
        let (cap, mode, short) = jobs[ji as usize];
        let mut seen: HashMap<_, usize> = HashMap::new();
        let mut stack: Vec<Vec<Ev>> = vec![vec![]];
        while let Some(hist) = stack.pop() {
            let (mut w, _) = replay(cap, mode, short, &hist);
            let remaining = depth - hist.len();
            let k = w.key();
            if let Some(r) = seen.get(&k) {
                if *r >= remaining {
                    continue;
                }
            }
            seen.insert(k, remaining);
            st.states += 1;
            if remaining == 0 {
                continue;
            }
            for ev in w.enabled(max_reqs) {
                let mut h2 = hist.clone();
                h2.push(ev);
                let (w2, bad) = replay(cap, mode, short, &h2);
                st.transitions += h2.len() as u64;
                if !bad.is_empty() {
                    for (p, key, what) in bad {
                        if p == prop {
                            st.v.add(key, format!("capacity {cap}, stream answers {mode:?}{}: {what} after {h2:?}", if short { ", shutdown_timeout 999 ms" } else { "" }), json!({"capacity": cap, "stream_answers": format!("{mode:?}"), "shutdown_timeout_999ms": short, "history": h2.iter().map(|e| format!("{e:?}")).collect::<Vec<_>>()}));
                        }
                    }
                    continue;
                }
                st.completed += w2.reqs.iter().filter(|r| r.complete).count() as u64;
                if w2.shut {
                    st.shutdowns += 1;
                    continue;
                }
                stack.push(h2);
            }
        }
    });
    let (mut s, mut t, mut c, mut sd) = (0, 0, 0, 0);
    for x in states {
        s += x.states;
        t += x.transitions;
        c += x.completed;
        sd += x.shutdowns;
        rep.violations.merge(x.v);
    }
    rep.set("states", s);
    rep.set("transitions", t);
    rep.set("traces_validated_against_impl", s);
    rep.set("writer_model_depth", depth as u64);
    rep.set("writer_model_capacities", json!(caps));
    rep.set("writer_model_stream_answers", json!(modes.iter().map(|m| format!("{m:?}")).collect::<Vec<_>>()));
    rep.set("writer_model_histories_with_completed_requests", c);
    rep.set("writer_model_histories_ending_in_shutdown", sd);
    rep.set("exhaustive", true);
    rep.set("writer_model_explanation", "DFS with a canonical state key over push / fill / flush request / one real drain_until_deadline pass (far deadline; deadline passed; deadline passed with a producer appending one entry per entry written) / the real handle_waiting_wakers call with nothing, a push+request or a request arriving during its stream flush / real shut_down, on a real unstarted Receiver + ArrayQueue + WakerTracker (hook __verif_writer) rebuilt by replay for every transition; stream answers all-Ok, all-Io, all-Validation, mixed.");
    rep.sample(json!({"capacity": 2, "stream_answers": "AllIo", "history": ["Fill", "Request", "DrainPassedRefilling", "Call(0)", "DrainPassedRefilling", "Call(0)"], "expect": "the request is collected by the first call and completed by the second (countdown = capacity) although the queue never ran empty and every entry was rejected"}));
    rep.assume("the in-band error report entry and tracing output are ignored (rate limited by real time)");
    rep.finish();
}
