//! Alphabets and index-addressable enumerations of entry descriptions and formatter
//! configurations. Everything here is a finite list or a cross product of finite lists; the
//! checks walk them completely.

use super::*;
use vh_common::Tier;

pub fn s(x: &str) -> String {
    x.to_string()
}

pub fn long_name() -> String {
    "N".repeat(101)
}

/// names that are valid for values (never collide with dimension names A,B,E,F,k,j)
pub fn value_names() -> Vec<String> {
    vec![
        s("M"),
        s("N"),
        s("a\"b"),
        s("a\\b"),
        s("\u{1}"),
        s("é"),
        s("\u{2028}"),
        s("/\u{7f}\u{0}"),
        long_name(),
    ]
}

pub fn string_contents() -> Vec<String> {
    vec![
        s(""),
        s("v"),
        s("q\"q"),
        s("b\\"),
        s("\u{1f}\n\t\r\u{8}\u{c}"),
        s("é😀"),
        s("\u{2028}\u{2029}\u{feff}"),
        s("</script>\u{7f}"),
    ]
}

pub fn obs_alphabet(tier: Tier) -> Vec<Obs> {
    let mut v = vec![
        Obs::U(1),
        Obs::U(u64::MAX),
        Obs::F(1.5),
        Obs::F(-0.0),
        Obs::F(f64::NAN),
        Obs::F(f64::INFINITY),
        Obs::F(f64::NEG_INFINITY),
        Obs::R(3.0, 2),
        // a single occurrence reported in the repeated form (weighted like any other when sampling)
        Obs::R(2.5, 1),
        Obs::R(5.0, 0),
        Obs::R(f64::NAN, 1),
        // an infinite mean over several occurrences (clamped after, not before, the division)
        Obs::R(f64::NEG_INFINITY, 2),
    ];
    if tier == Tier::Thorough {
        v.extend([
            Obs::U(0),
            Obs::U((1 << 53) + 1),
            Obs::F(1e300),
            Obs::F(-2.5e-7),
            Obs::R(f64::INFINITY, 3),
            Obs::R(1.0, u64::MAX),
        ]);
    }
    v
}

/// 48 000 observations of 22-23 characters each: 1.2 MB of `Values` text in one record
pub fn huge_obs() -> Vec<Obs> {
    (0..48_000).map(|i| Obs::F((i as f64 + 0.123456789012345) * 1e-300)).collect()
}

/// Entries scaled past the sizes the small alphabets reach: `n` per-metric dimension sets,
/// `n` metrics in one record, `n` string properties, for `n` around powers of two (bit masks,
/// inline capacities); each valid, and with one metric written twice (in the first, a middle
/// and the last dimension set / position).
pub fn scaled_entries(cfg: &CfgD, tier: Tier) -> Vec<(String, EntryD)> {
    let sizes: &[usize] = match tier {
        Tier::Quick => &[31, 32, 33, 63, 64, 65, 130],
        Tier::Thorough => &[7, 8, 9, 15, 16, 17, 31, 32, 33, 63, 64, 65, 127, 128, 129, 255, 256, 257, 600],
    };
    let m = |v: u64, dims: Vec<(String, String)>| ValD::Metric { obs: vec![Obs::U(v)], unit: UnitD::None, dims, flag: FlagD::None };
    let mut out = Vec::new();
    for &n in sizes {
        // n dimension sets, the same metric name in each
        let sets: Vec<(String, ValD)> = (0..n).map(|i| (s("M"), m(i as u64, vec![(s("k"), format!("v{i}"))]))).collect();
        out.push((format!("{n}-dimension-sets"), build_entry(cfg, frame_minimal(), sets.clone())));
        for j in [0, n / 2, n - 1] {
            let mut e = build_entry(cfg, frame_minimal(), sets.clone());
            e.ops.push(OpD::Value(s("M"), m(999, vec![(s("k"), format!("v{j}"))])));
            out.push((format!("{n}-dimension-sets+duplicate-in-set-{j}"), e));
        }
        // n metrics in one record
        let wide: Vec<(String, ValD)> = (0..n).map(|i| (format!("M{i}"), m(i as u64, vec![]))).collect();
        out.push((format!("{n}-metrics"), build_entry(cfg, frame_minimal(), wide.clone())));
        for j in [0, n / 2, n - 1] {
            let mut e = build_entry(cfg, frame_minimal(), wide.clone());
            e.ops.push(OpD::Value(format!("M{j}"), m(999, vec![])));
            out.push((format!("{n}-metrics+duplicate-of-{j}"), e));
        }
        // n string properties, one of them written twice
        let strs: Vec<(String, ValD)> = (0..n).map(|i| (format!("S{i}"), ValD::Str(format!("t{i}")))).collect();
        let mut e = build_entry(cfg, frame_minimal(), strs);
        out.push((format!("{n}-strings"), e.clone()));
        e.ops.push(OpD::Value(format!("S{}", n - 1), ValD::Str(s("again"))));
        out.push((format!("{n}-strings+duplicate-of-last"), e));
    }
    // timestamps with a sub-millisecond part, just below and at a millisecond / second boundary,
    // of present-day and of small magnitude (whole epoch milliseconds: the floor)
    for ns in [1_749_475_336_015_999_950i128, 1_749_475_336_015_999_999, 1_749_475_336_016_000_000, 1_749_475_336_999_999_999, 999_999, 1_000_000, 1_999_999, 4_102_444_800_123_999_999] {
        let mut e = build_entry(cfg, frame_minimal(), vec![(s("M"), m(1, vec![]))]);
        for op in &mut e.ops {
            if let OpD::Timestamp(t) = op {
                *t = ns;
            }
        }
        out.push((format!("timestamp-{ns}-ns"), e));
    }
    // long names and long values (a name is valid whatever its length)
    let lens: &[usize] = match tier {
        Tier::Quick => &[1024, 1025, 4096],
        Tier::Thorough => &[255, 256, 1023, 1024, 1025, 4096, 70_000],
    };
    for &len in lens {
        let long = "n".repeat(len);
        out.push((format!("metric-name-of-{len}-bytes"), build_entry(cfg, frame_minimal(), vec![(long.clone(), m(1, vec![])), (s("M"), m(2, vec![]))])));
        out.push((format!("string-name-of-{len}-bytes"), build_entry(cfg, frame_minimal(), vec![(long.clone(), ValD::Str(s("v"))), (s("M"), m(2, vec![]))])));
        out.push((format!("dimension-value-of-{len}-bytes"), build_entry(cfg, frame_minimal(), vec![(s("M"), m(2, vec![(s("k"), long.clone())]))])));
        let mut dup = build_entry(cfg, frame_minimal(), vec![(long.clone(), m(1, vec![]))]);
        dup.ops.push(OpD::Value(long.clone(), ValD::Str(s("again"))));
        out.push((format!("metric-name-of-{len}-bytes-written-twice"), dup));
    }
    out
}

/// configurations for the scaled entries
pub fn scaled_configs() -> Vec<CfgD> {
    let mut rich = CfgD::simple(Ctor::Builder);
    rich.namespaces = vec![s("NS"), s("N\"2")];
    rich.default_dims = vec![vec![], vec![s("A")]];
    vec![CfgD::simple(Ctor::AllValidations), CfgD::simple(Ctor::NoValidations), rich]
}

/// a reduced observation alphabet for multi-value layers
pub fn obs_small() -> Vec<Obs> {
    vec![
        Obs::U(7),
        Obs::F(2.25),
        Obs::F(f64::NAN),
        Obs::R(9.0, 4),
        Obs::F(f64::INFINITY),
    ]
}

pub fn dims_alphabet() -> Vec<Vec<(String, String)>> {
    vec![
        vec![],
        vec![(s("k"), s("v"))],
        vec![(s("k"), s("w\"")), (s("j"), s("x"))],
        vec![(s("j"), s("x")), (s("k"), s("w\""))],
    ]
}

pub fn units_alphabet() -> Vec<UnitD> {
    vec![UnitD::None, UnitD::Milli, UnitD::Custom, UnitD::KiloByte]
}

pub fn flags_alphabet() -> Vec<FlagD> {
    vec![FlagD::None, FlagD::HighRes, FlagD::NoMetric]
}

/// all lists over `alpha` of length 0..=max_len, shortest first
pub fn lists<T: Clone>(alpha: &[T], max_len: usize) -> Vec<Vec<T>> {
    let mut out: Vec<Vec<T>> = vec![vec![]];
    let mut frontier: Vec<Vec<T>> = vec![vec![]];
    for _ in 0..max_len {
        let mut next = Vec::new();
        for l in &frontier {
            for a in alpha {
                let mut l2 = l.clone();
                l2.push(a.clone());
                next.push(l2);
            }
        }
        out.extend(next.iter().cloned());
        frontier = next;
    }
    out
}

/// metric bodies: every (observation list, unit, dims, flag) combination
pub fn metric_bodies(
    obs_lists: &[Vec<Obs>],
    units: &[UnitD],
    dims: &[Vec<(String, String)>],
    flags: &[FlagD],
) -> Vec<ValD> {
    let mut out = Vec::new();
    for o in obs_lists {
        for u in units {
            for d in dims {
                for f in flags {
                    out.push(ValD::Metric {
                        obs: o.clone(),
                        unit: *u,
                        dims: d.clone(),
                        flag: *f,
                    });
                }
            }
        }
    }
    out
}

pub fn deep_bodies(tier: Tier) -> Vec<ValD> {
    let max_len = tier.pick(2, 3);
    let mut v: Vec<ValD> = string_contents().into_iter().map(ValD::Str).collect();
    v.extend(metric_bodies(
        &lists(&obs_alphabet(tier), max_len),
        &units_alphabet(),
        &dims_alphabet(),
        &flags_alphabet(),
    ));
    v
}

pub fn mid_bodies(tier: Tier) -> Vec<ValD> {
    let max_len = tier.pick(1, 2);
    let mut v: Vec<ValD> = vec![ValD::Str(s("v")), ValD::Str(s("q\"q"))];
    v.extend(metric_bodies(
        &lists(&obs_small(), max_len),
        &[UnitD::None, UnitD::Milli],
        &dims_alphabet()[..3],
        &flags_alphabet(),
    ));
    v
}

pub fn small_bodies() -> Vec<ValD> {
    let m = |obs: Vec<Obs>, unit, dims: usize, flag| ValD::Metric {
        obs,
        unit,
        dims: dims_alphabet()[dims].clone(),
        flag,
    };
    vec![
        ValD::Str(s("v")),
        ValD::Str(s("q\"q")),
        m(vec![Obs::U(7)], UnitD::None, 0, FlagD::None),
        m(vec![Obs::F(2.25)], UnitD::Milli, 0, FlagD::HighRes),
        m(vec![Obs::F(f64::NAN)], UnitD::None, 0, FlagD::None),
        m(vec![Obs::U(1), Obs::F(f64::NAN)], UnitD::Count, 0, FlagD::None),
        m(vec![Obs::R(9.0, 4), Obs::U(2)], UnitD::None, 0, FlagD::NoMetric),
        m(vec![], UnitD::None, 0, FlagD::None),
        m(vec![Obs::U(7)], UnitD::None, 1, FlagD::None),
        m(vec![Obs::F(f64::NAN)], UnitD::None, 1, FlagD::None),
        m(vec![Obs::F(2.25), Obs::U(3)], UnitD::Custom, 2, FlagD::HighRes),
        m(vec![Obs::U(7)], UnitD::Milli, 3, FlagD::NoMetric),
    ]
}

// ------------------------------------------------------------------------------------------
// configurations

pub fn configs(tier: Tier) -> Vec<CfgD> {
    let mut out = Vec::new();
    let plain = |ctor| CfgD::simple(ctor);
    for ctor in [
        Ctor::AllValidations,
        Ctor::NoValidations,
        Ctor::Builder,
        Ctor::BuilderSkipFalse,
        Ctor::BuilderSkipTrue,
    ] {
        out.push(plain(ctor));
    }
    let dimsets: Vec<Vec<Vec<String>>> = vec![
        vec![vec![s("A")]],
        vec![vec![s("A")], vec![s("A"), s("B")]],
        vec![vec![], vec![s("A")]],
    ];
    for d in &dimsets {
        for ctor in [Ctor::AllValidations, Ctor::NoValidations] {
            let mut c = plain(ctor);
            c.default_dims = d.clone();
            out.push(c);
        }
    }
    for ctor in [Ctor::Builder, Ctor::BuilderSkipTrue] {
        let base = plain(ctor);
        let mut c = base.clone();
        c.namespaces = vec![s("NS"), s("N\"2")];
        out.push(c);
        let mut c = base.clone();
        c.namespaces = vec![s("NS"), s("N\"2"), s("NS3")];
        c.default_dims = dimsets[1].clone();
        out.push(c);
        let mut c = base.clone();
        c.extra_directive = true;
        out.push(c);
        let mut c = base.clone();
        c.log_group = Some(s("lg\"x"));
        out.push(c);
        let mut c = base.clone();
        c.allow_ignored = true;
        out.push(c);
        let mut c = base.clone();
        c.namespaces = vec![s("NS"), s("N\"2")];
        c.extra_directive = true;
        c.log_group = Some(s("lg\"x"));
        c.default_dims = dimsets[2].clone();
        out.push(c);
    }
    // configuration strings that need escaping, in every position where the formatter
    // pre-computes text from them (first namespace, later namespaces, dimension names)
    let nasty_ns = s("N\"\\\u{1}\u{e9}\u{10000}");
    let nasty_dim = s("A\"\\\u{e9}");
    {
        let mut c = plain(Ctor::Builder);
        c.namespaces = vec![nasty_ns.clone(), s("NS")];
        out.push(c);
        let mut c = plain(Ctor::BuilderSkipTrue);
        c.namespaces = vec![nasty_ns.clone(), s("N\"2"), s("NS3")];
        c.default_dims = vec![vec![nasty_dim.clone()], vec![nasty_dim.clone(), s("B")]];
        c.mult = Mult::None;
        out.push(c);
        for ctor in [Ctor::AllValidations, Ctor::NoValidations] {
            let mut c = plain(ctor);
            c.namespaces = vec![nasty_ns.clone()];
            c.default_dims = vec![vec![], vec![nasty_dim.clone()]];
            out.push(c);
        }
    }
    // sampling multiplicities
    let n = out.len();
    let mults: &[Mult] = match tier {
        Tier::Quick => &[Mult::Two, Mult::Max],
        Tier::Thorough => &[Mult::One, Mult::Two, Mult::Max],
    };
    for i in 0..n {
        let c = &out[i];
        let wanted = (c.is_plain()
            && matches!(c.ctor, Ctor::AllValidations | Ctor::NoValidations)
            && c.default_dims == vec![Vec::<String>::new()])
            || (c.extra_directive && c.log_group.is_some())
            || (tier == Tier::Thorough && c.namespaces.len() == 3);
        if wanted {
            for m in mults {
                let mut c2 = out[i].clone();
                c2.mult = *m;
                out.push(c2);
            }
        }
    }
    out
}

// ------------------------------------------------------------------------------------------
// entry frames: what surrounds the enumerated values so that the entry is valid under `cfg`

#[derive(Clone, Copy, Debug, PartialEq, Eq)]
pub enum TsD {
    None,
    Small,
    Big,
    PreEpoch,
}

pub const TS_SMALL_NS: i128 = 1_500_400_000; // 1.5004 s  -> 1500 ms
pub const TS_BIG_NS: i128 = 1_749_475_336_015_781_900; // -> 1749475336015 ms

#[derive(Clone, Copy, Debug, PartialEq, Eq)]
pub enum EDimsD {
    None,
    One,     // [["E"]]
    Two,     // [["E"],["E","F"]]
    EmptySet, // [[]]
}

#[derive(Clone, Copy, Debug, PartialEq, Eq)]
pub struct Frame {
    pub ts: TsD,
    pub edims: EDimsD,
    /// write the dimension strings after the values instead of before them
    pub dim_strings_last: bool,
    /// write AllowSplitEntries even if no value needs it
    pub always_split: bool,
}

pub fn frames(tier: Tier) -> Vec<Frame> {
    let mut v = Vec::new();
    let f = |ts, edims, dim_strings_last, always_split| Frame {
        ts,
        edims,
        dim_strings_last,
        always_split,
    };
    v.push(f(TsD::Big, EDimsD::None, false, false));
    v.push(f(TsD::Small, EDimsD::One, true, false));
    v.push(f(TsD::None, EDimsD::Two, false, true));
    v.push(f(TsD::Big, EDimsD::EmptySet, true, true));
    if tier == Tier::Thorough {
        v.push(f(TsD::Small, EDimsD::None, true, true));
        v.push(f(TsD::Big, EDimsD::Two, true, false));
        v.push(f(TsD::None, EDimsD::One, false, false));
    }
    v
}

pub fn frame_minimal() -> Frame {
    Frame {
        ts: TsD::Big,
        edims: EDimsD::None,
        dim_strings_last: false,
        always_split: false,
    }
}

pub fn edims_sets(e: EDimsD) -> Option<Vec<Vec<String>>> {
    match e {
        EDimsD::None => None,
        EDimsD::One => Some(vec![vec![s("E")]]),
        EDimsD::Two => Some(vec![vec![s("E")], vec![s("E"), s("F")]]),
        EDimsD::EmptySet => Some(vec![vec![]]),
    }
}

/// Builds a valid entry around `values` (which must have unique names outside {A,B,E,F,k,j}).
pub fn build_entry(cfg: &CfgD, frame: Frame, values: Vec<(String, ValD)>) -> EntryD {
    let mut ops = Vec::new();
    let needs_split = !cfg.allow_ignored
        && values
            .iter()
            .any(|(_, v)| matches!(v, ValD::Metric { dims, .. } if !dims.is_empty()));
    if needs_split || frame.always_split {
        ops.push(OpD::Config(ConfD::Split));
    }
    let mut declared: Vec<String> = cfg.default_dims.iter().flatten().cloned().collect();
    if let Some(sets) = edims_sets(frame.edims) {
        declared.extend(sets.iter().flatten().cloned());
        ops.push(OpD::Config(ConfD::EntryDims(sets)));
    }
    declared.sort();
    declared.dedup();
    match frame.ts {
        TsD::None => {}
        TsD::Small => ops.push(OpD::Timestamp(TS_SMALL_NS)),
        TsD::Big => ops.push(OpD::Timestamp(TS_BIG_NS)),
        TsD::PreEpoch => ops.push(OpD::Timestamp(-1_000_000_000)),
    }
    let dim_strings: Vec<OpD> = declared
        .iter()
        .map(|d| OpD::Value(d.clone(), ValD::Str(format!("val-{d}\""))))
        .collect();
    if !frame.dim_strings_last {
        ops.extend(dim_strings.iter().cloned());
    }
    for (n, v) in values {
        ops.push(OpD::Value(n, v));
    }
    if frame.dim_strings_last {
        ops.extend(dim_strings);
    }
    EntryD { ops }
}
