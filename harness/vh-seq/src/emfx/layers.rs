//! The enumeration layers shared by C02 and C03: each layer is a complete cross product of
//! finite alphabets, walked in parallel by index.

use super::gen_::*;
use super::*;
use vh_common::Tier;
use vh_common::par;

pub struct Layer {
    pub name: &'static str,
    pub cfgs: Vec<CfgD>,
    pub frames: Vec<Frame>,
    /// value slots: each slot is (names, bodies); an entry takes one (name, body) per slot
    pub slots: Vec<(Vec<String>, Vec<ValD>)>,
}

impl Layer {
    pub fn size(&self) -> u64 {
        let mut n = self.cfgs.len() as u64 * self.frames.len() as u64;
        for (names, bodies) in &self.slots {
            n *= names.len() as u64 * bodies.len() as u64;
        }
        n
    }
    fn radices(&self) -> Vec<u64> {
        let mut r = vec![self.cfgs.len() as u64, self.frames.len() as u64];
        for (names, bodies) in &self.slots {
            r.push(names.len() as u64);
            r.push(bodies.len() as u64);
        }
        r
    }
    /// None if the combination is outside the layer (slots sharing a name)
    pub fn case(&self, idx: u64) -> Option<(usize, EntryD)> {
        let radices = self.radices();
        let mut digits = vec![0u64; radices.len()];
        par::decode(idx, &radices, &mut digits);
        let cfg = &self.cfgs[digits[0] as usize];
        let frame = self.frames[digits[1] as usize];
        let mut values: Vec<(String, ValD)> = Vec::new();
        for (k, (names, bodies)) in self.slots.iter().enumerate() {
            let name = &names[digits[2 + 2 * k] as usize];
            let body = &bodies[digits[3 + 2 * k] as usize];
            if values.iter().any(|(n, _)| n == name) {
                return None;
            }
            values.push((name.clone(), body.clone()));
        }
        Some((digits[0] as usize, build_entry(cfg, frame, values)))
    }
}

pub fn layers(tier: Tier) -> Vec<Layer> {
    let cfgs = configs(tier);
    let few_cfgs: Vec<CfgD> = cfgs
        .iter()
        .filter(|c| {
            (c.is_plain() && matches!(c.ctor, Ctor::AllValidations | Ctor::NoValidations))
                || (c.extra_directive && c.log_group.is_some())
                || c.allow_ignored
        })
        .cloned()
        .collect();
    let mut shallow = small_bodies();
    shallow.extend(string_contents().into_iter().map(ValD::Str));
    vec![
        Layer {
            name: "A1 one value, every body",
            cfgs: cfgs.clone(),
            frames: vec![frame_minimal()],
            slots: vec![(vec![s("M")], deep_bodies(tier))],
        },
        Layer {
            name: "A2 every name x shallow bodies x every frame",
            cfgs: few_cfgs.clone(),
            frames: frames(tier),
            slots: vec![(value_names(), shallow)],
        },
        Layer {
            name: "B two values",
            cfgs: cfgs.clone(),
            frames: frames(tier)[..2].to_vec(),
            slots: vec![
                (vec![s("M")], mid_bodies(tier)),
                (vec![s("N"), s("a\"b")], mid_bodies(tier)),
            ],
        },
        Layer {
            name: "C three values",
            cfgs: tier.pick(few_cfgs.clone(), cfgs.clone()),
            frames: frames(tier),
            slots: vec![
                (vec![s("M")], small_bodies()),
                (vec![s("N")], small_bodies()),
                (vec![s("a\"b"), s("M")], small_bodies()),
            ],
        },
    ]
}

/// Walks every case of every layer; `f(state, layer, cfg, pristine formatter, entry)`.
pub fn walk<S: Send>(
    layers: &[Layer],
    init: impl Fn() -> S + Sync,
    f: impl Fn(&mut S, &Layer, &CfgD, &Emf, &EntryD) + Sync,
) -> Vec<S> {
    let mut states: Vec<S> = Vec::new();
    for layer in layers {
        let pristine: Vec<Emf> = layer.cfgs.iter().map(|c| c.build()).collect();
        let part = par::for_each_index(layer.size(), 512, &init, |st, idx| {
            if let Some((ci, entry)) = layer.case(idx) {
                f(st, layer, &layer.cfgs[ci], &pristine[ci], &entry);
            }
        });
        states.extend(part);
    }
    states
}
